//! Workload generators: adversarial leaves (G-tree), document renderer with every spelling the
//! grammar allows (G-render), and mutators (G-mut). Independent of the code under test.

use crate::decode::{run_model, KeyKind, KeySeg, PKind, PVal, Reading, Stmt};
use crate::rng::Rng;
use crate::rval::*;

// ------------------------------------------------------------------------------------------
// leaves
// ------------------------------------------------------------------------------------------

pub const CRLF_SENTINEL: char = '\u{E000}';

const NASTY_CHARS: &[char] = &[
    '"', '\'', '\\', '\n', '\r', '\t', ' ', '\0', '\u{1}', '\u{8}', '\u{c}', '\u{1f}', '\u{7f}', '#', '=', '.', ',', '[', ']', '{', '}', 'a', 'b', 'Z', '0',
    '-', '_', 'é', 'ß', '\u{80}', '\u{ff}', '\u{7ff}', '\u{800}', '\u{d7ff}', '\u{e001}', '\u{fffd}', '\u{fffe}', '\u{ffff}', '\u{10000}', '😀', '\u{10ffff}',
    '\u{feff}', '\u{2028}', '\u{85}',
];

pub fn gen_char(rng: &mut Rng) -> char {
    match rng.below(10) {
        0..=5 => *rng.pick(NASTY_CHARS),
        6 | 7 => (b'a' + rng.below(26) as u8) as char,
        8 => char::from_u32(rng.below(0x80) as u32).unwrap(),
        _ => loop {
            let c = rng.below(0x110000) as u32;
            if let Some(ch) = char::from_u32(c) {
                if ch != CRLF_SENTINEL {
                    break ch;
                }
            }
        },
    }
}

pub fn gen_string(rng: &mut Rng) -> String {
    let mut s = String::new();
    match rng.below(12) {
        0 => {}
        1 => {
            // quote runs
            let q = if rng.coin() { '"' } else { '\'' };
            // now and then a run around the sizes at which a narrow counter would wrap
            let long = rng.chance(1, 40);
            let n = if long { *rng.pick(&[254usize, 255, 256, 257, 258, 511, 512, 513, 514]) } else { 1 + rng.below(5) };
            if long && rng.coin() {
                // the other quote and a backslash as well: no style gets by without counting
                s.push(if q == '"' { '\'' } else { '"' });
                s.push('\\');
            }
            if rng.coin() {
                s.push('x');
            }
            for _ in 0..n {
                s.push(q);
            }
            if rng.coin() {
                s.push('y');
            }
            if rng.chance(1, 3) {
                for _ in 0..1 + rng.below(3) {
                    s.push(q);
                }
            }
        }
        2 => {
            // newline heavy
            for _ in 0..1 + rng.below(5) {
                match rng.below(5) {
                    0 => s.push('\n'),
                    1 => s.push_str("\r\n"),
                    2 => s.push(' '),
                    3 => s.push('\t'),
                    _ => s.push('w'),
                }
            }
        }
        3 => {
            // looks like something else
            s.push_str(*rng.pick(&[
"true", "1", "1.0", "inf", "nan", "1979-05-27", "07:32:00", "[a]", "{}", "# c", "a.b", "\\n", "\\u0041", "'''", "\"\"\""]));
        }
        _ => {
            let cap = if rng.chance(1, 8) { 40 } else { 8 };
            let n = rng.below(cap);
            for _ in 0..n {
                s.push(gen_char(rng));
            }
        }
    }
    s
}

const KEY_POOL: &[&str] = &["a", "b", "c", "d", "key", "k1", "x-y", "_", "-", "1", "007", "true", "inf", "nan", "1979-05-27", "a_b", "Z"];

pub fn gen_key(rng: &mut Rng) -> String {
    match rng.below(10) {
        0..=5 => rng.pick(KEY_POOL).to_string(),
        6 => {
            let n = 1 + rng.below(6);
            (0..n).map(|_| (b'a' + rng.below(26) as u8) as char).collect()
        }
        7 => String::new(),
        8 => rng.pick(&["a.b", "a b", "é", "😀", "\"", "'", "a\"b", "a'b", "\\", "\n", "\t", " ", "#", "=", "[", "]", "\u{0}", "\u{7f}", "ключ"]).to_string(),
        _ => gen_string(rng),
    }
}

pub fn gen_int(rng: &mut Rng) -> i64 {
    match rng.below(10) {
        0 => *rng.pick(&[0, 1, -1, i64::MAX, i64::MIN, i64::MAX - 1, i64::MIN + 1, 42, -17]),
        1 | 2 => {
            let k = rng.below(63) as u32;
            let base = 1i64 << k;
            let d = rng.range(-1, 1);
            let v = base.wrapping_add(d);
            if rng.coin() {
                v.wrapping_neg()
            } else {
                v
            }
        }
        3..=6 => rng.range(-1000, 1000),
        _ => rng.next_u64() as i64,
    }
}

pub fn gen_float_bits(rng: &mut Rng) -> u64 {
    match rng.below(10) {
        0 => *rng.pick(&[
            0u64,
            1u64 << 63,
            f64::INFINITY.to_bits(),
            f64::NEG_INFINITY.to_bits(),
            0x7FF8_0000_0000_0000,
            0xFFF8_0000_0000_0000,
            f64::MAX.to_bits(),
            f64::MIN_POSITIVE.to_bits(),
            1,
            0x000F_FFFF_FFFF_FFFF,
            f64::EPSILON.to_bits(),
        ]),
        1 | 2 => (rng.range(-100000, 100000) as f64 / *rng.pick(&[1.0, 2.0, 10.0, 100.0, 8.0, 3.0])).to_bits(),
        3 => {
            // integral floats of every magnitude
            let e = rng.below(309) as i32;
            let m = 1 + rng.below(9) as i32;
            (m as f64 * 10f64.powi(e)).to_bits()
        }
        4 => {
            let e = -(rng.below(324) as i32);
            (rng.range(1, 999) as f64 * 10f64.powi(e)).to_bits()
        }
        5 => ((1u64 << 53) as f64 + rng.range(-2, 2) as f64).to_bits(),
        _ => {
            let b = rng.next_u64();
            if f64::from_bits(b).is_nan() {
                0x7FF8_0000_0000_0000 | (b & (1 << 63))
            } else {
                b
            }
        }
    }
}

pub fn gen_date(rng: &mut Rng) -> RDate {
    let year = match rng.below(6) {
        0 => *rng.pick(&[0u16, 1, 1900, 2000, 2024, 2100, 9999]),
        _ => rng.below(10000) as u16,
    };
    let month = 1 + rng.below(12) as u8;
    let dim = days_in_month(year, month);
    let day = if rng.chance(1, 3) { dim } else { 1 + rng.below(dim as usize) as u8 };
    RDate { year, month, day }
}

pub fn gen_time(rng: &mut Rng) -> RTime {
    let hour = if rng.chance(1, 4) { *rng.pick(&[0u8, 23]) } else { rng.below(24) as u8 };
    let minute = if rng.chance(1, 4) { *rng.pick(&[0u8, 59]) } else { rng.below(60) as u8 };
    let second = if rng.chance(1, 4) { *rng.pick(&[0u8, 59, 60]) } else { rng.below(60) as u8 };
    let nanos = match rng.below(5) {
        0 | 1 => 0,
        2 => *rng.pick(&[1u32, 999_999_999, 500_000_000, 100, 123_000_000, 999_999_000]),
        _ => rng.below(1_000_000_000) as u32,
    };
    RTime { hour, minute, second, nanos }
}

pub fn gen_offset(rng: &mut Rng) -> ROffset {
    match rng.below(4) {
        0 => ROffset::Z,
        1 => ROffset::Minutes(*rng.pick(&[0i16, 60, -60, 23 * 60 + 59, -(23 * 60 + 59), 330, -1])),
        _ => ROffset::Minutes(rng.range(-(23 * 60 + 59), 23 * 60 + 59) as i16),
    }
}

pub fn gen_datetime(rng: &mut Rng) -> RDatetime {
    match rng.below(4) {
        0 => RDatetime { date: Some(gen_date(rng)), time: Some(gen_time(rng)), offset: Some(gen_offset(rng)) },
        1 => RDatetime { date: Some(gen_date(rng)), time: Some(gen_time(rng)), offset: None },
        2 => RDatetime { date: Some(gen_date(rng)), time: None, offset: None },
        _ => RDatetime { date: None, time: Some(gen_time(rng)), offset: None },
    }
}

pub fn gen_scalar(rng: &mut Rng) -> RVal {
    match rng.below(10) {
        0..=2 => RVal::Str(gen_string(rng)),
        3 | 4 => RVal::Int(gen_int(rng)),
        5 | 6 => RVal::Float(gen_float_bits(rng)),
        7 => RVal::Bool(rng.coin()),
        _ => RVal::Dt(gen_datetime(rng)),
    }
}

/// a value that can sit on the right of `=`: scalar, array, inline table
pub fn gen_value(rng: &mut Rng, depth: usize, budget: &mut i32) -> RVal {
    *budget -= 1;
    if depth >= 4 || *budget <= 0 || rng.chance(7, 10) {
        return gen_scalar(rng);
    }
    if rng.coin() {
        let n = rng.below(5);
        RVal::Array((0..n).map(|_| gen_value(rng, depth + 1, budget)).collect())
    } else {
        let n = rng.below(4);
        let mut t = RTable::new();
        for _ in 0..n {
            let k = gen_key(rng);
            if t.get(&k).is_none() {
                let v = gen_value(rng, depth + 1, budget);
                t.entries.push((k, v));
            }
        }
        RVal::Table(t)
    }
}

/// A random tree of TOML values rooted in a table (for API-building checks).
pub fn gen_tree(rng: &mut Rng, budget: &mut i32, depth: usize) -> RTable {
    let mut t = RTable::new();
    let n = if depth == 0 { 1 + rng.below(6) } else { rng.below(5) };
    for _ in 0..n {
        if *budget <= 0 {
            break;
        }
        let k = gen_key(rng);
        if t.get(&k).is_some() {
            continue;
        }
        *budget -= 1;
        let v = match rng.below(10) {
            0..=4 => gen_scalar(rng),
            5 => {
                let m = rng.below(4);
                RVal::Array((0..m).map(|_| gen_value(rng, depth + 1, budget)).collect())
            }
            6 | 7 if depth < 5 => RVal::Table(gen_tree(rng, budget, depth + 1)),
            8 if depth < 4 => {
                // array of tables
                let m = 1 + rng.below(3);
                RVal::Array((0..m).map(|_| RVal::Table(gen_tree(rng, budget, depth + 1))).collect())
            }
            _ => gen_value(rng, depth + 1, budget),
        };
        t.entries.push((k, v));
    }
    t
}

// ------------------------------------------------------------------------------------------
// rendering of leaves
// ------------------------------------------------------------------------------------------

pub fn is_bare_key(s: &str) -> bool {
    !s.is_empty() && s.bytes().all(|c| c.is_ascii_alphanumeric() || c == b'-' || c == b'_')
}

fn literal_ok(s: &str) -> bool {
    s.chars().all(|c| c != '\'' && (c == '\t' || (c >= ' ' && c != '\u{7f}')))
}

fn hex_case(rng: &mut Rng, s: String) -> String {
    match rng.below(3) {
        0 => s.to_uppercase(),
        1 => s.to_lowercase(),
        _ => s.chars().map(|c| if rng.coin() { c.to_ascii_uppercase() } else { c.to_ascii_lowercase() }).collect(),
    }
}

fn push_escape(rng: &mut Rng, c: char, out: &mut String) {
    let short = match c {
        '\u{8}' => Some("\\b"),
        '\t' => Some("\\t"),
        '\n' => Some("\\n"),
        '\u{c}' => Some("\\f"),
        '\r' => Some("\\r"),
        '"' => Some("\\\""),
        '\\' => Some("\\\\"),
        _ => None,
    };
    if let Some(s) = short {
        if rng.chance(3, 4) {
            out.push_str(s);
            return;
        }
    }
    let v = c as u32;
    if v <= 0xFFFF && rng.chance(2, 3) {
        out.push_str("\\u");
        out.push_str(&hex_case(rng, format!("{v:04x}")));
    } else {
        out.push_str("\\U");
        out.push_str(&hex_case(rng, format!("{v:08x}")));
    }
}

fn must_escape_basic(c: char) -> bool {
    c == '"' || c == '\\' || (c < ' ' && c != '\t') || c == '\u{7f}'
}

pub fn render_basic(rng: &mut Rng, s: &str) -> String {
    let mut out = String::from("\"");
    for c in s.chars() {
        if must_escape_basic(c) || rng.chance(1, 12) {
            push_escape(rng, c, &mut out);
        } else {
            out.push(c);
        }
    }
    out.push('"');
    out
}

pub fn render_literal(s: &str) -> String {
    format!("'{s}'")
}

/// Multi-line basic rendering. Returns (text, expected string) — the expected string contains
/// `CRLF_SENTINEL` where a raw CR LF was written for a line feed.
pub fn render_ml_basic(rng: &mut Rng, s: &str, allow_crlf: bool) -> (String, String) {
    let mut out = String::from("\"\"\"");
    let mut exp = String::new();
    let chars: Vec<char> = s.chars().collect();
    let first_nl = rng.coin();
    if first_nl {
        out.push_str(if allow_crlf && rng.chance(1, 3) { "\r\n" } else { "\n" });
    }
    let mut quote_run = 0; // raw quotes just written
    let mut after_continuation = false;
    let mut body_started = false;
    let mut i = 0;
    while i < chars.len() {
        let c = chars[i];
        // maybe a line-ending backslash before this char
        if rng.chance(1, 10) {
            out.push('\\');
            for _ in 0..rng.below(3) {
                out.push(if rng.coin() { ' ' } else { '\t' });
            }
            out.push_str(if allow_crlf && rng.chance(1, 3) { "\r\n" } else { "\n" });
            for _ in 0..rng.below(4) {
                match rng.below(4) {
                    0 => out.push(' '),
                    1 => out.push('\t'),
                    2 => out.push('\n'),
                    _ => out.push_str(if allow_crlf { "\r\n" } else { "\n" }),
                }
            }
            after_continuation = true;
            quote_run = 0;
            body_started = true;
        }
        let is_wsnl = c == ' ' || c == '\t' || c == '\n';
        let crlf_pair = c == '\r' && chars.get(i + 1) == Some(&'\n');
        if c == '\n' && !after_continuation && (body_started || first_nl) && rng.chance(2, 3) {
            // raw newline
            if allow_crlf && rng.chance(1, 3) {
                out.push_str("\r\n");
                exp.push(CRLF_SENTINEL);
            } else {
                out.push('\n');
                exp.push('\n');
            }
            quote_run = 0;
        } else if c == '"' {
            if quote_run < 2 && rng.chance(3, 4) {
                out.push('"');
                quote_run += 1;
            } else {
                push_escape(rng, c, &mut out);
                quote_run = 0;
            }
            exp.push(c);
        } else if must_escape_basic(c) || crlf_pair || (after_continuation && is_wsnl) || rng.chance(1, 14) {
            push_escape(rng, c, &mut out);
            exp.push(c);
            quote_run = 0;
        } else {
            out.push(c);
            exp.push(c);
            quote_run = 0;
        }
        after_continuation = false;
        body_started = true;
        i += 1;
    }
    // a trailing continuation is fine too
    if rng.chance(1, 12) {
        out.push_str("\\\n  ");
        quote_run = 0;
    }
    let _ = quote_run;
    out.push_str("\"\"\"");
    (out, exp)
}

fn ml_literal_ok(s: &str) -> bool {
    !s.contains("'''") && s.chars().all(|c| c == '\t' || c == '\n' || (c >= ' ' && c != '\u{7f}'))
}

pub fn render_ml_literal(rng: &mut Rng, s: &str, allow_crlf: bool) -> (String, String) {
    let mut out = String::from("'''");
    let mut exp = String::new();
    if s.starts_with('\n') || rng.coin() {
        out.push_str(if allow_crlf && rng.chance(1, 3) { "\r\n" } else { "\n" });
    }
    for c in s.chars() {
        if c == '\n' && allow_crlf && rng.chance(1, 3) {
            out.push_str("\r\n");
            exp.push(CRLF_SENTINEL);
        } else {
            out.push(c);
            exp.push(c);
        }
    }
    out.push_str("'''");
    (out, exp)
}

/// Renders a string value in a random legal spelling. Returns (text, expected, style name).
pub fn render_string(rng: &mut Rng, s: &str, allow_crlf: bool) -> (String, String, &'static str) {
    let mut styles: Vec<&'static str> = vec!["basic", "ml-basic"];
    if literal_ok(s) {
        styles.push("literal");
        styles.push("literal");
    }
    if ml_literal_ok(s) {
        styles.push("ml-literal");
    }
    match *rng.pick(&styles) {
        "basic" => (render_basic(rng, s), s.to_string(), "basic"),
        "literal" => (render_literal(s), s.to_string(), "literal"),
        "ml-basic" => {
            let (t, e) = render_ml_basic(rng, s, allow_crlf);
            (t, e, "ml-basic")
        }
        _ => {
            let (t, e) = render_ml_literal(rng, s, allow_crlf);
            (t, e, "ml-literal")
        }
    }
}

pub fn render_key_seg(rng: &mut Rng, name: &str) -> (String, KeyKind) {
    let bare = is_bare_key(name);
    let lit = literal_ok(name) && !name.contains('\n');
    let choice = rng.below(10);
    if bare && choice < 7 {
        (name.to_string(), KeyKind::Bare)
    } else if lit && choice < 9 && choice >= 5 || (lit && !bare && choice < 4) {
        (render_literal(name), KeyKind::Literal)
    } else {
        (render_basic(rng, name), KeyKind::Basic)
    }
}

fn with_underscores(rng: &mut Rng, digits: &str) -> String {
    if digits.len() < 2 || rng.chance(3, 5) {
        return digits.to_string();
    }
    let mut out = String::new();
    for (i, c) in digits.chars().enumerate() {
        if i > 0 && rng.chance(1, 3) {
            out.push('_');
        }
        out.push(c);
    }
    out
}

pub fn render_int(rng: &mut Rng, v: i64) -> String {
    if v >= 0 && rng.chance(1, 3) {
        let (prefix, body) = match rng.below(3) {
            0 => ("0x", hex_case(rng, format!("{v:x}"))),
            1 => ("0o", format!("{v:o}")),
            _ => ("0b", format!("{v:b}")),
        };
        let zeros = if rng.chance(1, 4) { "0".repeat(1 + rng.below(3)) } else { String::new() };
        return format!("{prefix}{}", with_underscores(rng, &format!("{zeros}{body}")));
    }
    let mag = (v as i128).unsigned_abs().to_string();
    let digits = with_underscores(rng, &mag);
    if v < 0 {
        format!("-{digits}")
    } else if v == 0 && rng.chance(1, 4) {
        "-0".to_string()
    } else if rng.chance(1, 4) {
        format!("+{digits}")
    } else {
        digits
    }
}

/// decimal digits and exponent of the shortest round-trip representation: value = 0.D × 10^E … we
/// use `{:e}`: "d.ddddde±x"
fn sci_parts(f: f64) -> (String, i32) {
    let s = format!("{:e}", f.abs());
    let (m, e) = s.split_once('e').unwrap();
    let e: i32 = e.parse().unwrap();
    let digits: String = m.chars().filter(|c| *c != '.').collect();
    // value = digits[0].digits[1..] × 10^e  = digits × 10^(e - (len-1))
    let len = digits.len() as i32;
    (digits, e - (len - 1))
}

pub fn render_float(rng: &mut Rng, bits: u64) -> String {
    let f = f64::from_bits(bits);
    let neg = bits >> 63 == 1;
    if f.is_nan() {
        return rng.pick(&["nan", "+nan", "-nan"]).to_string();
    }
    if f.is_infinite() {
        return if neg { "-inf".into() } else { rng.pick(&["inf", "+inf"]).to_string() };
    }
    let sign = if neg {
        "-"
    } else if rng.chance(1, 5) {
        "+"
    } else {
        ""
    };
    let (mut digits, mut e10) = sci_parts(f); // value = digits × 10^e10
    if f == 0.0 {
        digits = "0".into();
        e10 = 0;
    }
    // optionally append zeros (harmless)
    if rng.chance(1, 4) {
        let z = 1 + rng.below(3);
        digits.push_str(&"0".repeat(z));
        e10 -= z as i32;
    }
    // choose a spelling: positional or exponent
    let n = digits.len() as i32;
    // positional if magnitude reasonable
    let positional_ok = e10 <= 0 && -e10 <= 25 || (e10 > 0 && e10 <= 20);
    let body = if positional_ok && rng.chance(1, 2) {
        if e10 >= 0 {
            format!("{}{}.{}", with_underscores(rng, &digits), "0".repeat(e10 as usize), if rng.coin() { "0" } else { "00" })
        } else {
            let k = (-e10) as usize;
            if k < digits.len() {
                let (a, b) = digits.split_at(digits.len() - k);
                format!("{}.{}", with_underscores(rng, a), with_underscores(rng, b))
            } else {
                format!("0.{}{}", "0".repeat(k - digits.len()), with_underscores(rng, &digits))
            }
        }
    } else {
        // exponent form: place the point after p digits (1..=n), or no point at all
        let p = 1 + rng.below(n as usize);
        let (a, b) = digits.split_at(p);
        let e = e10 + (n - p as i32);
        let a = if a.len() > 1 && a.starts_with('0') { a.to_string() } else { with_underscores(rng, a) };
        let echar = if rng.chance(1, 3) { 'E' } else { 'e' };
        let esign = if e < 0 {
            "-"
        } else if rng.chance(1, 3) {
            "+"
        } else {
            ""
        };
        let epad = if rng.chance(1, 4) { "0" } else { "" };
        let mant = if b.is_empty() { a } else { format!("{a}.{}", with_underscores(rng, b)) };
        format!("{mant}{echar}{esign}{epad}{}", e.abs())
    };
    // the integer part must not have a leading zero unless it is exactly "0"
    let (ip, rest) = match body.find(|c: char| c == '.' || c == 'e' || c == 'E') {
        Some(i) => (&body[..i], &body[i..]),
        None => (&body[..], ""),
    };
    let ip_clean: String = {
        let t = ip.trim_start_matches(|c| c == '0' || c == '_');
        if t.is_empty() {
            "0".into()
        } else {
            t.to_string()
        }
    };
    format!("{sign}{ip_clean}{rest}")
}

pub fn render_datetime(rng: &mut Rng, d: &RDatetime) -> String {
    let mut s = String::new();
    if let Some(x) = &d.date {
        s.push_str(&format!("{:04}-{:02}-{:02}", x.year, x.month, x.day));
    }
    if let Some(t) = &d.time {
        if d.date.is_some() {
            s.push(*rng.pick(&['T', 't', ' ']));
        }
        s.push_str(&format!("{:02}:{:02}:{:02}", t.hour, t.minute, t.second));
        let frac = format!("{:09}", t.nanos);
        let trimmed = frac.trim_end_matches('0');
        if t.nanos != 0 || rng.chance(1, 4) {
            s.push('.');
            let mut f = if trimmed.is_empty() { "0".to_string() } else { trimmed.to_string() };
            // pad with zeros up to 9, maybe go beyond 9 digits (must be truncated, not rounded)
            if rng.chance(1, 3) {
                while f.len() < 9 {
                    f.push('0');
                }
                for _ in 0..rng.below(4) {
                    f.push(*rng.pick(&['9', '5', '0', '1']));
                }
            } else if rng.chance(1, 3) {
                let pad = rng.below(10usize.saturating_sub(f.len()).max(1));
                for _ in 0..pad {
                    if f.len() < 9 {
                        f.push('0');
                    }
                }
            }
            s.push_str(&f);
        }
    }
    match &d.offset {
        Some(ROffset::Z) => s.push(if rng.chance(1, 3) { 'z' } else { 'Z' }),
        Some(ROffset::Minutes(m)) => {
            let (sign, a) = if *m < 0 { ('-', -(*m as i32)) } else { ('+', *m as i32) };
            let sign = if *m == 0 && rng.coin() { '-' } else { sign };
            s.push_str(&format!("{sign}{:02}:{:02}", a / 60, a % 60));
        }
        None => {}
    }
    s
}

// ------------------------------------------------------------------------------------------
// documents
// ------------------------------------------------------------------------------------------

#[derive(Clone, Debug)]
pub struct GenCfg {
    /// rough number of leaf values
    pub size: i32,
    /// comments / blank lines / odd whitespace in every trivia slot
    pub trivia: bool,
    /// 0 = LF only, 1 = CRLF only, 2 = mixed
    pub newline_mode: u8,
    pub bom: bool,
    pub final_newline: bool,
    /// keys sharing a dotted prefix may be interleaved
    pub interleave: bool,
    /// every table name is spelled identically wherever it occurs
    pub stable_spelling: bool,
    /// allow raw CR LF inside multi-line strings
    pub ml_crlf: bool,
    /// reorder sections (sub before super, delayed sections)
    pub reorder: bool,
}

impl GenCfg {
    pub fn random(rng: &mut Rng) -> Self {
        GenCfg {
            size: *rng.pick(&[3, 6, 10, 20, 40]),
            trivia: rng.chance(3, 4),
            newline_mode: *rng.pick(&[0u8, 0, 0, 1, 2]),
            bom: rng.chance(1, 12),
            final_newline: rng.chance(4, 5),
            interleave: rng.chance(1, 5),
            stable_spelling: rng.chance(4, 5),
            ml_crlf: rng.chance(1, 4),
            reorder: rng.chance(1, 2),
        }
    }
    /// no BOM, no raw CR LF in strings: for checks that need one exact expected tree and no U1-c
    pub fn plain(mut self) -> Self {
        self.bom = false;
        self
    }
}

#[derive(Clone, Debug)]
pub struct GenDoc {
    pub text: String,
    /// expected tree, raw CR LF in multi-line strings kept
    pub tree: RVal,
    /// expected tree, raw CR LF in multi-line strings normalised (equal to `tree` when none)
    pub tree_nl: RVal,
    pub n_comments: usize,
    pub n_stmts: usize,
    pub features: Vec<&'static str>,
}

#[derive(Clone, Debug)]
enum Layout {
    Header,
    Implicit,
    Dotted,
}

#[derive(Clone, Debug)]
enum PNode {
    Val(RVal),
    Table(Layout, PTable),
    Aot(Vec<PTable>),
}

#[derive(Clone, Debug, Default)]
struct PTable {
    entries: Vec<(String, PNode)>,
}

impl PTable {
    fn has(&self, k: &str) -> bool {
        self.entries.iter().any(|(n, _)| n == k)
    }
}

struct Section {
    /// names from the root
    path: Vec<String>,
    array: bool,
    body: Vec<(Vec<String>, RVal)>,
    /// may be moved relative to other sections
    movable: bool,
    emit_header: bool,
}

pub struct DocGen<'r> {
    rng: &'r mut Rng,
    cfg: GenCfg,
    out: String,
    stmts: Vec<Stmt>,
    comment_id: usize,
    features: Vec<&'static str>,
    seg_memo: Vec<(Vec<String>, (String, KeyKind, String, String))>,
    header_memo: Vec<(Vec<String>, String)>,
    inline_id: usize,
}

fn dummy_seg(name: &str, kind: KeyKind) -> KeySeg {
    KeySeg { name: name.to_string(), span: (0, 0), kind, ws_before: (0, 0), ws_after: (0, 0) }
}

impl<'r> DocGen<'r> {
    pub fn new(rng: &'r mut Rng, cfg: GenCfg) -> Self {
        DocGen { rng, cfg, out: String::new(), stmts: Vec::new(), comment_id: 0, features: Vec::new(), seg_memo: Vec::new(), header_memo: Vec::new(), inline_id: 0 }
    }

    fn feat(&mut self, f: &'static str) {
        if !self.features.contains(&f) {
            self.features.push(f);
        }
    }

    // ----- plan

    fn plan_table(&mut self, budget: &mut i32, depth: usize, ctx_dotted: bool) -> PTable {
        let mut t = PTable::default();
        let n = if depth == 0 { 1 + self.rng.below(5) } else { self.rng.below(4) };
        for _ in 0..n {
            if *budget <= 0 {
                break;
            }
            let k = gen_key(self.rng);
            if t.has(&k) {
                continue;
            }
            *budget -= 1;
            let choice = self.rng.below(12);
            let node = match choice {
                0..=5 => PNode::Val(gen_value(self.rng, 0, budget)),
                6 | 7 if depth < 5 => {
                    // dotted sub-table: needs at least one value below it
                    let mut sub = self.plan_table(budget, depth + 1, true);
                    if !Self::has_value_via_dotted(&sub) {
                        let kk = self.fresh_key(&sub);
                        sub.entries.insert(0, (kk, PNode::Val(gen_scalar(self.rng))));
                    }
                    PNode::Table(Layout::Dotted, sub)
                }
                8 | 9 if depth < 5 => {
                    let sub = self.plan_table(budget, depth + 1, false);
                    PNode::Table(Layout::Header, sub)
                }
                10 if depth < 4 => {
                    // implicit: exists only through deeper headers
                    let mut sub = PTable::default();
                    let m = 1 + self.rng.below(2);
                    for _ in 0..m {
                        let kk = gen_key(self.rng);
                        if sub.has(&kk) {
                            continue;
                        }
                        let node = if self.rng.chance(1, 4) {
                            PNode::Aot(vec![self.plan_table(budget, depth + 2, false)])
                        } else {
                            PNode::Table(Layout::Header, self.plan_table(budget, depth + 2, false))
                        };
                        sub.entries.push((kk, node));
                    }
                    PNode::Table(Layout::Implicit, sub)
                }
                11 if depth < 4 => {
                    let m = 1 + self.rng.below(3);
                    PNode::Aot((0..m).map(|_| self.plan_table(budget, depth + 1, false)).collect())
                }
                _ => PNode::Val(gen_scalar(self.rng)),
            };
            let _ = ctx_dotted;
            t.entries.push((k, node));
        }
        t
    }

    fn fresh_key(&mut self, t: &PTable) -> String {
        loop {
            let k = gen_key(self.rng);
            if !t.has(&k) {
                return k;
            }
        }
    }

    fn has_sections(t: &PTable) -> bool {
        t.entries.iter().any(|(_, n)| match n {
            PNode::Val(_) => false,
            PNode::Table(Layout::Dotted, s) => Self::has_sections(s),
            _ => true,
        })
    }

    /// a dotted child that has headers below it: those headers must follow the defining section
    fn dotted_child_has_sections(t: &PTable) -> bool {
        t.entries.iter().any(|(_, n)| match n {
            PNode::Table(Layout::Dotted, s) => Self::has_sections(s),
            _ => false,
        })
    }

    fn has_value_via_dotted(t: &PTable) -> bool {
        t.entries.iter().any(|(_, n)| match n {
            PNode::Val(_) => true,
            PNode::Table(Layout::Dotted, s) => Self::has_value_via_dotted(s),
            _ => false,
        })
    }

    // ----- sections

    fn collect_body(t: &PTable, prefix: &mut Vec<String>, out: &mut Vec<(Vec<String>, RVal)>) {
        for (k, n) in &t.entries {
            match n {
                PNode::Val(v) => {
                    let mut p = prefix.clone();
                    p.push(k.clone());
                    out.push((p, v.clone()));
                }
                PNode::Table(Layout::Dotted, s) => {
                    prefix.push(k.clone());
                    Self::collect_body(s, prefix, out);
                    prefix.pop();
                }
                _ => {}
            }
        }
    }

    /// sub-sections reachable from table `t` (at absolute `path`), depth-first
    fn collect_sections(&mut self, t: &PTable, path: &mut Vec<String>, movable: bool, out: &mut Vec<Section>) {
        for (k, n) in &t.entries {
            path.push(k.clone());
            match n {
                PNode::Val(_) => {}
                PNode::Table(Layout::Dotted, s) => {
                    // headers below a dotted table must come after the section that defines it
                    self.collect_sections(s, path, false, out);
                }
                PNode::Table(Layout::Header, s) => {
                    let mut body = Vec::new();
                    Self::collect_body(s, &mut Vec::new(), &mut body);
                    let post = movable && self.cfg.reorder && !Self::dotted_child_has_sections(s) && self.rng.chance(1, 4);
                    let at = out.len();
                    if !post {
                        out.push(Section { path: path.clone(), array: false, body, movable, emit_header: true });
                        self.collect_sections(s, path, movable, out);
                    } else {
                        // super-table after its sub-tables
                        self.collect_sections(s, path, movable, out);
                        if out.len() > at {
                            self.feat("super-after-sub");
                        }
                        out.push(Section { path: path.clone(), array: false, body, movable, emit_header: true });
                    }
                }
                PNode::Table(Layout::Implicit, s) => {
                    self.collect_sections(s, path, movable, out);
                }
                PNode::Aot(elems) => {
                    for e in elems {
                        let mut body = Vec::new();
                        Self::collect_body(e, &mut Vec::new(), &mut body);
                        out.push(Section { path: path.clone(), array: true, body, movable: false, emit_header: true });
                        // everything below an element stays right behind its header
                        self.collect_sections(e, path, false, out);
                    }
                }
            }
            path.pop();
        }
    }

    // ----- emission helpers

    fn nl(&mut self) {
        let crlf = match self.cfg.newline_mode {
            0 => false,
            1 => true,
            _ => self.rng.coin(),
        };
        self.out.push_str(if crlf { "\r\n" } else { "\n" });
    }

    fn ws(&mut self, likely: bool) -> String {
        if !self.cfg.trivia {
            return if likely { " ".into() } else { String::new() };
        }
        match self.rng.below(8) {
            0 => String::new(),
            1 => "\t".into(),
            2 => "  ".into(),
            3 => " \t ".into(),
            _ => {
                if likely {
                    " ".into()
                } else {
                    String::new()
                }
            }
        }
    }

    fn comment_text(&mut self) -> String {
        self.comment_id += 1;
        let extra = match self.rng.below(6) {
            0 => " é😀",
            1 => "\t tab",
            2 => " # nested ## hashes",
            3 => " \"quotes\" 'and' = [x]",
            4 => "",
            _ => " plain",
        };
        format!("#c{}{}", self.comment_id, extra)
    }

    /// blank lines and comment lines before a statement
    fn leading_trivia(&mut self) {
        if !self.cfg.trivia {
            return;
        }
        let n = match self.rng.below(6) {
            0 | 1 | 2 => 0,
            3 => 1,
            _ => 1 + self.rng.below(3),
        };
        for _ in 0..n {
            let w = self.ws(false);
            self.out.push_str(&w);
            if self.rng.coin() {
                let c = self.comment_text();
                self.out.push_str(&c);
                self.feat("comment-line");
            } else {
                self.feat("blank-line");
            }
            self.nl();
        }
    }

    fn eol(&mut self) {
        // optional whitespace + end-of-line comment, then newline
        if self.cfg.trivia {
            let w = self.ws(false);
            self.out.push_str(&w);
            if self.rng.chance(1, 4) {
                let c = self.comment_text();
                self.out.push_str(&c);
                self.feat("eol-comment");
            }
        }
        self.nl();
    }

    /// render a table-name segment at absolute path `abs` (memoised when spelling must be stable)
    fn table_seg(&mut self, abs: &[String]) -> (String, KeyKind, String, String) {
        if self.cfg.stable_spelling {
            if let Some((_, v)) = self.seg_memo.iter().find(|(p, _)| p == abs) {
                return v.clone();
            }
        }
        let name = abs.last().unwrap();
        let (raw, kind) = render_key_seg(self.rng, name);
        // with stable spelling, table names carry no whitespace of their own (see C03)
        let (wb, wa) = if !self.cfg.stable_spelling && self.cfg.trivia && self.rng.chance(1, 4) { (self.ws(false), self.ws(false)) } else { (String::new(), String::new()) };
        let v = (raw, kind, wb, wa);
        if self.cfg.stable_spelling {
            self.seg_memo.push((abs.to_vec(), v.clone()));
        }
        v
    }

    /// key path text for a key/value under section `base` (absolute) with relative `rel` path
    fn render_kv_key(&mut self, base: &[String], rel: &[String]) -> (String, Vec<KeySeg>) {
        let mut text = String::new();
        let mut segs = Vec::new();
        let mut abs = base.to_vec();
        for (i, name) in rel.iter().enumerate() {
            abs.push(name.clone());
            let last = i + 1 == rel.len();
            if i > 0 {
                text.push('.');
            }
            if last {
                let (raw, kind) = render_key_seg(self.rng, name);
                let wb = if i > 0 { self.ws(false) } else { String::new() };
                text.push_str(&wb);
                text.push_str(&raw);
                segs.push(dummy_seg(name, kind));
            } else {
                let (raw, kind, wb, wa) = self.table_seg(&abs);
                text.push_str(&wb);
                text.push_str(&raw);
                text.push_str(&wa);
                segs.push(dummy_seg(name, kind));
            }
        }
        if rel.len() > 1 {
            self.feat("dotted-key");
        }
        (text, segs)
    }

    fn render_value(&mut self, v: &RVal, depth: usize) -> (String, PVal) {
        match v {
            RVal::Str(s) => {
                let (t, e, style) = render_string(self.rng, s, self.cfg.ml_crlf);
                self.feat(match style {
                    "basic" => "str-basic",
                    "literal" => "str-literal",
                    "ml-basic" => "str-ml-basic",
                    _ => "str-ml-literal",
                });
                (t, PVal { kind: PKind::Scalar(RVal::Str(e)), span: (0, 0) })
            }
            RVal::Int(i) => (render_int(self.rng, *i), PVal { kind: PKind::Scalar(v.clone()), span: (0, 0) }),
            RVal::Float(b) => (render_float(self.rng, *b), PVal { kind: PKind::Scalar(v.clone()), span: (0, 0) }),
            RVal::Bool(b) => (b.to_string(), PVal { kind: PKind::Scalar(v.clone()), span: (0, 0) }),
            RVal::Dt(d) => (render_datetime(self.rng, d), PVal { kind: PKind::Scalar(v.clone()), span: (0, 0) }),
            RVal::Array(a) => {
                let mut t = String::from("[");
                let mut vals = Vec::new();
                let multiline = self.cfg.trivia && self.rng.chance(1, 3);
                for (i, x) in a.iter().enumerate() {
                    self.array_gap(&mut t, multiline);
                    let (xt, xv) = self.render_value(x, depth + 1);
                    t.push_str(&xt);
                    vals.push(xv);
                    let g = multiline && self.rng.chance(1, 3);
                    self.array_gap(&mut t, g);
                    if i + 1 < a.len() {
                        t.push(',');
                    } else if self.rng.chance(1, 4) {
                        t.push(',');
                        self.feat("array-trailing-comma");
                    }
                }
                self.array_gap(&mut t, multiline);
                t.push(']');
                (t, PVal { kind: PKind::Array(vals), span: (0, 0) })
            }
            RVal::Table(tb) => {
                // inline table; sub-tables may be spelled with dotted keys
                let mut pairs: Vec<(Vec<String>, &RVal)> = Vec::new();
                fn flatten<'a>(rng: &mut Rng, t: &'a RTable, prefix: &mut Vec<String>, out: &mut Vec<(Vec<String>, &'a RVal)>, top: bool) {
                    for (k, v) in &t.entries {
                        prefix.push(k.clone());
                        match v {
                            RVal::Table(s) if !s.entries.is_empty() && rng.chance(1, 3) => flatten(rng, s, prefix, out, false),
                            _ => out.push((prefix.clone(), v)),
                        }
                        prefix.pop();
                    }
                    let _ = top;
                }
                flatten(self.rng, tb, &mut Vec::new(), &mut pairs, true);
                let mut t = String::from("{");
                let mut ppairs = Vec::new();
                self.inline_id += 1;
                let marker = format!("\u{0}inline{}", self.inline_id);
                for (i, (path, x)) in pairs.iter().enumerate() {
                    if path.len() == 1 {
                        let w = self.ws(true);
                        t.push_str(&w);
                    }
                    let mut segs = Vec::new();
                    let mut abs = vec![marker.clone()];
                    for (j, name) in path.iter().enumerate() {
                        abs.push(name.clone());
                        if j > 0 {
                            t.push('.');
                            self.feat("inline-dotted-key");
                        }
                        if j + 1 < path.len() {
                            let (raw, kind, wb, wa) = self.table_seg(&abs);
                            t.push_str(&wb);
                            t.push_str(&raw);
                            t.push_str(&wa);
                            segs.push(dummy_seg(name, kind));
                        } else {
                            if j > 0 {
                                let w = self.ws(false);
                                t.push_str(&w);
                            }
                            let (raw, kind) = render_key_seg(self.rng, name);
                            t.push_str(&raw);
                            segs.push(dummy_seg(name, kind));
                        }
                    }
                    let w = self.ws(true);
                    t.push_str(&w);
                    t.push('=');
                    let w = self.ws(true);
                    t.push_str(&w);
                    let (xt, xv) = self.render_value(x, depth + 1);
                    t.push_str(&xt);
                    ppairs.push((segs, xv));
                    if i + 1 < pairs.len() {
                        let w = self.ws(false);
                        t.push_str(&w);
                        t.push(',');
                    }
                }
                let w = self.ws(!pairs.is_empty());
                t.push_str(&w);
                t.push('}');
                self.feat("inline-table");
                (t, PVal { kind: PKind::Inline(ppairs), span: (0, 0) })
            }
        }
    }

    /// text of one value in a random spelling
    pub fn render_value_public(&mut self, v: &RVal) -> String {
        self.render_value(v, 0).0
    }

    fn array_gap(&mut self, t: &mut String, multiline: bool) {
        let w = self.ws(false);
        t.push_str(&w);
        if multiline {
            let n = 1 + self.rng.below(2);
            for _ in 0..n {
                if self.rng.chance(1, 3) {
                    let c = self.comment_text();
                    t.push_str(&c);
                    self.feat("array-comment");
                }
                let crlf = match self.cfg.newline_mode {
                    0 => false,
                    1 => true,
                    _ => self.rng.coin(),
                };
                t.push_str(if crlf { "\r\n" } else { "\n" });
                let w = self.ws(true);
                t.push_str(&w);
            }
        }
    }

    fn emit_keyval(&mut self, base: &[String], rel: &[String], v: &RVal) {
        self.leading_trivia();
        if rel.len() == 1 {
            let w = self.ws(false);
            self.out.push_str(&w);
        }
        let (kt, segs) = self.render_kv_key(base, rel);
        self.out.push_str(&kt);
        let w = self.ws(true);
        self.out.push_str(&w);
        self.out.push('=');
        let w = self.ws(true);
        self.out.push_str(&w);
        let (vt, pv) = self.render_value(v, 0);
        self.out.push_str(&vt);
        self.stmts.push(Stmt::KeyVal { path: segs, val: pv, span: (0, 0) });
    }

    fn emit_header(&mut self, path: &[String], array: bool) {
        self.leading_trivia();
        let w = self.ws(false);
        self.out.push_str(&w);
        let mut segs = Vec::new();
        let memo = if self.cfg.stable_spelling && array { self.header_memo.iter().find(|(p, _)| p == path).map(|(_, t)| t.clone()) } else { None };
        let mut text = String::new();
        for (i, name) in path.iter().enumerate() {
            let (raw, kind, wb, wa) = self.table_seg(&path[..=i]);
            if i > 0 {
                text.push('.');
            }
            text.push_str(&wb);
            text.push_str(&raw);
            text.push_str(&wa);
            segs.push(dummy_seg(name, kind));
        }
        if self.cfg.stable_spelling && self.cfg.trivia && self.rng.chance(1, 4) {
            // whitespace inside the brackets belongs to the last key of the path
            let (a, b) = (self.ws(true), self.ws(true));
            text = format!("{a}{text}{b}");
        }
        let text = match memo {
            Some(t) => t,
            None => {
                if self.cfg.stable_spelling && array {
                    self.header_memo.push((path.to_vec(), text.clone()));
                }
                text
            }
        };
        if array {
            self.out.push_str("[[");
            self.out.push_str(&text);
            self.out.push_str("]]");
            self.feat("aot-header");
        } else {
            self.out.push('[');
            self.out.push_str(&text);
            self.out.push(']');
            self.feat("std-header");
        }
        self.stmts.push(Stmt::Header { path: segs, array, span: (0, 0) });
    }

    fn emit_body(&mut self, base: &[String], body: &[(Vec<String>, RVal)]) {
        let mut order: Vec<usize> = (0..body.len()).collect();
        if self.cfg.interleave && body.len() > 2 {
            self.rng.shuffle(&mut order);
            self.feat("interleaved-body");
        }
        for i in order {
            let (rel, v) = &body[i];
            self.emit_keyval(base, rel, v);
            self.eol_or_end(false);
        }
    }

    fn eol_or_end(&mut self, _last: bool) {
        self.eol();
    }

    pub fn generate(mut self) -> GenDoc {
        let mut budget = self.cfg.size;
        let plan = self.plan_table(&mut budget, 0, false);
        if self.cfg.bom {
            self.out.push('\u{feff}');
            self.feat("bom");
        }
        let mut root_body = Vec::new();
        Self::collect_body(&plan, &mut Vec::new(), &mut root_body);
        let mut sections = Vec::new();
        self.collect_sections(&plan, &mut Vec::new(), true, &mut sections);
        // delayed sections: move a movable section to a later slot (never across array elements'
        // own sub-sections, which are not movable and keep their relative order)
        if self.cfg.reorder && sections.len() > 2 && self.rng.chance(1, 2) {
            for _ in 0..1 + self.rng.below(2) {
                let i = self.rng.below(sections.len());
                if sections[i].movable {
                    // only move across other movable sections so array-element blocks stay intact
                    let mut j = i;
                    let steps = 1 + self.rng.below(3);
                    for _ in 0..steps {
                        if j + 1 < sections.len() && sections[j + 1].movable {
                            sections.swap(j, j + 1);
                            j += 1;
                        }
                    }
                    if j != i {
                        self.feat("delayed-section");
                    }
                }
            }
        }
        self.emit_body(&[], &root_body);
        for s in &sections {
            if s.emit_header {
                self.emit_header(&s.path, s.array);
                self.eol();
            }
            let body = s.body.clone();
            self.emit_body(&s.path, &body);
        }
        // trailing trivia
        if self.cfg.trivia && self.rng.chance(1, 3) {
            let w = self.ws(false);
            self.out.push_str(&w);
            if self.rng.coin() {
                let c = self.comment_text();
                self.out.push_str(&c);
                self.feat("trailing-comment");
            }
            if self.rng.coin() {
                self.nl();
            }
        }
        if !self.cfg.final_newline {
            // drop the final line end, if the text ends with one
            if self.out.ends_with("\r\n") {
                self.out.truncate(self.out.len() - 2);
                self.feat("no-final-newline");
            } else if self.out.ends_with('\n') {
                self.out.truncate(self.out.len() - 1);
                self.feat("no-final-newline");
            }
        }
        let (tree, _, _) = run_model(&self.stmts, Reading::Strict);
        let tree = tree.unwrap_or_else(|e| panic!("generator produced statements its own model refuses: {e}\n{}", self.out));
        let keep = replace_sentinel(&tree, "\r\n");
        let norm = replace_sentinel(&tree, "\n");
        GenDoc { text: self.out, tree: keep, tree_nl: norm, n_comments: self.comment_id, n_stmts: self.stmts.len(), features: self.features }
    }
}

fn replace_sentinel(v: &RVal, with: &str) -> RVal {
    match v {
        RVal::Str(s) if s.contains(CRLF_SENTINEL) => RVal::Str(s.replace(CRLF_SENTINEL, with)),
        RVal::Array(a) => RVal::Array(a.iter().map(|x| replace_sentinel(x, with)).collect()),
        RVal::Table(t) => RVal::Table(RTable { entries: t.entries.iter().map(|(k, x)| (k.clone(), replace_sentinel(x, with))).collect(), alt: t.alt.clone(), dotted: t.dotted }),
        x => x.clone(),
    }
}

pub fn gen_doc(rng: &mut Rng, cfg: GenCfg) -> GenDoc {
    DocGen::new(rng, cfg).generate()
}

// ------------------------------------------------------------------------------------------
// mutators
// ------------------------------------------------------------------------------------------

pub const NEAR_MISS: &[&str] = &[
    "01", "1__0", "0x", "+0x1", "24:00:00", "02-30", "\\uD800", "\"\"\"\" \"\"\"\"", "[[a] ]", "{a=1,}", "1979-02-30", "2000-13-01", "1e", "1.", ".5", "0b2", "0o8",
    "0xg", "+-1", "nan_", "inf.0", "\"\\x\"", "'''''''", "\r", "\u{7f}", "\0", "{\n}", "[,]", "a..b", ".a", "a.", "= 1", "[]", "[[]]", "[a]]", "[[a]", "true1", "False",
    "1979-05-27T", "07:32", "07:32:00+01:00", "1979-05-27 07:32:00 Z", "+00:60", "Z", "T", "0_1", "_", "__", "1_", "\\", "\\u00", "\\U0011FFFF", "\\UFFFFFFFF", "é",
    "\u{feff}", "\"", "'", "\"\"\"", "'''", "#", "\n", "\r\n", "=", ".", ",", "[", "]", "{", "}", "[[", "]]", "+", "-", "e", "E", ":", "t", "z", "inf", "nan", "true", "false",
    "9223372036854775808", "-9223372036854775809", "0x8000000000000000", "1e309", "-1e309", "1e999", "00", "-0", "+0", "0.0", "1979-05-27T07:32:00.999999999999Z",
    "1979-05-27T07:32:60Z", "1979-05-27T07:60:00Z", "2021-02-29", "2020-02-29", "1900-02-29", "2000-02-29", "00:00:00", "23:59:60", "\\b", "\\e", "\\ ", "\\\n", "a.b.c",
    "\"a\".'b'", "[a.b]", "[[a.b]]", "a = 1", "a.b = 1", "a = {b = 1}", "a = []", "\t", " ", "  ",
];

fn tokenize(b: &[u8]) -> Vec<(usize, usize)> {
    let mut toks = Vec::new();
    let mut i = 0;
    while i < b.len() {
        let st = i;
        let c = b[i];
        if c.is_ascii_alphanumeric() || matches!(c, b'_' | b'-' | b'+' | b':' | b'.') || c >= 0x80 {
            while i < b.len() && (b[i].is_ascii_alphanumeric() || matches!(b[i], b'_' | b'-' | b'+' | b':' | b'.') || b[i] >= 0x80) {
                i += 1;
            }
        } else if c == b' ' || c == b'\t' {
            while i < b.len() && (b[i] == b' ' || b[i] == b'\t') {
                i += 1;
            }
        } else {
            i += 1;
        }
        toks.push((st, i));
    }
    toks
}

/// One random mutation of `text`. `other` is a second document for splicing.
pub fn mutate(rng: &mut Rng, text: &[u8], other: &[u8]) -> Vec<u8> {
    let mut out = text.to_vec();
    let len = out.len();
    let pos = |rng: &mut Rng, n: usize| if n == 0 { 0 } else { rng.below(n + 1) };
    match rng.below(14) {
        0 if len > 0 => {
            let i = rng.below(len);
            out[i] ^= 1 << rng.below(8);
        }
        1 if len > 0 => {
            let i = rng.below(len);
            out[i] = *rng.pick(&[0u8, 9, 10, 13, 32, 34, 35, 39, 44, 46, 61, 91, 92, 93, 123, 125, 127, 128, 0xC0, 0xE2, 0xED, 0xF4, 0xFF, b'0', b'_', b'e']);
        }
        2 => {
            let i = pos(rng, len);
            let tok = rng.pick(NEAR_MISS).as_bytes();
            out.splice(i..i, tok.iter().copied());
        }
        3 if len > 0 => {
            let i = rng.below(len);
            let n = 1 + rng.below(4.min(len - i));
            out.drain(i..i + n);
        }
        4 if len > 0 => {
            let i = rng.below(len);
            let n = 1 + rng.below(12.min(len - i));
            let seg: Vec<u8> = out[i..i + n].to_vec();
            out.splice(i..i, seg);
        }
        5 if len > 0 => {
            out.truncate(rng.below(len));
        }
        6 if !other.is_empty() => {
            let i = pos(rng, len);
            let j = rng.below(other.len());
            out.truncate(i);
            out.extend_from_slice(&other[j..]);
        }
        7 | 8 | 9 => {
            // token level: drop / duplicate / swap / replace by near miss
            let toks = tokenize(&out);
            if toks.len() >= 2 {
                let a = rng.below(toks.len());
                match rng.below(4) {
                    0 => {
                        out.drain(toks[a].0..toks[a].1);
                    }
                    1 => {
                        let seg: Vec<u8> = out[toks[a].0..toks[a].1].to_vec();
                        out.splice(toks[a].1..toks[a].1, seg);
                    }
                    2 => {
                        let b2 = rng.below(toks.len());
                        let (x, y) = if a <= b2 { (a, b2) } else { (b2, a) };
                        if x != y {
                            let sx: Vec<u8> = out[toks[x].0..toks[x].1].to_vec();
                            let sy: Vec<u8> = out[toks[y].0..toks[y].1].to_vec();
                            let mut n = Vec::with_capacity(out.len());
                            n.extend_from_slice(&out[..toks[x].0]);
                            n.extend_from_slice(&sy);
                            n.extend_from_slice(&out[toks[x].1..toks[y].0]);
                            n.extend_from_slice(&sx);
                            n.extend_from_slice(&out[toks[y].1..]);
                            out = n;
                        }
                    }
                    _ => {
                        let tok = rng.pick(NEAR_MISS).as_bytes().to_vec();
                        out.splice(toks[a].0..toks[a].1, tok);
                    }
                }
            }
        }
        10 if len > 0 => {
            // move a line
            let lines: Vec<&[u8]> = text.split(|c| *c == b'\n').collect();
            if lines.len() >= 2 {
                let a = rng.below(lines.len());
                let b2 = rng.below(lines.len());
                let mut l: Vec<&[u8]> = lines.clone();
                let x = l.remove(a);
                l.insert(b2.min(l.len()), x);
                out = l.join(&b'\n');
            }
        }
        11 if len > 0 => {
            // duplicate a line (duplicate keys / headers)
            let lines: Vec<&[u8]> = text.split(|c| *c == b'\n').collect();
            let a = rng.below(lines.len());
            let b2 = rng.below(lines.len() + 1);
            let mut l: Vec<&[u8]> = lines.clone();
            l.insert(b2, lines[a]);
            out = l.join(&b'\n');
        }
        12 => {
            // invalid UTF-8 injection
            let i = pos(rng, len);
            let bad: &[&[u8]] = &[&[0x80], &[0xC0, 0x80], &[0xC1, 0xBF], &[0xE0, 0x80, 0x80], &[0xED, 0xA0, 0x80], &[0xED, 0xBF, 0xBF], &[0xF4, 0x90, 0x80, 0x80], &[0xF5], &[0xFF], &[0xE2, 0x82], &[0xF0, 0x9F, 0x98], &[0xC3]];
            out.splice(i..i, rng.pick(bad).iter().copied());
        }
        _ => {
            // change line endings of one line
            if let Some(i) = out.iter().position(|c| *c == b'\n') {
                if rng.coin() {
                    out.insert(i, b'\r');
                } else {
                    out[i] = b'\r';
                }
            }
        }
    }
    out
}

#[cfg(test)]
mod tests {
    use super::*;
    use crate::decode::{decode, Verdict};

    #[test]
    fn generated_documents_are_valid_for_r_and_decode_to_the_constructive_tree() {
        let mut feats = std::collections::BTreeSet::new();
        for seed in 0..4000u64 {
            let mut rng = Rng::new(seed);
            let cfg = GenCfg::random(&mut rng);
            let d = gen_doc(&mut rng, cfg.clone());
            for f in &d.features {
                feats.insert(*f);
            }
            let r = decode(&d.text);
            match &r.verdict {
                Verdict::Valid | Verdict::Undecided(crate::decode::U1::C) => {}
                v => panic!("seed {seed}: generated document judged {v:?}\n---\n{}\n---", d.text),
            }
            let t = r.tree.as_ref().unwrap();
            if let Some(diff) = d.tree.diff(t, KeyOrder::Exact) {
                panic!("seed {seed}: constructive tree differs from R: {diff}\n---\n{}\n---", d.text);
            }
            if let Some(tn) = &r.tree_nl {
                if let Some(diff) = d.tree_nl.diff(tn, KeyOrder::Exact) {
                    panic!("seed {seed}: normalised tree differs: {diff}\n---\n{}\n---", d.text);
                }
            }
        }
        eprintln!("features: {feats:?}");
    }
}
