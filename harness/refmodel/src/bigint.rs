//! Minimal unsigned big integer: enough for exact decimal -> binary comparisons.

use std::cmp::Ordering;

#[derive(Clone, Debug, PartialEq, Eq)]
pub struct BigUint {
    // little endian base 2^32 limbs, no trailing zeros
    d: Vec<u32>,
}

impl BigUint {
    pub fn zero() -> Self {
        BigUint { d: Vec::new() }
    }
    pub fn from_u64(x: u64) -> Self {
        let mut b = BigUint { d: vec![x as u32, (x >> 32) as u32] };
        b.trim();
        b
    }
    pub fn from_u128(x: u128) -> Self {
        let mut b = BigUint {
            d: vec![x as u32, (x >> 32) as u32, (x >> 64) as u32, (x >> 96) as u32],
        };
        b.trim();
        b
    }
    pub fn is_zero(&self) -> bool {
        self.d.is_empty()
    }
    fn trim(&mut self) {
        while let Some(&0) = self.d.last() {
            self.d.pop();
        }
    }
    pub fn from_decimal(digits: &str) -> Self {
        let mut b = BigUint::zero();
        // chunks of 9 digits
        let bytes = digits.as_bytes();
        let mut i = 0;
        while i < bytes.len() {
            let n = (bytes.len() - i).min(9);
            let mut chunk: u32 = 0;
            for &c in &bytes[i..i + n] {
                debug_assert!(c.is_ascii_digit());
                chunk = chunk * 10 + (c - b'0') as u32;
            }
            b.mul_small(10u32.pow(n as u32));
            b.add_small(chunk);
            i += n;
        }
        b
    }
    pub fn mul_small(&mut self, m: u32) {
        if m == 0 {
            self.d.clear();
            return;
        }
        let mut carry: u64 = 0;
        for limb in self.d.iter_mut() {
            let v = *limb as u64 * m as u64 + carry;
            *limb = v as u32;
            carry = v >> 32;
        }
        if carry > 0 {
            self.d.push(carry as u32);
        }
    }
    pub fn add_small(&mut self, a: u32) {
        let mut carry = a as u64;
        for limb in self.d.iter_mut() {
            if carry == 0 {
                break;
            }
            let v = *limb as u64 + carry;
            *limb = v as u32;
            carry = v >> 32;
        }
        if carry > 0 {
            self.d.push(carry as u32);
        }
    }
    pub fn mul(&self, o: &BigUint) -> BigUint {
        if self.is_zero() || o.is_zero() {
            return BigUint::zero();
        }
        let mut r = vec![0u32; self.d.len() + o.d.len()];
        for (i, &a) in self.d.iter().enumerate() {
            let mut carry: u64 = 0;
            for (j, &b) in o.d.iter().enumerate() {
                let v = r[i + j] as u64 + a as u64 * b as u64 + carry;
                r[i + j] = v as u32;
                carry = v >> 32;
            }
            let mut k = i + o.d.len();
            while carry > 0 {
                let v = r[k] as u64 + carry;
                r[k] = v as u32;
                carry = v >> 32;
                k += 1;
            }
        }
        let mut b = BigUint { d: r };
        b.trim();
        b
    }
    pub fn shl(&self, bits: u32) -> BigUint {
        if self.is_zero() {
            return BigUint::zero();
        }
        let limbs = (bits / 32) as usize;
        let sh = bits % 32;
        let mut r = vec![0u32; limbs];
        if sh == 0 {
            r.extend_from_slice(&self.d);
        } else {
            let mut carry = 0u32;
            for &x in &self.d {
                r.push((x << sh) | carry);
                carry = x >> (32 - sh);
            }
            if carry > 0 {
                r.push(carry);
            }
        }
        let mut b = BigUint { d: r };
        b.trim();
        b
    }
    pub fn pow10(e: u32) -> BigUint {
        let mut b = BigUint::from_u64(1);
        let mut rem = e;
        while rem >= 9 {
            b.mul_small(1_000_000_000);
            rem -= 9;
        }
        if rem > 0 {
            b.mul_small(10u32.pow(rem));
        }
        b
    }
    pub fn bits(&self) -> u64 {
        match self.d.last() {
            None => 0,
            Some(&top) => (self.d.len() as u64 - 1) * 32 + (32 - top.leading_zeros() as u64),
        }
    }
    /// divide in place by a small number, returning the remainder
    pub fn div_small(&mut self, m: u32) -> u32 {
        let mut rem: u64 = 0;
        for limb in self.d.iter_mut().rev() {
            let cur = (rem << 32) | *limb as u64;
            *limb = (cur / m as u64) as u32;
            rem = cur % m as u64;
        }
        self.trim();
        rem as u32
    }
    pub fn to_decimal(&self) -> String {
        if self.is_zero() {
            return "0".into();
        }
        let mut t = self.clone();
        let mut chunks = Vec::new();
        while !t.is_zero() {
            chunks.push(t.div_small(1_000_000_000));
        }
        let mut s = format!("{}", chunks.pop().unwrap());
        while let Some(c) = chunks.pop() {
            s.push_str(&format!("{c:09}"));
        }
        s
    }
    pub fn pow5(e: u32) -> BigUint {
        let mut b = BigUint::from_u64(1);
        let mut rem = e;
        while rem >= 13 {
            b.mul_small(1_220_703_125);
            rem -= 13;
        }
        if rem > 0 {
            b.mul_small(5u32.pow(rem));
        }
        b
    }
    pub fn to_u128(&self) -> Option<u128> {
        if self.d.len() > 4 {
            return None;
        }
        let mut v: u128 = 0;
        for (i, &x) in self.d.iter().enumerate() {
            v |= (x as u128) << (32 * i);
        }
        Some(v)
    }
}

impl PartialOrd for BigUint {
    fn partial_cmp(&self, o: &Self) -> Option<Ordering> {
        Some(self.cmp(o))
    }
}
impl Ord for BigUint {
    fn cmp(&self, o: &Self) -> Ordering {
        if self.d.len() != o.d.len() {
            return self.d.len().cmp(&o.d.len());
        }
        for i in (0..self.d.len()).rev() {
            if self.d[i] != o.d[i] {
                return self.d[i].cmp(&o.d[i]);
            }
        }
        Ordering::Equal
    }
}

/// Result of exact decimal -> f64 conversion.
#[derive(Clone, Copy, Debug, PartialEq)]
pub enum ExactF64 {
    Finite(u64), // bit pattern of the non-negative correctly rounded value
    Overflow,    // correctly rounded value is +infinity
}

/// Correctly rounded (nearest, ties-to-even) f64 for the non-negative decimal
/// `digits × 10^exp10`, where `digits` is an ASCII digit string (may have leading zeros).
/// Pure big-integer arithmetic: binary search over the (monotone) bit patterns, each step an exact
/// comparison of the decimal with a binary rational. Never calls `str::parse::<f64>`.
pub fn decimal_to_f64(digits: &str, exp10: i64) -> ExactF64 {
    let t = digits.trim_start_matches('0');
    if t.is_empty() {
        return ExactF64::Finite(0);
    }
    let t2 = t.trim_end_matches('0');
    let exp10 = exp10 + (t.len() - t2.len()) as i64;
    let ndig = t2.len() as i64;
    // 10^(ndig-1+exp10) <= v < 10^(ndig+exp10)
    if ndig - 1 + exp10 >= 310 {
        return ExactF64::Overflow;
    }
    if ndig + exp10 <= -326 {
        return ExactF64::Finite(0);
    }
    let d = BigUint::from_decimal(t2);
    let (lhs0, r10) = if exp10 >= 0 {
        (d.mul(&BigUint::pow10(exp10 as u32)), BigUint::from_u64(1))
    } else {
        (d, BigUint::pow10((-exp10) as u32))
    };
    // compare v with m * 2^e
    let cmp = |m: u128, e: i64| -> Ordering {
        let mb = BigUint::from_u128(m).mul(&r10);
        if e >= 0 {
            lhs0.cmp(&mb.shl(e as u32))
        } else {
            lhs0.shl((-e) as u32).cmp(&mb)
        }
    };
    fn decode(bits: u64) -> (u64, i64) {
        let exp = (bits >> 52) & 0x7FF;
        let frac = bits & ((1u64 << 52) - 1);
        if exp == 0 {
            (frac, -1074)
        } else {
            (frac | (1u64 << 52), exp as i64 - 1075)
        }
    }
    const INF: u64 = 0x7FF0_0000_0000_0000;
    // largest pattern lo in 0..INF with value(lo) <= v ; value(INF) is taken as 2^1024.
    let (mut lo, mut hi) = (0u64, INF); // invariant: value(lo) <= v < value(hi) or v >= 2^1024
    if cmp(1, 1024) != Ordering::Less {
        return ExactF64::Overflow;
    }
    while hi - lo > 1 {
        let mid = lo + (hi - lo) / 2;
        let (m, e) = decode(mid);
        if cmp(m as u128, e) == Ordering::Less {
            hi = mid;
        } else {
            lo = mid;
        }
    }
    // v in [value(lo), value(lo+1)); midpoint = (2m+1) * 2^(e-1)
    let (m, e) = decode(lo);
    let up = match cmp(2 * m as u128 + 1, e - 1) {
        Ordering::Greater => true,
        Ordering::Less => false,
        Ordering::Equal => lo & 1 == 1,
    };
    let c = if up { lo + 1 } else { lo };
    if c >= INF {
        ExactF64::Overflow
    } else {
        ExactF64::Finite(c)
    }
}

/// Exact decimal expansion of `m × 2^e` as (digits, exp10): value = digits × 10^exp10.
pub fn binary_to_decimal(m: u128, e: i64) -> (String, i64) {
    if m == 0 {
        return ("0".into(), 0);
    }
    let b = BigUint::from_u128(m);
    if e >= 0 {
        (b.shl(e as u32).to_decimal(), 0)
    } else {
        // m / 2^k = m × 5^k / 10^k
        let k = (-e) as u32;
        (b.mul(&BigUint::pow5(k)).to_decimal(), -(k as i64))
    }
}

/// (mantissa, exponent) with value = mantissa × 2^exponent for a finite non-negative pattern
pub fn decode_f64_bits(bits: u64) -> (u64, i64) {
    let exp = (bits >> 52) & 0x7FF;
    let frac = bits & ((1u64 << 52) - 1);
    if exp == 0 {
        (frac, -1074)
    } else {
        (frac | (1u64 << 52), exp as i64 - 1075)
    }
}

#[cfg(test)]
mod tests {
    use super::*;
    #[test]
    fn basics() {
        let check = |s: &str, e: i64| {
            let txt = format!("{s}e{e}");
            let std: f64 = txt.parse().unwrap();
            let r = decimal_to_f64(s, e);
            if std.is_infinite() {
                assert_eq!(r, ExactF64::Overflow, "{txt}");
            } else {
                assert_eq!(r, ExactF64::Finite(std.to_bits()), "{txt}");
            }
        };
        check("1", 0);
        check("15", -1);
        check("17976931348623157", 292);
        check("17976931348623158", 292);
        check("17976931348623159", 292);
        check("1797693134862315807937", 287);
        check("4940656458412465441765687928682213723651", -363);
        check("2470328229206232720882843964341106861825", -363);
        check("2470328229206232720882843964341106861826", -363);
        check("9007199254740993", 0);
        check("9007199254740992", 0);
        check("1", 23);
        check("1", 22);
        check("85", -1);
        check("22250738585072011", -324);
        check("1", 400);
        check("1", -400);
        // exact expansion round trip
        for x in [1.0f64, 0.1, 5e-324, f64::MAX, 123456.789e100, 2.2250738585072014e-308] {
            let (m, e) = decode_f64_bits(x.to_bits());
            let (d, e10) = binary_to_decimal(m as u128, e);
            assert_eq!(decimal_to_f64(&d, e10), ExactF64::Finite(x.to_bits()));
        }
    }
}
