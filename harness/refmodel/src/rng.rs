//! SplitMix64-seeded xoshiro256** PRNG; no external crates.

#[derive(Clone, Debug)]
pub struct Rng {
    s: [u64; 4],
}

pub fn splitmix(x: &mut u64) -> u64 {
    *x = x.wrapping_add(0x9E37_79B9_7F4A_7C15);
    let mut z = *x;
    z = (z ^ (z >> 30)).wrapping_mul(0xBF58_476D_1CE4_E5B9);
    z = (z ^ (z >> 27)).wrapping_mul(0x94D0_49BB_1331_11EB);
    z ^ (z >> 31)
}

/// Mix several integers into one seed (used to derive per-case streams).
pub fn mix(parts: &[u64]) -> u64 {
    let mut h: u64 = 0x243F_6A88_85A3_08D3;
    for &p in parts {
        h ^= p;
        let mut t = h;
        h = splitmix(&mut t) ^ t.rotate_left(17);
    }
    h
}

pub fn hash_bytes(b: &[u8]) -> u64 {
    // FNV-1a 64 followed by a finalizer
    let mut h: u64 = 0xcbf2_9ce4_8422_2325;
    for &x in b {
        h ^= x as u64;
        h = h.wrapping_mul(0x0000_0100_0000_01B3);
    }
    let mut t = h;
    splitmix(&mut t)
}

pub fn hash_str_id(s: &str) -> u64 {
    hash_bytes(s.as_bytes())
}

impl Rng {
    pub fn new(seed: u64) -> Self {
        let mut x = seed;
        let s = [splitmix(&mut x), splitmix(&mut x), splitmix(&mut x), splitmix(&mut x)];
        Rng { s }
    }
    pub fn next_u64(&mut self) -> u64 {
        let r = self.s[1].wrapping_mul(5).rotate_left(7).wrapping_mul(9);
        let t = self.s[1] << 17;
        self.s[2] ^= self.s[0];
        self.s[3] ^= self.s[1];
        self.s[1] ^= self.s[2];
        self.s[0] ^= self.s[3];
        self.s[2] ^= t;
        self.s[3] = self.s[3].rotate_left(45);
        r
    }
    /// uniform in 0..n (n > 0)
    pub fn below(&mut self, n: usize) -> usize {
        debug_assert!(n > 0);
        ((self.next_u64() as u128 * n as u128) >> 64) as usize
    }
    /// uniform in lo..=hi
    pub fn range(&mut self, lo: i64, hi: i64) -> i64 {
        debug_assert!(lo <= hi);
        let span = (hi as i128 - lo as i128 + 1) as u128;
        (lo as i128 + ((self.next_u64() as u128 * span) >> 64) as i128) as i64
    }
    pub fn chance(&mut self, num: u32, den: u32) -> bool {
        (self.below(den as usize) as u32) < num
    }
    pub fn coin(&mut self) -> bool {
        self.next_u64() & 1 == 1
    }
    pub fn pick<'a, T>(&mut self, xs: &'a [T]) -> &'a T {
        &xs[self.below(xs.len())]
    }
    /// pick an index according to integer weights
    pub fn weighted(&mut self, w: &[u32]) -> usize {
        let total: u32 = w.iter().sum();
        let mut x = self.below(total as usize) as u32;
        for (i, &wi) in w.iter().enumerate() {
            if x < wi {
                return i;
            }
            x -= wi;
        }
        w.len() - 1
    }
    pub fn shuffle<T>(&mut self, xs: &mut [T]) {
        for i in (1..xs.len()).rev() {
            let j = self.below(i + 1);
            xs.swap(i, j);
        }
    }
    pub fn fork(&mut self) -> Rng {
        Rng::new(self.next_u64())
    }
}
