//! Plain ordered value tree used by every oracle. Shares nothing with the code under test.

#[derive(Clone, Debug, PartialEq, Eq, Hash)]
pub struct RDate {
    pub year: u16,
    pub month: u8,
    pub day: u8,
}
#[derive(Clone, Debug, PartialEq, Eq, Hash)]
pub struct RTime {
    pub hour: u8,
    pub minute: u8,
    pub second: u8,
    pub nanos: u32,
}
#[derive(Clone, Debug, PartialEq, Eq, Hash)]
pub enum ROffset {
    Z,
    Minutes(i16),
}
#[derive(Clone, Debug, PartialEq, Eq, Hash)]
pub struct RDatetime {
    pub date: Option<RDate>,
    pub time: Option<RTime>,
    pub offset: Option<ROffset>,
}

#[derive(Clone, Debug, PartialEq)]
pub enum RVal {
    Str(String),
    Int(i64),
    /// bit pattern
    Float(u64),
    Bool(bool),
    Dt(RDatetime),
    Array(Vec<RVal>),
    Table(RTable),
}

#[derive(Clone, Debug, Default)]
pub struct RTable {
    pub entries: Vec<(String, RVal)>,
    /// alternative admissible key order (see DESIGN.md C02: super-table after sub-table)
    pub alt: Option<Vec<String>>,
    /// spelled only through dotted keys inside an inline table (informational: never compared)
    pub dotted: bool,
}

impl PartialEq for RTable {
    fn eq(&self, o: &Self) -> bool {
        self.entries == o.entries
    }
}

impl RTable {
    pub fn new() -> Self {
        RTable::default()
    }
    pub fn get(&self, k: &str) -> Option<&RVal> {
        self.entries.iter().find(|(n, _)| n == k).map(|(_, v)| v)
    }
    pub fn get_mut(&mut self, k: &str) -> Option<&mut RVal> {
        self.entries.iter_mut().find(|(n, _)| n == k).map(|(_, v)| v)
    }
    pub fn pos(&self, k: &str) -> Option<usize> {
        self.entries.iter().position(|(n, _)| n == k)
    }
    pub fn insert(&mut self, k: &str, v: RVal) -> Option<RVal> {
        if let Some(slot) = self.get_mut(k) {
            Some(std::mem::replace(slot, v))
        } else {
            self.entries.push((k.to_string(), v));
            None
        }
    }
    pub fn remove(&mut self, k: &str) -> Option<RVal> {
        self.pos(k).map(|i| self.entries.remove(i).1)
    }
    pub fn keys(&self) -> Vec<&str> {
        self.entries.iter().map(|(k, _)| k.as_str()).collect()
    }
}

pub fn is_nan_bits(b: u64) -> bool {
    f64::from_bits(b).is_nan()
}

#[derive(Clone, Copy, Debug, PartialEq)]
pub enum KeyOrder {
    /// keys must appear in exactly the expected order
    Exact,
    /// expected order, or the expected table's `alt` order where present
    ExactOrAlt,
    /// key order is not compared (sorted-map observers)
    Any,
}

impl RVal {
    pub fn type_name(&self) -> &'static str {
        match self {
            RVal::Str(_) => "string",
            RVal::Int(_) => "integer",
            RVal::Float(_) => "float",
            RVal::Bool(_) => "boolean",
            RVal::Dt(_) => "datetime",
            RVal::Array(_) => "array",
            RVal::Table(_) => "table",
        }
    }
    pub fn table(entries: Vec<(String, RVal)>) -> RVal {
        RVal::Table(RTable { entries, alt: None, dotted: false })
    }
    pub fn as_table(&self) -> Option<&RTable> {
        match self {
            RVal::Table(t) => Some(t),
            _ => None,
        }
    }
    pub fn as_table_mut(&mut self) -> Option<&mut RTable> {
        match self {
            RVal::Table(t) => Some(t),
            _ => None,
        }
    }
    /// number of nodes
    pub fn size(&self) -> usize {
        match self {
            RVal::Array(a) => 1 + a.iter().map(|v| v.size()).sum::<usize>(),
            RVal::Table(t) => 1 + t.entries.iter().map(|(_, v)| v.size()).sum::<usize>(),
            _ => 1,
        }
    }
    /// container nesting depth (scalars 0), computed iteratively-safe for moderate depths
    pub fn depth(&self) -> usize {
        match self {
            RVal::Array(a) => 1 + a.iter().map(|v| v.depth()).max().unwrap_or(0),
            RVal::Table(t) => 1 + t.entries.iter().map(|(_, v)| v.depth()).max().unwrap_or(0),
            _ => 0,
        }
    }

    /// Structural difference, `None` when equal under the given key-order rule.
    /// Floats compare by bit pattern, except that any NaN equals any NaN.
    pub fn diff(&self, actual: &RVal, order: KeyOrder) -> Option<String> {
        let mut path = String::new();
        diff_rec(self, actual, order, &mut path)
    }

    /// compact, unambiguous rendering for evidence/replay files
    pub fn show(&self) -> String {
        let mut s = String::new();
        show_rec(self, &mut s);
        s
    }

    /// content hash (key order sensitive)
    pub fn hash(&self) -> u64 {
        crate::rng::hash_bytes(self.show().as_bytes())
    }

    /// Same tree with every table's keys sorted (for comparisons with sorted maps).
    pub fn sorted(&self) -> RVal {
        match self {
            RVal::Array(a) => RVal::Array(a.iter().map(|v| v.sorted()).collect()),
            RVal::Table(t) => {
                let mut e: Vec<(String, RVal)> = t.entries.iter().map(|(k, v)| (k.clone(), v.sorted())).collect();
                e.sort_by(|a, b| a.0.cmp(&b.0));
                RVal::Table(RTable { entries: e, alt: None, dotted: false })
            }
            v => v.clone(),
        }
    }
}

fn diff_rec(exp: &RVal, act: &RVal, order: KeyOrder, path: &mut String) -> Option<String> {
    match (exp, act) {
        (RVal::Str(a), RVal::Str(b)) => {
            if a != b {
                return Some(format!("at `{path}`: string {a:?} expected, got {b:?}"));
            }
        }
        (RVal::Int(a), RVal::Int(b)) => {
            if a != b {
                return Some(format!("at `{path}`: integer {a} expected, got {b}"));
            }
        }
        (RVal::Float(a), RVal::Float(b)) => {
            let (na, nb) = (is_nan_bits(*a), is_nan_bits(*b));
            if (na || nb) && na != nb || (!na && a != b) {
                return Some(format!(
                    "at `{path}`: float {:?} (bits {a:#x}) expected, got {:?} (bits {b:#x})",
                    f64::from_bits(*a),
                    f64::from_bits(*b)
                ));
            }
        }
        (RVal::Bool(a), RVal::Bool(b)) => {
            if a != b {
                return Some(format!("at `{path}`: boolean {a} expected, got {b}"));
            }
        }
        (RVal::Dt(a), RVal::Dt(b)) => {
            if a != b {
                return Some(format!("at `{path}`: datetime {a:?} expected, got {b:?}"));
            }
        }
        (RVal::Array(a), RVal::Array(b)) => {
            if a.len() != b.len() {
                return Some(format!("at `{path}`: array of {} elements expected, got {}", a.len(), b.len()));
            }
            for (i, (x, y)) in a.iter().zip(b.iter()).enumerate() {
                let l = path.len();
                path.push_str(&format!("[{i}]"));
                if let Some(d) = diff_rec(x, y, order, path) {
                    return Some(d);
                }
                path.truncate(l);
            }
        }
        (RVal::Table(a), RVal::Table(b)) => {
            let ka: Vec<&str> = a.keys();
            let kb: Vec<&str> = b.keys();
            let mut sa = ka.clone();
            sa.sort();
            let mut sb = kb.clone();
            sb.sort();
            if sa != sb {
                return Some(format!("at `{path}`: keys {ka:?} expected, got {kb:?}"));
            }
            match order {
                KeyOrder::Any => {}
                KeyOrder::Exact => {
                    if ka != kb {
                        return Some(format!("at `{path}`: key order {ka:?} expected, got {kb:?}"));
                    }
                }
                KeyOrder::ExactOrAlt => {
                    if ka != kb {
                        let alt_ok = a.alt.as_ref().map(|alt| alt.iter().map(|s| s.as_str()).eq(kb.iter().copied())).unwrap_or(false);
                        if !alt_ok {
                            return Some(format!(
                                "at `{path}`: key order {ka:?} (or alt {:?}) expected, got {kb:?}",
                                a.alt
                            ));
                        }
                    }
                }
            }
            for (k, x) in &a.entries {
                let y = b.get(k).unwrap();
                let l = path.len();
                if !path.is_empty() {
                    path.push('.');
                }
                path.push_str(&format!("{k:?}"));
                if let Some(d) = diff_rec(x, y, order, path) {
                    return Some(d);
                }
                path.truncate(l);
            }
        }
        (a, b) => {
            return Some(format!("at `{path}`: {} expected, got {} ({} vs {})", a.type_name(), b.type_name(), clip(&a.show()), clip(&b.show())));
        }
    }
    None
}

fn clip(s: &str) -> String {
    if s.chars().count() > 80 {
        let t: String = s.chars().take(80).collect();
        format!("{t}…")
    } else {
        s.to_string()
    }
}

fn show_rec(v: &RVal, out: &mut String) {
    match v {
        RVal::Str(s) => out.push_str(&format!("{s:?}")),
        RVal::Int(i) => out.push_str(&format!("{i}")),
        RVal::Float(b) => {
            let f = f64::from_bits(*b);
            if f.is_nan() {
                out.push_str("nan")
            } else {
                out.push_str(&format!("f{:?}#{b:x}", f))
            }
        }
        RVal::Bool(b) => out.push_str(&format!("{b}")),
        RVal::Dt(d) => out.push_str(&format!("@{}", show_dt(d))),
        RVal::Array(a) => {
            out.push('[');
            for (i, x) in a.iter().enumerate() {
                if i > 0 {
                    out.push(',');
                }
                show_rec(x, out);
            }
            out.push(']');
        }
        RVal::Table(t) => {
            out.push('{');
            for (i, (k, x)) in t.entries.iter().enumerate() {
                if i > 0 {
                    out.push(',');
                }
                out.push_str(&format!("{k:?}="));
                show_rec(x, out);
            }
            out.push('}');
        }
    }
}

pub fn show_dt(d: &RDatetime) -> String {
    let mut s = String::new();
    if let Some(x) = &d.date {
        s.push_str(&format!("{:04}-{:02}-{:02}", x.year, x.month, x.day));
    }
    if let Some(t) = &d.time {
        if d.date.is_some() {
            s.push('T');
        }
        s.push_str(&format!("{:02}:{:02}:{:02}", t.hour, t.minute, t.second));
        if t.nanos != 0 {
            let f = format!("{:09}", t.nanos);
            s.push('.');
            s.push_str(f.trim_end_matches('0'));
        }
    }
    match &d.offset {
        Some(ROffset::Z) => s.push('Z'),
        Some(ROffset::Minutes(m)) => {
            let (sign, a) = if *m < 0 { ('-', -(*m as i32)) } else { ('+', *m as i32) };
            s.push_str(&format!("{sign}{:02}:{:02}", a / 60, a % 60));
        }
        None => {}
    }
    s
}

pub fn days_in_month(year: u16, month: u8) -> u8 {
    match month {
        1 | 3 | 5 | 7 | 8 | 10 | 12 => 31,
        4 | 6 | 9 | 11 => 30,
        2 => {
            let y = year as u32;
            if (y % 4 == 0 && y % 100 != 0) || y % 400 == 0 {
                29
            } else {
                28
            }
        }
        _ => 0,
    }
}
