//! toml-test 1.0.0 corpus loader and the reference-model self-check (DESIGN 3.6).

use crate::decode::{decode_bytes, decode_value, parse_datetime, Verdict, U1};
use crate::json::{self, Json};
use crate::rval::*;
use std::path::{Path, PathBuf};

pub struct CorpusFile {
    pub name: String,
    pub bytes: Vec<u8>,
    pub valid: bool,
    pub expected: Option<RVal>,
}

pub fn corpus_dir() -> PathBuf {
    if let Ok(d) = std::env::var("VERIF_CORPUS") {
        return PathBuf::from(d);
    }
    PathBuf::from("/verif/corpus")
}

fn tagged_to_rval(j: &Json) -> Result<RVal, String> {
    match j {
        Json::Arr(a) => Ok(RVal::Array(a.iter().map(tagged_to_rval).collect::<Result<_, _>>()?)),
        Json::Obj(o) => {
            if o.len() == 2 {
                if let (Some(Json::Str(t)), Some(Json::Str(v))) = (j.get("type"), j.get("value")) {
                    return scalar(t, v);
                }
            }
            let mut e = Vec::new();
            for (k, v) in o {
                e.push((k.clone(), tagged_to_rval(v)?));
            }
            Ok(RVal::table(e))
        }
        _ => Err("unexpected JSON in expectation".into()),
    }
}

fn scalar(t: &str, v: &str) -> Result<RVal, String> {
    match t {
        "string" => Ok(RVal::Str(v.to_string())),
        "integer" => v.parse::<i64>().map(RVal::Int).map_err(|e| e.to_string()),
        "bool" => Ok(RVal::Bool(v == "true")),
        "float" => match v {
            "inf" | "+inf" => Ok(RVal::Float(f64::INFINITY.to_bits())),
            "-inf" => Ok(RVal::Float(f64::NEG_INFINITY.to_bits())),
            "nan" | "+nan" | "-nan" => Ok(RVal::Float(f64::NAN.to_bits())),
            _ => {
                let lit = if v.contains('.') || v.contains('e') || v.contains('E') { v.to_string() } else { format!("{v}.0") };
                match decode_value(&lit)? {
                    RVal::Float(b) => Ok(RVal::Float(b)),
                    other => Err(format!("float expectation {v} decoded as {}", other.type_name())),
                }
            }
        },
        "datetime" | "datetime-local" | "date-local" | "time-local" => parse_datetime(v).map(|(d, _)| RVal::Dt(d)),
        _ => Err(format!("unknown tag {t}")),
    }
}

pub fn load(dir: &Path) -> Result<Vec<CorpusFile>, String> {
    let list = std::fs::read_to_string(dir.join("files-toml-1.0.0")).map_err(|e| format!("corpus list: {e}"))?;
    let mut out = Vec::new();
    for line in list.lines() {
        if !line.ends_with(".toml") {
            continue;
        }
        let bytes = std::fs::read(dir.join(line)).map_err(|e| format!("{line}: {e}"))?;
        let valid = line.starts_with("valid/");
        let expected = if valid {
            let jp = dir.join(line.replace(".toml", ".json"));
            let js = std::fs::read_to_string(&jp).map_err(|e| format!("{}: {e}", jp.display()))?;
            let j = json::parse(&js).map_err(|e| format!("{}: {e}", jp.display()))?;
            Some(tagged_to_rval(&j).map_err(|e| format!("{}: {e}", jp.display()))?)
        } else {
            None
        };
        out.push(CorpusFile { name: line.to_string(), bytes, valid, expected });
    }
    Ok(out)
}

/// Replays the corpus through `R`. Returns (files checked, problems).
pub fn self_check(files: &[CorpusFile]) -> (usize, Vec<String>) {
    let mut problems = Vec::new();
    for f in files {
        let d = decode_bytes(&f.bytes);
        if f.valid {
            match &d.verdict {
                Verdict::Valid | Verdict::Undecided(U1::C) => {
                    let exp = match f.expected.as_ref() {
                        Some(e) => e,
                        None => continue,
                    };
                    let t = d.tree.as_ref().unwrap();
                    let ok = exp.diff(t, KeyOrder::Any).is_none() || d.tree_nl.as_ref().map_or(false, |t2| exp.diff(t2, KeyOrder::Any).is_none());
                    if !ok {
                        problems.push(format!("{}: tree mismatch: {}", f.name, exp.diff(t, KeyOrder::Any).unwrap()));
                    }
                }
                v => problems.push(format!("{}: valid file judged {v:?}", f.name)),
            }
        } else {
            match &d.verdict {
                Verdict::Invalid(_) => {}
                Verdict::Undecided(U1::A) if f.name.contains("comment-del") => {}
                v => problems.push(format!("{}: invalid file judged {v:?}", f.name)),
            }
        }
    }
    (files.len(), problems)
}

#[cfg(test)]
mod tests {
    #[test]
    fn corpus_self_check() {
        let files = super::load(&super::corpus_dir()).unwrap();
        assert!(files.len() > 500);
        let (n, problems) = super::self_check(&files);
        for p in &problems {
            eprintln!("{p}");
        }
        assert!(problems.is_empty(), "{} problems in {n} files", problems.len());
    }
}
