pub mod bigint;
pub mod corpus;
pub mod decode;
pub mod gen;
pub mod json;
pub mod macrodoc;
pub mod rng;
pub mod rval;
