//! Tiny JSON reader/writer (corpus expectations, evidence fragments). No external crates.

#[derive(Clone, Debug, PartialEq)]
pub enum Json {
    Null,
    Bool(bool),
    Num(f64),
    Str(String),
    Arr(Vec<Json>),
    Obj(Vec<(String, Json)>),
}

pub fn parse(s: &str) -> Result<Json, String> {
    let mut p = JP { b: s.as_bytes(), s, i: 0 };
    p.ws();
    let v = p.value()?;
    p.ws();
    if p.i != p.b.len() {
        return Err(format!("trailing JSON at {}", p.i));
    }
    Ok(v)
}

struct JP<'a> {
    b: &'a [u8],
    s: &'a str,
    i: usize,
}

impl<'a> JP<'a> {
    fn ws(&mut self) {
        while self.i < self.b.len() && matches!(self.b[self.i], b' ' | b'\t' | b'\n' | b'\r') {
            self.i += 1;
        }
    }
    fn value(&mut self) -> Result<Json, String> {
        match self.b.get(self.i) {
            None => Err("eof".into()),
            Some(b'{') => {
                self.i += 1;
                let mut o = Vec::new();
                self.ws();
                if self.b.get(self.i) == Some(&b'}') {
                    self.i += 1;
                    return Ok(Json::Obj(o));
                }
                loop {
                    self.ws();
                    let k = match self.value()? {
                        Json::Str(s) => s,
                        _ => return Err("object key".into()),
                    };
                    self.ws();
                    if self.b.get(self.i) != Some(&b':') {
                        return Err(format!("expected : at {}", self.i));
                    }
                    self.i += 1;
                    self.ws();
                    let v = self.value()?;
                    o.push((k, v));
                    self.ws();
                    match self.b.get(self.i) {
                        Some(b',') => self.i += 1,
                        Some(b'}') => {
                            self.i += 1;
                            return Ok(Json::Obj(o));
                        }
                        _ => return Err(format!("expected , or }} at {}", self.i)),
                    }
                }
            }
            Some(b'[') => {
                self.i += 1;
                let mut a = Vec::new();
                self.ws();
                if self.b.get(self.i) == Some(&b']') {
                    self.i += 1;
                    return Ok(Json::Arr(a));
                }
                loop {
                    self.ws();
                    a.push(self.value()?);
                    self.ws();
                    match self.b.get(self.i) {
                        Some(b',') => self.i += 1,
                        Some(b']') => {
                            self.i += 1;
                            return Ok(Json::Arr(a));
                        }
                        _ => return Err(format!("expected , or ] at {}", self.i)),
                    }
                }
            }
            Some(b'"') => {
                self.i += 1;
                let mut out = String::new();
                loop {
                    match self.b.get(self.i) {
                        None => return Err("unterminated string".into()),
                        Some(b'"') => {
                            self.i += 1;
                            return Ok(Json::Str(out));
                        }
                        Some(b'\\') => {
                            self.i += 1;
                            let c = *self.b.get(self.i).ok_or("eof")?;
                            self.i += 1;
                            match c {
                                b'n' => out.push('\n'),
                                b't' => out.push('\t'),
                                b'r' => out.push('\r'),
                                b'b' => out.push('\u{8}'),
                                b'f' => out.push('\u{c}'),
                                b'/' => out.push('/'),
                                b'\\' => out.push('\\'),
                                b'"' => out.push('"'),
                                b'u' => {
                                    let mut v = self.hex4()?;
                                    if (0xD800..0xDC00).contains(&v) && self.b.get(self.i) == Some(&b'\\') && self.b.get(self.i + 1) == Some(&b'u') {
                                        self.i += 2;
                                        let lo = self.hex4()?;
                                        v = 0x10000 + ((v - 0xD800) << 10) + (lo - 0xDC00);
                                    }
                                    out.push(char::from_u32(v).ok_or("bad \\u escape")?);
                                }
                                _ => return Err("bad escape".into()),
                            }
                        }
                        Some(_) => {
                            let ch = self.s[self.i..].chars().next().unwrap();
                            out.push(ch);
                            self.i += ch.len_utf8();
                        }
                    }
                }
            }
            Some(b't') if self.s[self.i..].starts_with("true") => {
                self.i += 4;
                Ok(Json::Bool(true))
            }
            Some(b'f') if self.s[self.i..].starts_with("false") => {
                self.i += 5;
                Ok(Json::Bool(false))
            }
            Some(b'n') if self.s[self.i..].starts_with("null") => {
                self.i += 4;
                Ok(Json::Null)
            }
            Some(_) => {
                let st = self.i;
                while self.i < self.b.len() && matches!(self.b[self.i], b'0'..=b'9' | b'-' | b'+' | b'.' | b'e' | b'E') {
                    self.i += 1;
                }
                self.s[st..self.i].parse::<f64>().map(Json::Num).map_err(|e| format!("number at {st}: {e}"))
            }
        }
    }
    fn hex4(&mut self) -> Result<u32, String> {
        let h = self.s.get(self.i..self.i + 4).ok_or("eof in \\u")?;
        self.i += 4;
        u32::from_str_radix(h, 16).map_err(|e| e.to_string())
    }
}

pub fn escape(s: &str) -> String {
    let mut o = String::with_capacity(s.len() + 2);
    o.push('"');
    for c in s.chars() {
        match c {
            '"' => o.push_str("\\\""),
            '\\' => o.push_str("\\\\"),
            '\n' => o.push_str("\\n"),
            '\r' => o.push_str("\\r"),
            '\t' => o.push_str("\\t"),
            c if (c as u32) < 0x20 || c == '\u{7f}' => o.push_str(&format!("\\u{:04x}", c as u32)),
            c => o.push(c),
        }
    }
    o.push('"');
    o
}

impl Json {
    pub fn get(&self, k: &str) -> Option<&Json> {
        match self {
            Json::Obj(o) => o.iter().find(|(n, _)| n == k).map(|(_, v)| v),
            _ => None,
        }
    }
    pub fn as_str(&self) -> Option<&str> {
        match self {
            Json::Str(s) => Some(s),
            _ => None,
        }
    }
    pub fn write(&self) -> String {
        match self {
            Json::Null => "null".into(),
            Json::Bool(b) => b.to_string(),
            Json::Num(n) => {
                if n.fract() == 0.0 && n.abs() < 1e15 {
                    format!("{}", *n as i64)
                } else {
                    format!("{n}")
                }
            }
            Json::Str(s) => escape(s),
            Json::Arr(a) => format!("[{}]", a.iter().map(|x| x.write()).collect::<Vec<_>>().join(",")),
            Json::Obj(o) => format!("{{{}}}", o.iter().map(|(k, v)| format!("{}:{}", escape(k), v.write())).collect::<Vec<_>>().join(",")),
        }
    }
}
