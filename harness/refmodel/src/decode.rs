//! Reference decoder `R`: an independent, character-level recursive-descent transcription of
//! toml.abnf v1.0.0 plus the prose rules (date/time ranges, escapes, definition rules).
//! No parser library, no code or data structure shared with the code under test.

use crate::bigint::{decimal_to_f64, ExactF64};
use crate::rval::*;

pub type Span = (usize, usize);

#[derive(Clone, Copy, Debug, PartialEq, Eq)]
pub enum LimitKind {
    Int,
    Float,
    Depth,
}

#[derive(Clone, Copy, Debug, PartialEq, Eq)]
pub enum U1 {
    /// DEL inside a comment
    A,
    /// dotted key reaching into a header-implicit table
    B,
    /// leading BOM
    C,
}

#[derive(Clone, Debug, PartialEq)]
pub enum Verdict {
    Valid,
    Invalid(String),
    Limit(LimitKind),
    Undecided(U1),
}

#[derive(Clone, Copy, Debug, PartialEq, Eq)]
pub enum KeyKind {
    Bare,
    Basic,
    Literal,
}

#[derive(Clone, Debug)]
pub struct KeySeg {
    pub name: String,
    pub span: Span,
    pub kind: KeyKind,
    /// whitespace between the preceding `.`/`[`/line start and this segment
    pub ws_before: Span,
    /// whitespace between this segment and the following `.`/`]`/`=`
    pub ws_after: Span,
}

#[derive(Clone, Debug)]
pub enum PKind {
    Scalar(RVal),
    Array(Vec<PVal>),
    Inline(Vec<(Vec<KeySeg>, PVal)>),
}

#[derive(Clone, Debug)]
pub struct PVal {
    pub kind: PKind,
    pub span: Span,
}

#[derive(Clone, Debug)]
pub enum Stmt {
    Header { path: Vec<KeySeg>, array: bool, span: Span },
    KeyVal { path: Vec<KeySeg>, val: PVal, span: Span },
}

pub const PRODS: &[&str] = &[
    "comment", "bare-key", "basic-key", "literal-key", "dotted-key", "std-table", "array-table", "basic-string",
    "ml-basic-string", "literal-string", "ml-literal-string", "escape-short", "escape-u4", "escape-U8",
    "mlb-escaped-nl", "mlb-quotes", "mll-quotes", "ml-first-newline", "dec-int", "dec-int-plus", "dec-int-minus",
    "num-underscore", "hex-int", "oct-int", "bin-int", "float-frac", "float-exp", "float-frac-exp", "inf", "nan",
    "special-signed", "true", "false", "offset-date-time", "local-date-time", "local-date", "local-time", "secfrac",
    "delim-T", "delim-t", "delim-space", "offset-Z", "offset-z", "numoffset", "array-empty", "array-values",
    "array-trailing-comma", "array-comment-newline", "inline-empty", "inline-keyvals", "inline-dotted-key",
    "newline-crlf", "newline-lf", "ws-tab", "bom", "no-final-newline", "blank-line", "comment-non-ascii",
    "string-non-ascii", "empty-quoted-key", "hex-upper", "exp-upper", "ml-close-adjacent-quotes", "ws-space",
];

fn prod_ix(name: &str) -> u32 {
    PRODS.iter().position(|p| *p == name).unwrap_or_else(|| panic!("unknown production {name}")) as u32
}

#[derive(Clone, Debug)]
pub struct Decoded {
    pub verdict: Verdict,
    /// decoded tree (raw CR LF inside multi-line strings kept as written)
    pub tree: Option<RVal>,
    /// same with raw CR LF inside multi-line strings normalised to LF; only when it differs
    pub tree_nl: Option<RVal>,
    pub stmts: Vec<Stmt>,
    pub comments: Vec<Span>,
    pub ml_strings: Vec<Span>,
    /// byte positions of CR characters that belong to a CR LF newline outside multi-line strings
    pub cr_strip: Vec<usize>,
    pub bom: bool,
    /// last expression is a key/value or header and the text does not end with a newline
    pub needs_final_newline: bool,
    pub prods: u64,
    /// conservative nesting measure (see DESIGN 3.4)
    pub nest: usize,
    /// definition-model cells exercised
    pub cells: Vec<&'static str>,
    pub n_scalars: usize,
}

impl Decoded {
    pub fn is_valid(&self) -> bool {
        self.verdict == Verdict::Valid
    }
    pub fn prod_names(&self) -> Vec<&'static str> {
        (0..PRODS.len()).filter(|i| self.prods >> i & 1 == 1).map(|i| PRODS[i]).collect()
    }
    /// The normal form N(t) of DESIGN C03 (only meaningful for accepted texts).
    pub fn normal_form(&self, text: &str) -> String {
        let b = text.as_bytes();
        let start = if self.bom { 3 } else { 0 };
        let mut out = Vec::with_capacity(b.len() + 1);
        let mut k = 0;
        for (i, &c) in b.iter().enumerate().skip(start) {
            while k < self.cr_strip.len() && self.cr_strip[k] < i {
                k += 1;
            }
            if k < self.cr_strip.len() && self.cr_strip[k] == i {
                continue;
            }
            out.push(c);
        }
        if self.needs_final_newline {
            out.push(b'\n');
        }
        String::from_utf8(out).expect("normal form stays UTF-8")
    }
}

const R_DEPTH_CAP: usize = 200;
pub const NEST_LIMIT: usize = 78;

struct P<'a> {
    s: &'a str,
    b: &'a [u8],
    pos: usize,
    depth: usize,
    depth_capped: bool,
    prods: u64,
    del_in_comment: bool,
    limit_int: bool,
    limit_float: bool,
    raw_crlf_in_ml: bool,
    normalize_ml_crlf: bool,
    comments: Vec<Span>,
    ml_strings: Vec<Span>,
    cr_strip: Vec<usize>,
    n_scalars: usize,
}

type PResult<T> = Result<T, String>;

fn is_non_ascii_start(c: u8) -> bool {
    c >= 0x80
}

impl<'a> P<'a> {
    fn prod(&mut self, name: &str) {
        self.prods |= 1u64 << prod_ix(name);
    }
    fn peek(&self) -> Option<u8> {
        self.b.get(self.pos).copied()
    }
    fn peek_at(&self, off: usize) -> Option<u8> {
        self.b.get(self.pos + off).copied()
    }
    fn starts_with(&self, t: &str) -> bool {
        self.b[self.pos..].starts_with(t.as_bytes())
    }
    fn err<T>(&self, msg: &str) -> PResult<T> {
        Err(format!("{msg} at byte {}", self.pos))
    }
    fn next_char(&self) -> Option<char> {
        self.s[self.pos..].chars().next()
    }

    fn ws(&mut self) -> Span {
        let st = self.pos;
        while let Some(c) = self.peek() {
            if c == b' ' {
                self.prod("ws-space");
                self.pos += 1;
            } else if c == b'\t' {
                self.prod("ws-tab");
                self.pos += 1;
            } else {
                break;
            }
        }
        (st, self.pos)
    }

    /// newline = LF / CRLF. `outside_ml`: record CR for normal-form stripping.
    fn try_newline(&mut self, outside_ml: bool) -> bool {
        match self.peek() {
            Some(b'\n') => {
                self.prod("newline-lf");
                self.pos += 1;
                true
            }
            Some(b'\r') if self.peek_at(1) == Some(b'\n') => {
                self.prod("newline-crlf");
                if outside_ml {
                    self.cr_strip.push(self.pos);
                }
                self.pos += 2;
                true
            }
            _ => false,
        }
    }

    fn comment(&mut self) -> PResult<()> {
        debug_assert_eq!(self.peek(), Some(b'#'));
        let st = self.pos;
        self.pos += 1;
        self.prod("comment");
        loop {
            match self.peek() {
                None | Some(b'\n') => break,
                Some(b'\r') if self.peek_at(1) == Some(b'\n') => break,
                Some(c) => {
                    if c == 0x09 || (0x20..=0x7E).contains(&c) {
                        self.pos += 1;
                    } else if c == 0x7F {
                        self.del_in_comment = true;
                        self.pos += 1;
                    } else if is_non_ascii_start(c) {
                        self.prod("comment-non-ascii");
                        self.pos += self.next_char().unwrap().len_utf8();
                    } else {
                        return self.err("control character in comment");
                    }
                }
            }
        }
        self.comments.push((st, self.pos));
        Ok(())
    }

    // ---------------------------------------------------------------- keys

    fn simple_key(&mut self) -> PResult<(String, Span, KeyKind)> {
        let st = self.pos;
        match self.peek() {
            Some(b'"') => {
                let s = self.basic_string()?;
                self.prod("basic-key");
                if s.is_empty() {
                    self.prod("empty-quoted-key");
                }
                Ok((s, (st, self.pos), KeyKind::Basic))
            }
            Some(b'\'') => {
                let s = self.literal_string()?;
                self.prod("literal-key");
                if s.is_empty() {
                    self.prod("empty-quoted-key");
                }
                Ok((s, (st, self.pos), KeyKind::Literal))
            }
            _ => {
                while let Some(c) = self.peek() {
                    if c.is_ascii_alphanumeric() || c == b'-' || c == b'_' {
                        self.pos += 1;
                    } else {
                        break;
                    }
                }
                if self.pos == st {
                    return self.err("expected key");
                }
                self.prod("bare-key");
                Ok((self.s[st..self.pos].to_string(), (st, self.pos), KeyKind::Bare))
            }
        }
    }

    /// key = simple-key *( ws "." ws simple-key ); leading ws must already be consumed and is
    /// passed in as `ws_before`. Trailing ws after the last segment is consumed and recorded.
    fn key(&mut self, ws_before: Span) -> PResult<Vec<KeySeg>> {
        let mut segs = Vec::new();
        let mut wsb = ws_before;
        loop {
            let (name, span, kind) = self.simple_key()?;
            let wsa = self.ws();
            segs.push(KeySeg { name, span, kind, ws_before: wsb, ws_after: wsa });
            if self.peek() == Some(b'.') {
                self.pos += 1;
                self.prod("dotted-key");
                wsb = self.ws();
            } else {
                break;
            }
        }
        Ok(segs)
    }

    // ---------------------------------------------------------------- strings

    fn escape(&mut self, out: &mut String) -> PResult<()> {
        // after the backslash
        let c = match self.peek() {
            Some(c) => c,
            None => return self.err("unterminated escape"),
        };
        let simple = match c {
            b'b' => Some('\u{8}'),
            b't' => Some('\t'),
            b'n' => Some('\n'),
            b'f' => Some('\u{c}'),
            b'r' => Some('\r'),
            b'"' => Some('"'),
            b'\\' => Some('\\'),
            _ => None,
        };
        if let Some(ch) = simple {
            self.prod("escape-short");
            self.pos += 1;
            out.push(ch);
            return Ok(());
        }
        let n = match c {
            b'u' => 4,
            b'U' => 8,
            _ => return self.err("invalid escape"),
        };
        self.prod(if n == 4 { "escape-u4" } else { "escape-U8" });
        self.pos += 1;
        let mut v: u32 = 0;
        for _ in 0..n {
            let d = match self.peek() {
                Some(d) if d.is_ascii_hexdigit() => (d as char).to_digit(16).unwrap(),
                _ => return self.err("invalid unicode escape"),
            };
            v = v.wrapping_mul(16).wrapping_add(d);
            self.pos += 1;
        }
        if n == 8 && v > 0x10FFFF {
            return self.err("escape beyond U+10FFFF");
        }
        match char::from_u32(v) {
            Some(ch) => {
                out.push(ch);
                Ok(())
            }
            None => self.err("escape is not a unicode scalar value"),
        }
    }

    fn basic_unescaped(c: u8) -> bool {
        c == b' ' || c == b'\t' || c == 0x21 || (0x23..=0x5B).contains(&c) || (0x5D..=0x7E).contains(&c)
    }

    fn basic_string(&mut self) -> PResult<String> {
        debug_assert_eq!(self.peek(), Some(b'"'));
        self.pos += 1;
        let mut out = String::new();
        loop {
            match self.peek() {
                None => return self.err("unterminated basic string"),
                Some(b'"') => {
                    self.pos += 1;
                    return Ok(out);
                }
                Some(b'\\') => {
                    self.pos += 1;
                    self.escape(&mut out)?;
                }
                Some(c) if Self::basic_unescaped(c) => {
                    out.push(c as char);
                    self.pos += 1;
                }
                Some(c) if is_non_ascii_start(c) => {
                    self.prod("string-non-ascii");
                    let ch = self.next_char().unwrap();
                    out.push(ch);
                    self.pos += ch.len_utf8();
                }
                Some(_) => return self.err("invalid character in basic string"),
            }
        }
    }

    fn ml_newline(&mut self, out: &mut String) -> bool {
        // raw newline inside a multi-line string body
        match self.peek() {
            Some(b'\n') => {
                self.pos += 1;
                out.push('\n');
                true
            }
            Some(b'\r') if self.peek_at(1) == Some(b'\n') => {
                self.pos += 2;
                self.raw_crlf_in_ml = true;
                if self.normalize_ml_crlf {
                    out.push('\n');
                } else {
                    out.push_str("\r\n");
                }
                true
            }
            _ => false,
        }
    }

    fn ml_basic_string(&mut self) -> PResult<String> {
        debug_assert!(self.starts_with("\"\"\""));
        let st = self.pos;
        self.pos += 3;
        // first newline trimmed
        if self.peek() == Some(b'\n') {
            self.pos += 1;
            self.prod("ml-first-newline");
        } else if self.peek() == Some(b'\r') && self.peek_at(1) == Some(b'\n') {
            self.pos += 2;
            self.prod("ml-first-newline");
        }
        let mut out = String::new();
        loop {
            match self.peek() {
                None => return self.err("unterminated multi-line basic string"),
                Some(b'"') => {
                    let mut n = 0;
                    while self.peek_at(n) == Some(b'"') {
                        n += 1;
                    }
                    if n < 3 {
                        self.prod("mlb-quotes");
                        for _ in 0..n {
                            out.push('"');
                        }
                        self.pos += n;
                    } else {
                        let content = (n - 3).min(2);
                        if content > 0 {
                            self.prod("ml-close-adjacent-quotes");
                        }
                        for _ in 0..content {
                            out.push('"');
                        }
                        self.pos += content + 3;
                        self.ml_strings.push((st, self.pos));
                        return Ok(out);
                    }
                }
                Some(b'\\') => {
                    // escaped newline?  "\" ws newline *( wschar / newline )
                    let save = self.pos;
                    self.pos += 1;
                    let mut q = self.pos;
                    while matches!(self.b.get(q), Some(b' ') | Some(b'\t')) {
                        q += 1;
                    }
                    let is_nl = match self.b.get(q) {
                        Some(b'\n') => true,
                        Some(b'\r') => self.b.get(q + 1) == Some(&b'\n'),
                        _ => false,
                    };
                    if is_nl {
                        self.prod("mlb-escaped-nl");
                        self.pos = q;
                        loop {
                            match self.peek() {
                                Some(b' ') | Some(b'\t') | Some(b'\n') => self.pos += 1,
                                Some(b'\r') if self.peek_at(1) == Some(b'\n') => self.pos += 2,
                                _ => break,
                            }
                        }
                    } else {
                        let _ = save;
                        self.escape(&mut out)?;
                    }
                }
                Some(b'\n') | Some(b'\r') => {
                    if !self.ml_newline(&mut out) {
                        return self.err("bare carriage return in multi-line basic string");
                    }
                }
                Some(c) if Self::basic_unescaped(c) => {
                    out.push(c as char);
                    self.pos += 1;
                }
                Some(c) if is_non_ascii_start(c) => {
                    self.prod("string-non-ascii");
                    let ch = self.next_char().unwrap();
                    out.push(ch);
                    self.pos += ch.len_utf8();
                }
                Some(_) => return self.err("invalid character in multi-line basic string"),
            }
        }
    }

    fn literal_char(c: u8) -> bool {
        c == 0x09 || (0x20..=0x26).contains(&c) || (0x28..=0x7E).contains(&c)
    }

    fn literal_string(&mut self) -> PResult<String> {
        debug_assert_eq!(self.peek(), Some(b'\''));
        self.pos += 1;
        let mut out = String::new();
        loop {
            match self.peek() {
                None => return self.err("unterminated literal string"),
                Some(b'\'') => {
                    self.pos += 1;
                    return Ok(out);
                }
                Some(c) if Self::literal_char(c) => {
                    out.push(c as char);
                    self.pos += 1;
                }
                Some(c) if is_non_ascii_start(c) => {
                    self.prod("string-non-ascii");
                    let ch = self.next_char().unwrap();
                    out.push(ch);
                    self.pos += ch.len_utf8();
                }
                Some(_) => return self.err("invalid character in literal string"),
            }
        }
    }

    fn ml_literal_string(&mut self) -> PResult<String> {
        debug_assert!(self.starts_with("'''"));
        let st = self.pos;
        self.pos += 3;
        if self.peek() == Some(b'\n') {
            self.pos += 1;
            self.prod("ml-first-newline");
        } else if self.peek() == Some(b'\r') && self.peek_at(1) == Some(b'\n') {
            self.pos += 2;
            self.prod("ml-first-newline");
        }
        let mut out = String::new();
        loop {
            match self.peek() {
                None => return self.err("unterminated multi-line literal string"),
                Some(b'\'') => {
                    let mut n = 0;
                    while self.peek_at(n) == Some(b'\'') {
                        n += 1;
                    }
                    if n < 3 {
                        self.prod("mll-quotes");
                        for _ in 0..n {
                            out.push('\'');
                        }
                        self.pos += n;
                    } else {
                        let content = (n - 3).min(2);
                        if content > 0 {
                            self.prod("ml-close-adjacent-quotes");
                        }
                        for _ in 0..content {
                            out.push('\'');
                        }
                        self.pos += content + 3;
                        self.ml_strings.push((st, self.pos));
                        return Ok(out);
                    }
                }
                Some(b'\n') | Some(b'\r') => {
                    if !self.ml_newline(&mut out) {
                        return self.err("bare carriage return in multi-line literal string");
                    }
                }
                Some(c) if Self::literal_char(c) => {
                    out.push(c as char);
                    self.pos += 1;
                }
                Some(c) if is_non_ascii_start(c) => {
                    self.prod("string-non-ascii");
                    let ch = self.next_char().unwrap();
                    out.push(ch);
                    self.pos += ch.len_utf8();
                }
                Some(_) => return self.err("invalid character in multi-line literal string"),
            }
        }
    }

    // ---------------------------------------------------------------- values

    fn value(&mut self) -> PResult<PVal> {
        let st = self.pos;
        let kind = match self.peek() {
            None => return self.err("expected value"),
            Some(b'"') => {
                let s = if self.starts_with("\"\"\"") {
                    self.prod("ml-basic-string");
                    self.ml_basic_string()?
                } else {
                    self.prod("basic-string");
                    self.basic_string()?
                };
                self.n_scalars += 1;
                PKind::Scalar(RVal::Str(s))
            }
            Some(b'\'') => {
                let s = if self.starts_with("'''") {
                    self.prod("ml-literal-string");
                    self.ml_literal_string()?
                } else {
                    self.prod("literal-string");
                    self.literal_string()?
                };
                self.n_scalars += 1;
                PKind::Scalar(RVal::Str(s))
            }
            Some(b'[') => {
                if self.depth >= R_DEPTH_CAP {
                    self.depth_capped = true;
                    return self.err("reference decoder depth cap");
                }
                self.depth += 1;
                let r = self.array();
                self.depth -= 1;
                PKind::Array(r?)
            }
            Some(b'{') => {
                if self.depth >= R_DEPTH_CAP {
                    self.depth_capped = true;
                    return self.err("reference decoder depth cap");
                }
                self.depth += 1;
                let r = self.inline_table();
                self.depth -= 1;
                PKind::Inline(r?)
            }
            Some(_) => {
                self.n_scalars += 1;
                PKind::Scalar(self.scalar()?)
            }
        };
        Ok(PVal { kind, span: (st, self.pos) })
    }

    fn ws_comment_newline(&mut self) -> PResult<()> {
        loop {
            self.ws();
            match self.peek() {
                Some(b'#') => {
                    self.comment()?;
                    self.prod("array-comment-newline");
                    if !self.try_newline(true) {
                        return self.err("comment in array must end with a newline");
                    }
                }
                Some(b'\n') | Some(b'\r') => {
                    self.prod("array-comment-newline");
                    if !self.try_newline(true) {
                        return self.err("bare carriage return");
                    }
                }
                _ => return Ok(()),
            }
        }
    }

    fn array(&mut self) -> PResult<Vec<PVal>> {
        debug_assert_eq!(self.peek(), Some(b'['));
        self.pos += 1;
        let mut vals = Vec::new();
        loop {
            self.ws_comment_newline()?;
            if self.peek() == Some(b']') {
                self.pos += 1;
                if vals.is_empty() {
                    self.prod("array-empty");
                } else {
                    // reached only after a comma
                    self.prod("array-trailing-comma");
                }
                return Ok(vals);
            }
            let v = self.value()?;
            vals.push(v);
            self.prod("array-values");
            self.ws_comment_newline()?;
            match self.peek() {
                Some(b',') => {
                    self.pos += 1;
                }
                Some(b']') => {
                    self.pos += 1;
                    return Ok(vals);
                }
                _ => return self.err("expected `,` or `]` in array"),
            }
        }
    }

    fn inline_table(&mut self) -> PResult<Vec<(Vec<KeySeg>, PVal)>> {
        debug_assert_eq!(self.peek(), Some(b'{'));
        self.pos += 1;
        let mut pairs = Vec::new();
        let w = self.ws();
        if self.peek() == Some(b'}') {
            self.pos += 1;
            self.prod("inline-empty");
            return Ok(pairs);
        }
        let mut wsb = w;
        loop {
            let path = self.key(wsb)?;
            if path.len() > 1 {
                self.prod("inline-dotted-key");
            }
            if self.peek() != Some(b'=') {
                return self.err("expected `=` in inline table");
            }
            self.pos += 1;
            self.ws();
            let v = self.value()?;
            pairs.push((path, v));
            self.prod("inline-keyvals");
            self.ws();
            match self.peek() {
                Some(b',') => {
                    self.pos += 1;
                    wsb = self.ws();
                }
                Some(b'}') => {
                    self.pos += 1;
                    return Ok(pairs);
                }
                _ => return self.err("expected `,` or `}` in inline table"),
            }
        }
    }

    fn scalar(&mut self) -> PResult<RVal> {
        let st = self.pos;
        let is_run = |c: u8| c.is_ascii_alphanumeric() || matches!(c, b'_' | b'+' | b'-' | b':' | b'.');
        while let Some(c) = self.peek() {
            if is_run(c) {
                self.pos += 1;
            } else {
                break;
            }
        }
        if self.pos == st {
            return self.err("expected value");
        }
        let src: &'a str = self.s;
        let mut run = &src[st..self.pos];
        // full-date followed by a space and a digit: the time part of a date-time
        if run.len() == 10 && looks_like_date(run) && self.peek() == Some(b' ') && self.peek_at(1).map_or(false, |c| c.is_ascii_digit()) {
            self.pos += 1;
            while let Some(c) = self.peek() {
                if is_run(c) {
                    self.pos += 1;
                } else {
                    break;
                }
            }
            run = &src[st..self.pos];
        }
        let run = run.to_string();
        match self.classify_scalar(&run) {
            Ok(v) => Ok(v),
            Err(e) => {
                self.pos = st;
                self.err(&e)
            }
        }
    }

    fn classify_scalar(&mut self, t: &str) -> Result<RVal, String> {
        let b = t.as_bytes();
        match t {
            "true" => {
                self.prod("true");
                return Ok(RVal::Bool(true));
            }
            "false" => {
                self.prod("false");
                return Ok(RVal::Bool(false));
            }
            _ => {}
        }
        // special floats
        let (sign, rest) = match b[0] {
            b'+' => (Some(false), &t[1..]),
            b'-' => (Some(true), &t[1..]),
            _ => (None, t),
        };
        if rest == "inf" || rest == "nan" {
            if sign.is_some() {
                self.prod("special-signed");
            }
            let neg = sign == Some(true);
            let bits = if rest == "inf" {
                self.prod("inf");
                f64::INFINITY.to_bits()
            } else {
                self.prod("nan");
                f64::NAN.to_bits() & !(1u64 << 63)
            };
            return Ok(RVal::Float(bits | if neg { 1u64 << 63 } else { 0 }));
        }
        // date / time
        if b.len() >= 3 && b[0].is_ascii_digit() && b[1].is_ascii_digit() && b[2] == b':' {
            return self.datetime(t);
        }
        if b.len() >= 5 && b[..4].iter().all(|c| c.is_ascii_digit()) && b[4] == b'-' {
            return self.datetime(t);
        }
        // prefixed integers
        if sign.is_none() && rest.len() >= 2 && b[0] == b'0' && matches!(b[1], b'x' | b'o' | b'b') {
            let (radix, name) = match b[1] {
                b'x' => (16, "hex-int"),
                b'o' => (8, "oct-int"),
                _ => (2, "bin-int"),
            };
            let digits = digits_with_underscores(&rest[2..], radix).ok_or_else(|| format!("malformed {name}"))?;
            self.prod(name);
            if rest[2..].contains('_') {
                self.prod("num-underscore");
            }
            if radix == 16 && rest[2..].bytes().any(|c| c.is_ascii_uppercase()) {
                self.prod("hex-upper");
            }
            let mut v: u128 = 0;
            let mut over = false;
            for c in digits.bytes() {
                let d = (c as char).to_digit(radix).unwrap() as u128;
                v = v.saturating_mul(radix as u128).saturating_add(d);
                if v > i64::MAX as u128 {
                    over = true;
                }
            }
            if over {
                self.limit_int = true;
                return Ok(RVal::Int(0));
            }
            return Ok(RVal::Int(v as i64));
        }
        // decimal integer or float: dec-int [ frac ] [ exp ]
        let (int_part, after_int) = split_while(rest, |c| c.is_ascii_digit() || c == b'_');
        let int_digits = dec_int_digits(int_part).ok_or_else(|| "malformed number".to_string())?;
        if after_int.is_empty() {
            self.prod("dec-int");
            match sign {
                Some(false) => self.prod("dec-int-plus"),
                Some(true) => self.prod("dec-int-minus"),
                None => {}
            }
            if int_part.contains('_') {
                self.prod("num-underscore");
            }
            let mut v: u128 = 0;
            let mut over = false;
            for c in int_digits.bytes() {
                v = v.saturating_mul(10).saturating_add((c - b'0') as u128);
                if v > (1u128 << 63) {
                    over = true;
                }
            }
            let neg = sign == Some(true);
            if over || (!neg && v > i64::MAX as u128) {
                self.limit_int = true;
                return Ok(RVal::Int(0));
            }
            let val: i64 = if neg { (-(v as i128)) as i64 } else { v as i64 };
            return Ok(RVal::Int(val));
        }
        // float
        let mut frac_digits = String::new();
        let mut rest2 = after_int;
        let mut has_frac = false;
        if rest2.as_bytes()[0] == b'.' {
            let (f, r) = split_while(&rest2[1..], |c| c.is_ascii_digit() || c == b'_');
            frac_digits = zero_prefixable_digits(f).ok_or_else(|| "malformed fraction".to_string())?;
            if f.contains('_') {
                self.prod("num-underscore");
            }
            has_frac = true;
            rest2 = r;
        }
        let mut exp: i64 = 0;
        let mut has_exp = false;
        if !rest2.is_empty() {
            let eb = rest2.as_bytes()[0];
            if eb != b'e' && eb != b'E' {
                return Err("malformed number".into());
            }
            if eb == b'E' {
                self.prod("exp-upper");
            }
            let mut e = &rest2[1..];
            let mut eneg = false;
            if let Some(&c) = e.as_bytes().first() {
                if c == b'+' || c == b'-' {
                    eneg = c == b'-';
                    e = &e[1..];
                }
            }
            let ed = zero_prefixable_digits(e).ok_or_else(|| "malformed exponent".to_string())?;
            if e.contains('_') {
                self.prod("num-underscore");
            }
            let mut ev: i64 = 0;
            for c in ed.bytes() {
                ev = (ev * 10 + (c - b'0') as i64).min(100_000_000);
            }
            exp = if eneg { -ev } else { ev };
            has_exp = true;
        }
        if !has_frac && !has_exp {
            return Err("malformed number".into());
        }
        if int_part.contains('_') {
            self.prod("num-underscore");
        }
        self.prod(match (has_frac, has_exp) {
            (true, true) => "float-frac-exp",
            (true, false) => "float-frac",
            _ => "float-exp",
        });
        let all = format!("{int_digits}{frac_digits}");
        let e10 = exp - frac_digits.len() as i64;
        let neg = sign == Some(true);
        match decimal_to_f64(&all, e10) {
            ExactF64::Finite(bits) => Ok(RVal::Float(bits | if neg { 1u64 << 63 } else { 0 })),
            ExactF64::Overflow => {
                self.limit_float = true;
                Ok(RVal::Float(0))
            }
        }
    }

    fn datetime(&mut self, t: &str) -> Result<RVal, String> {
        let (dt, feats) = parse_datetime(t)?;
        for f in feats {
            self.prod(f);
        }
        Ok(RVal::Dt(dt))
    }

    // ---------------------------------------------------------------- document

    fn document(&mut self) -> PResult<(Vec<Stmt>, bool)> {
        let mut stmts = Vec::new();
        let mut last_is_stmt;
        loop {
            let w = self.ws();
            last_is_stmt = false;
            match self.peek() {
                None => {}
                Some(b'\n') | Some(b'\r') => self.prod("blank-line"),
                Some(b'#') => self.comment()?,
                Some(b'[') => {
                    let st = self.pos;
                    let array = self.peek_at(1) == Some(b'[');
                    self.pos += if array { 2 } else { 1 };
                    let w2 = self.ws();
                    let path = self.key(w2)?;
                    if array {
                        if !self.starts_with("]]") {
                            return self.err("expected `]]`");
                        }
                        self.pos += 2;
                        self.prod("array-table");
                    } else {
                        if self.peek() != Some(b']') {
                            return self.err("expected `]`");
                        }
                        self.pos += 1;
                        self.prod("std-table");
                    }
                    stmts.push(Stmt::Header { path, array, span: (st, self.pos) });
                    last_is_stmt = true;
                    self.ws();
                    if self.peek() == Some(b'#') {
                        self.comment()?;
                    }
                }
                Some(_) => {
                    let st = self.pos;
                    let path = self.key(w)?;
                    if self.peek() != Some(b'=') {
                        return self.err("expected `=`");
                    }
                    self.pos += 1;
                    self.ws();
                    let val = self.value()?;
                    let end = self.pos;
                    stmts.push(Stmt::KeyVal { path, val, span: (st, end) });
                    last_is_stmt = true;
                    self.ws();
                    if self.peek() == Some(b'#') {
                        self.comment()?;
                    }
                }
            }
            if self.peek().is_none() {
                break;
            }
            if !self.try_newline(true) {
                return self.err("expected newline");
            }
        }
        let needs_nl = last_is_stmt;
        Ok((stmts, needs_nl))
    }
}

fn looks_like_date(t: &str) -> bool {
    let b = t.as_bytes();
    b.len() == 10 && b[4] == b'-' && b[7] == b'-' && b.iter().enumerate().all(|(i, c)| i == 4 || i == 7 || c.is_ascii_digit())
}

fn split_while(s: &str, f: impl Fn(u8) -> bool) -> (&str, &str) {
    let n = s.bytes().take_while(|c| f(*c)).count();
    (&s[..n], &s[n..])
}

/// HEXDIG *( HEXDIG / "_" HEXDIG ) for the given radix; returns digits without underscores
fn digits_with_underscores(s: &str, radix: u32) -> Option<String> {
    let b = s.as_bytes();
    if b.is_empty() {
        return None;
    }
    let mut out = String::new();
    let mut prev_us = true; // treat start like "after underscore": a digit must follow
    for (i, &c) in b.iter().enumerate() {
        if c == b'_' {
            if prev_us || i == 0 {
                return None;
            }
            prev_us = true;
        } else if (c as char).is_digit(radix) {
            out.push(c as char);
            prev_us = false;
        } else {
            return None;
        }
    }
    if prev_us {
        return None;
    }
    Some(out)
}

/// unsigned-dec-int = DIGIT / digit1-9 1*( DIGIT / "_" DIGIT )
fn dec_int_digits(s: &str) -> Option<String> {
    let d = digits_with_underscores(s, 10)?;
    if s.len() > 1 && s.as_bytes()[0] == b'0' {
        return None;
    }
    Some(d)
}

/// zero-prefixable-int = DIGIT *( DIGIT / "_" DIGIT )
fn zero_prefixable_digits(s: &str) -> Option<String> {
    digits_with_underscores(s, 10)
}

fn two(b: &[u8]) -> Option<u8> {
    if b.len() >= 2 && b[0].is_ascii_digit() && b[1].is_ascii_digit() {
        Some((b[0] - b'0') * 10 + (b[1] - b'0'))
    } else {
        None
    }
}

/// Strict TOML 1.0.0 date-time grammar plus the field range rules. Returns the fields and the
/// production names used.
pub fn parse_datetime(t: &str) -> Result<(RDatetime, Vec<&'static str>), String> {
    let b = t.as_bytes();
    let mut feats = Vec::new();
    let mut i = 0;
    let mut date = None;
    let mut time = None;
    let mut offset = None;
    let bad = |m: &str| Err::<(RDatetime, Vec<&'static str>), String>(format!("malformed date-time: {m}"));
    let starts_date = b.len() >= 5 && b[..4].iter().all(|c| c.is_ascii_digit()) && b[4] == b'-';
    if starts_date {
        if b.len() < 10 || b[7] != b'-' {
            return bad("date");
        }
        let year = (b[0] - b'0') as u16 * 1000 + (b[1] - b'0') as u16 * 100 + (b[2] - b'0') as u16 * 10 + (b[3] - b'0') as u16;
        let month = match two(&b[5..]) {
            Some(m) => m,
            None => return bad("month"),
        };
        let day = match two(&b[8..]) {
            Some(d) => d,
            None => return bad("day"),
        };
        if !(1..=12).contains(&month) {
            return bad("month out of range");
        }
        if day < 1 || day > days_in_month(year, month) {
            return bad("day out of range");
        }
        date = Some(RDate { year, month, day });
        i = 10;
        if i == b.len() {
            feats.push("local-date");
            return Ok((RDatetime { date, time, offset }, feats));
        }
        match b[i] {
            b'T' => feats.push("delim-T"),
            b't' => feats.push("delim-t"),
            b' ' => feats.push("delim-space"),
            _ => return bad("delimiter"),
        }
        i += 1;
    }
    // partial-time
    if b.len() < i + 8 || b[i + 2] != b':' || b[i + 5] != b':' {
        return bad("time");
    }
    let hour = match two(&b[i..]) {
        Some(x) => x,
        None => return bad("hour"),
    };
    let minute = match two(&b[i + 3..]) {
        Some(x) => x,
        None => return bad("minute"),
    };
    let second = match two(&b[i + 6..]) {
        Some(x) => x,
        None => return bad("second"),
    };
    if hour > 23 {
        return bad("hour out of range");
    }
    if minute > 59 {
        return bad("minute out of range");
    }
    if second > 60 {
        return bad("second out of range");
    }
    i += 8;
    let mut nanos: u32 = 0;
    if i < b.len() && b[i] == b'.' {
        i += 1;
        let st = i;
        while i < b.len() && b[i].is_ascii_digit() {
            i += 1;
        }
        if i == st {
            return bad("fraction");
        }
        feats.push("secfrac");
        let mut n = 0u32;
        for k in 0..9 {
            let d = if st + k < i { (b[st + k] - b'0') as u32 } else { 0 };
            n = n * 10 + d;
        }
        nanos = n;
    }
    time = Some(RTime { hour, minute, second, nanos });
    if i == b.len() {
        feats.push(if date.is_some() { "local-date-time" } else { "local-time" });
        return Ok((RDatetime { date, time, offset }, feats));
    }
    if date.is_none() {
        return bad("offset on a local time");
    }
    match b[i] {
        b'Z' => {
            feats.push("offset-Z");
            offset = Some(ROffset::Z);
            i += 1;
        }
        b'z' => {
            feats.push("offset-z");
            offset = Some(ROffset::Z);
            i += 1;
        }
        b'+' | b'-' => {
            let neg = b[i] == b'-';
            if b.len() < i + 6 || b[i + 3] != b':' {
                return bad("offset");
            }
            let oh = match two(&b[i + 1..]) {
                Some(x) => x,
                None => return bad("offset hour"),
            };
            let om = match two(&b[i + 4..]) {
                Some(x) => x,
                None => return bad("offset minute"),
            };
            if oh > 23 || om > 59 {
                return bad("offset out of range");
            }
            let m = oh as i16 * 60 + om as i16;
            offset = Some(ROffset::Minutes(if neg { -m } else { m }));
            feats.push("numoffset");
            i += 6;
        }
        _ => return bad("offset"),
    }
    if i != b.len() {
        return bad("trailing characters");
    }
    feats.push("offset-date-time");
    Ok((RDatetime { date, time, offset }, feats))
}

// =====================================================================================
// Definition-rule model (DESIGN 3.2)
// =====================================================================================

#[derive(Clone, Copy, Debug, PartialEq, Eq)]
pub enum Reading {
    Strict,
    PermissiveDefining,
    PermissiveNonDefining,
}

#[derive(Clone, Copy, Debug, PartialEq, Eq)]
enum TKind {
    Root,
    Implicit,
    Defined,
    Dotted(u32),
    Element,
    InlineRoot,
    InlineDotted,
}

#[derive(Clone, Debug)]
enum MNode {
    Val(RVal),
    Table(MTable),
    Aot(Vec<MTable>),
}

#[derive(Clone, Debug)]
struct MEntry {
    key: String,
    node: MNode,
    first: u32,
    defined: u32,
}

#[derive(Clone, Debug)]
struct MTable {
    kind: TKind,
    entries: Vec<MEntry>,
}

impl MTable {
    fn new(kind: TKind) -> Self {
        MTable { kind, entries: Vec::new() }
    }
    fn find(&self, k: &str) -> Option<usize> {
        self.entries.iter().position(|e| e.key == k)
    }
}

fn kind_name(n: Option<&MNode>) -> &'static str {
    match n {
        None => "absent",
        Some(MNode::Val(RVal::Table(_))) => "inline-table",
        Some(MNode::Val(RVal::Array(_))) => "static-array",
        Some(MNode::Val(_)) => "scalar",
        Some(MNode::Aot(_)) => "array-of-tables",
        Some(MNode::Table(t)) => match t.kind {
            TKind::Root => "root",
            TKind::Implicit => "implicit-table",
            TKind::Defined => "defined-table",
            TKind::Dotted(_) => "dotted-table",
            TKind::Element => "aot-element",
            TKind::InlineRoot | TKind::InlineDotted => "inline-internal",
        },
    }
}

pub struct Model {
    root: MTable,
    reading: Reading,
    seq: u32,
    section: u32,
    cur_path: Vec<String>,
    pub cells: Vec<&'static str>,
    pub hit_u1b_site: bool,
}

macro_rules! cell {
    ($self:ident, $s:expr) => {
        if !$self.cells.contains(&$s) {
            $self.cells.push($s);
        }
    };
}

fn cell_name(stmt: &str, role: &str, existing: &str) -> &'static str {
    // intern into a static table of all combinations
    static TABLE: std::sync::OnceLock<std::sync::Mutex<std::collections::HashMap<String, &'static str>>> = std::sync::OnceLock::new();
    let m = TABLE.get_or_init(Default::default);
    let key = format!("{stmt}/{role}/{existing}");
    let mut g = m.lock().unwrap();
    if let Some(s) = g.get(&key) {
        return s;
    }
    let leaked: &'static str = Box::leak(key.clone().into_boxed_str());
    g.insert(key, leaked);
    leaked
}

impl Model {
    pub fn new(reading: Reading) -> Self {
        Model { root: MTable::new(TKind::Root), reading, seq: 0, section: 0, cur_path: Vec::new(), cells: Vec::new(), hit_u1b_site: false }
    }

    fn resolve_mut<'t>(root: &'t mut MTable, path: &[String]) -> &'t mut MTable {
        let mut t = root;
        for k in path {
            let i = t.find(k).expect("current section path resolves");
            t = match &mut t.entries[i].node {
                MNode::Table(x) => x,
                MNode::Aot(v) => v.last_mut().expect("non-empty"),
                MNode::Val(_) => unreachable!("section path through a value"),
            };
        }
        t
    }

    /// walk the intermediate segments of a header path, creating implicit tables
    fn header_parent(&mut self, path: &[KeySeg], stmt: &'static str) -> Result<Vec<String>, String> {
        let seq = self.seq;
        let mut names: Vec<String> = Vec::new();
        let mut cells = Vec::new();
        {
            let mut t = &mut self.root;
            for seg in &path[..path.len() - 1] {
                let idx = t.find(&seg.name);
                cells.push(cell_name(stmt, "mid", kind_name(idx.map(|i| &t.entries[i].node))));
                let i = match idx {
                    Some(i) => i,
                    None => {
                        t.entries.push(MEntry { key: seg.name.clone(), node: MNode::Table(MTable::new(TKind::Implicit)), first: seq, defined: seq });
                        t.entries.len() - 1
                    }
                };
                t = match &mut t.entries[i].node {
                    MNode::Val(_) => return Err(format!("header path passes through a value at `{}`", seg.name)),
                    MNode::Aot(v) => v.last_mut().unwrap(),
                    MNode::Table(x) => x,
                };
                names.push(seg.name.clone());
            }
        }
        for c in cells {
            cell!(self, c);
        }
        Ok(names)
    }

    pub fn header(&mut self, path: &[KeySeg], array: bool) -> Result<(), String> {
        self.seq += 1;
        self.section += 1;
        let seq = self.seq;
        let stmt = if array { "aot-header" } else { "std-header" };
        let parent_names = self.header_parent(path, stmt)?;
        let last = &path[path.len() - 1].name;
        let parent = Self::resolve_mut(&mut self.root, &parent_names);
        let idx = parent.find(last);
        let c = cell_name(stmt, "last", kind_name(idx.map(|i| &parent.entries[i].node)));
        let res = if array {
            match idx {
                None => {
                    parent.entries.push(MEntry { key: last.clone(), node: MNode::Aot(vec![MTable::new(TKind::Element)]), first: seq, defined: seq });
                    Ok(())
                }
                Some(i) => match &mut parent.entries[i].node {
                    MNode::Aot(v) => {
                        v.push(MTable::new(TKind::Element));
                        Ok(())
                    }
                    _ => Err(format!("`[[{last}]]` collides with an existing key")),
                },
            }
        } else {
            match idx {
                None => {
                    parent.entries.push(MEntry { key: last.clone(), node: MNode::Table(MTable::new(TKind::Defined)), first: seq, defined: seq });
                    Ok(())
                }
                Some(i) => {
                    let e = &mut parent.entries[i];
                    match &mut e.node {
                        MNode::Table(t) if t.kind == TKind::Implicit => {
                            t.kind = TKind::Defined;
                            e.defined = seq;
                            Ok(())
                        }
                        _ => Err(format!("`[{last}]` redefines an existing key")),
                    }
                }
            }
        };
        cell!(self, c);
        res?;
        self.cur_path = parent_names;
        self.cur_path.push(last.clone());
        Ok(())
    }

    pub fn keyval(&mut self, path: &[KeySeg], val: &PVal) -> Result<(), String> {
        self.seq += 1;
        let seq = self.seq;
        let section = self.section;
        let reading = self.reading;
        let v = pval_to_rval(val)?;
        let mut cells = Vec::new();
        let mut hit = false;
        let res = (|| {
            let mut t = Self::resolve_mut(&mut self.root, &self.cur_path);
            for seg in &path[..path.len() - 1] {
                let idx = t.find(&seg.name);
                cells.push(cell_name("keyval", "mid", kind_name(idx.map(|i| &t.entries[i].node))));
                let i = match idx {
                    Some(i) => i,
                    None => {
                        t.entries.push(MEntry { key: seg.name.clone(), node: MNode::Table(MTable::new(TKind::Dotted(section))), first: seq, defined: seq });
                        t.entries.len() - 1
                    }
                };
                t = match &mut t.entries[i].node {
                    MNode::Val(_) => return Err(format!("dotted key passes through a value at `{}`", seg.name)),
                    MNode::Aot(_) => return Err(format!("dotted key extends an array of tables at `{}`", seg.name)),
                    MNode::Table(x) => match x.kind {
                        TKind::Dotted(s) if s == section => x,
                        TKind::Dotted(_) => {
                            // a table made by dotted keys of an earlier section can only be reached
                            // again by a dotted key after a U1-b step (its parent existed implicitly,
                            // was written into, and then got its own header): the same open question.
                            // "As long as a key hasn't been directly defined, you may still write to
                            // it and to names within it" permits it; only the reading under which
                            // nothing became defined can get here without an earlier refusal.
                            hit = true;
                            match reading {
                                Reading::PermissiveNonDefining => x,
                                _ => return Err(format!("dotted key reopens a table of another section at `{}`", seg.name)),
                            }
                        }
                        TKind::Implicit => {
                            hit = true;
                            match reading {
                                Reading::Strict => return Err(format!("dotted key reaches into implicit table `{}` (strict reading)", seg.name)),
                                Reading::PermissiveDefining => {
                                    x.kind = TKind::Dotted(section);
                                    x
                                }
                                Reading::PermissiveNonDefining => x,
                            }
                        }
                        _ => return Err(format!("dotted key reopens the explicitly defined table `{}`", seg.name)),
                    },
                };
            }
            let last = &path[path.len() - 1].name;
            let idx = t.find(last);
            cells.push(cell_name("keyval", "last", kind_name(idx.map(|i| &t.entries[i].node))));
            if idx.is_some() {
                return Err(format!("duplicate key `{last}`"));
            }
            t.entries.push(MEntry { key: last.clone(), node: MNode::Val(v), first: seq, defined: seq });
            Ok(())
        })();
        for c in cells {
            cell!(self, c);
        }
        if hit {
            self.hit_u1b_site = true;
        }
        res
    }

    pub fn finish(self) -> RVal {
        mtable_to_rval(&self.root)
    }
}

fn mtable_to_rval(t: &MTable) -> RVal {
    let mut idx: Vec<usize> = (0..t.entries.len()).collect();
    idx.sort_by_key(|&i| t.entries[i].defined);
    let conv = |e: &MEntry| -> (String, RVal) {
        let v = match &e.node {
            MNode::Val(v) => v.clone(),
            MNode::Table(x) => mtable_to_rval(x),
            MNode::Aot(v) => RVal::Array(v.iter().map(mtable_to_rval).collect()),
        };
        (e.key.clone(), v)
    };
    let entries: Vec<(String, RVal)> = idx.iter().map(|&i| conv(&t.entries[i])).collect();
    let in_first_order = idx.windows(2).all(|w| w[0] < w[1]);
    let alt = if in_first_order { None } else { Some(t.entries.iter().map(|e| e.key.clone()).collect()) };
    RVal::Table(RTable { entries, alt, dotted: t.kind == TKind::InlineDotted })
}

/// How a table came to exist (exported for the edit model of C08).
#[derive(Clone, Copy, Debug, PartialEq, Eq)]
pub enum KKind {
    Root,
    /// exists only as a prefix of header paths
    Implicit,
    /// has a header of its own (or was built through the API)
    Defined,
    /// created by dotted keys
    Dotted,
    /// element of an array of tables
    Element,
}

#[derive(Clone, Debug, PartialEq)]
pub enum KNode {
    Val(RVal),
    Table(KTable),
    Aot(Vec<KTable>),
}

#[derive(Clone, Debug, PartialEq)]
pub struct KTable {
    pub kind: KKind,
    pub entries: Vec<(String, KNode)>,
}

fn mtable_to_k(t: &MTable) -> KTable {
    let mut idx: Vec<usize> = (0..t.entries.len()).collect();
    idx.sort_by_key(|&i| t.entries[i].defined);
    let kind = match t.kind {
        TKind::Root => KKind::Root,
        TKind::Implicit => KKind::Implicit,
        TKind::Defined => KKind::Defined,
        TKind::Dotted(_) => KKind::Dotted,
        TKind::Element => KKind::Element,
        TKind::InlineRoot | TKind::InlineDotted => KKind::Defined,
    };
    KTable {
        kind,
        entries: idx
            .iter()
            .map(|&i| {
                let e = &t.entries[i];
                let n = match &e.node {
                    MNode::Val(v) => KNode::Val(v.clone()),
                    MNode::Table(x) => KNode::Table(mtable_to_k(x)),
                    MNode::Aot(v) => KNode::Aot(v.iter().map(mtable_to_k).collect()),
                };
                (e.key.clone(), n)
            })
            .collect(),
    }
}

/// The document's tree with the kind of every table (strict reading).
pub fn kind_tree(stmts: &[Stmt]) -> Result<KTable, String> {
    let mut m = Model::new(Reading::Strict);
    for s in stmts {
        match s {
            Stmt::Header { path, array, .. } => m.header(path, *array)?,
            Stmt::KeyVal { path, val, .. } => m.keyval(path, val)?,
        }
    }
    Ok(mtable_to_k(&m.root))
}

fn pval_to_rval(v: &PVal) -> Result<RVal, String> {
    match &v.kind {
        PKind::Scalar(s) => Ok(s.clone()),
        PKind::Array(a) => {
            let mut out = Vec::with_capacity(a.len());
            for x in a {
                out.push(pval_to_rval(x)?);
            }
            Ok(RVal::Array(out))
        }
        PKind::Inline(pairs) => {
            let mut root = MTable::new(TKind::InlineRoot);
            for (path, val) in pairs {
                let v = pval_to_rval(val)?;
                let mut t = &mut root;
                for seg in &path[..path.len() - 1] {
                    let i = match t.find(&seg.name) {
                        Some(i) => i,
                        None => {
                            t.entries.push(MEntry { key: seg.name.clone(), node: MNode::Table(MTable::new(TKind::InlineDotted)), first: 0, defined: 0 });
                            t.entries.len() - 1
                        }
                    };
                    t = match &mut t.entries[i].node {
                        MNode::Table(x) if x.kind == TKind::InlineDotted => x,
                        _ => return Err(format!("dotted key in inline table extends a value at `{}`", seg.name)),
                    };
                }
                let last = &path[path.len() - 1].name;
                if t.find(last).is_some() {
                    return Err(format!("duplicate key `{last}` in inline table"));
                }
                t.entries.push(MEntry { key: last.clone(), node: MNode::Val(v), first: 0, defined: 0 });
            }
            Ok(mtable_to_rval(&root))
        }
    }
}

fn pval_nest(v: &PVal) -> usize {
    match &v.kind {
        PKind::Scalar(_) => 0,
        PKind::Array(a) => 1 + a.iter().map(pval_nest).max().unwrap_or(0),
        // an inline table is one level; a dotted key inside it adds one table per extra segment
        PKind::Inline(p) => 1 + p.iter().map(|(k, v)| k.len() - 1 + pval_nest(v)).max().unwrap_or(0),
    }
}

pub fn run_model(stmts: &[Stmt], reading: Reading) -> (Result<RVal, String>, Vec<&'static str>, bool) {
    let mut m = Model::new(reading);
    for s in stmts {
        let r = match s {
            Stmt::Header { path, array, .. } => m.header(path, *array),
            Stmt::KeyVal { path, val, .. } => m.keyval(path, val),
        };
        if let Err(e) = r {
            return (Err(e), m.cells, m.hit_u1b_site);
        }
    }
    let cells = std::mem::take(&mut m.cells);
    let hit = m.hit_u1b_site;
    (Ok(m.finish()), cells, hit)
}

fn new_parser(text: &str, normalize_ml_crlf: bool) -> P<'_> {
    P {
        s: text,
        b: text.as_bytes(),
        pos: 0,
        depth: 0,
        depth_capped: false,
        prods: 0,
        del_in_comment: false,
        limit_int: false,
        limit_float: false,
        raw_crlf_in_ml: false,
        normalize_ml_crlf,
        comments: Vec::new(),
        ml_strings: Vec::new(),
        cr_strip: Vec::new(),
        n_scalars: 0,
    }
}

fn parse_pass(text: &str, normalize_ml_crlf: bool) -> (PResult<(Vec<Stmt>, bool)>, P<'_>) {
    let mut p = new_parser(text, normalize_ml_crlf);
    if text.starts_with('\u{feff}') {
        p.pos = 3;
        p.prod("bom");
    }
    let r = p.document();
    (r, p)
}

/// Decode a byte string: invalid UTF-8 is `Invalid`.
pub fn decode_bytes(bytes: &[u8]) -> Decoded {
    match std::str::from_utf8(bytes) {
        Ok(s) => decode(s),
        Err(e) => Decoded {
            verdict: Verdict::Invalid(format!("invalid UTF-8 at byte {}", e.valid_up_to())),
            tree: None,
            tree_nl: None,
            stmts: vec![],
            comments: vec![],
            ml_strings: vec![],
            cr_strip: vec![],
            bom: false,
            needs_final_newline: false,
            prods: 0,
            nest: 0,
            cells: vec![],
            n_scalars: 0,
        },
    }
}

pub fn decode(text: &str) -> Decoded {
    let (r, p) = parse_pass(text, false);
    let bom = text.starts_with('\u{feff}');
    let mut out = Decoded {
        verdict: Verdict::Valid,
        tree: None,
        tree_nl: None,
        stmts: vec![],
        comments: p.comments.clone(),
        ml_strings: p.ml_strings.clone(),
        cr_strip: p.cr_strip.clone(),
        bom,
        needs_final_newline: false,
        prods: p.prods,
        nest: 0,
        cells: vec![],
        n_scalars: p.n_scalars,
    };
    let (stmts, needs_nl) = match r {
        Ok(x) => x,
        Err(e) => {
            out.verdict = if p.depth_capped { Verdict::Limit(LimitKind::Depth) } else { Verdict::Invalid(e) };
            return out;
        }
    };
    out.needs_final_newline = needs_nl && !text.ends_with('\n');
    if out.needs_final_newline {
        out.prods |= 1u64 << prod_ix("no-final-newline");
    }
    // conservative nesting measure
    let mut header_len = 0;
    let mut nest = 0;
    for s in &stmts {
        match s {
            Stmt::Header { path, .. } => {
                header_len = path.len();
                nest = nest.max(header_len);
            }
            Stmt::KeyVal { path, val, .. } => {
                nest = nest.max(header_len + path.len() + pval_nest(val));
            }
        }
    }
    out.nest = nest;
    // definition rules under the three readings
    let (r_strict, cells, hit) = run_model(&stmts, Reading::Strict);
    out.cells = cells;
    let verdict_tree: Result<RVal, Verdict> = if !hit {
        // no U1-b site touched: the readings cannot differ
        r_strict.map_err(Verdict::Invalid)
    } else {
        let (r_pd, c2, _) = run_model(&stmts, Reading::PermissiveDefining);
        let (r_pn, c3, _) = run_model(&stmts, Reading::PermissiveNonDefining);
        for c in c2.into_iter().chain(c3) {
            if !out.cells.contains(&c) {
                out.cells.push(c);
            }
        }
        match (r_strict, r_pd, r_pn) {
            (Err(e), Err(_), Err(_)) => Err(Verdict::Invalid(e)),
            (Ok(a), Ok(b), Ok(c)) if a == b && b == c => Ok(a),
            _ => Err(Verdict::Undecided(U1::B)),
        }
    };
    out.stmts = stmts;
    match verdict_tree {
        Err(v) => {
            out.verdict = v;
            return out;
        }
        Ok(t) => out.tree = Some(t),
    }
    if p.raw_crlf_in_ml {
        let (r2, _p2) = parse_pass(text, true);
        if let Ok((st2, _)) = r2 {
            if let (Ok(t2), _, _) = run_model(&st2, Reading::PermissiveNonDefining) {
                out.tree_nl = Some(t2);
            }
        }
    }
    // neither class is judged for validity; a limit takes precedence so that "U1" always means
    // "valid apart from the undecided point" and comes with a tree
    out.verdict = if p.limit_int {
        Verdict::Limit(LimitKind::Int)
    } else if p.limit_float {
        Verdict::Limit(LimitKind::Float)
    } else if nest >= NEST_LIMIT {
        Verdict::Limit(LimitKind::Depth)
    } else if p.del_in_comment {
        Verdict::Undecided(U1::A)
    } else if bom {
        Verdict::Undecided(U1::C)
    } else {
        Verdict::Valid
    };
    if out.verdict != Verdict::Valid && (p.limit_int || p.limit_float) {
        // placeholder values were substituted: the tree is not meaningful
        out.tree = None;
        out.tree_nl = None;
    }
    out
}

/// Decode a single value token (used by C10/C11/C12): the whole text must be one `val`.
pub fn decode_value(text: &str) -> Result<RVal, String> {
    let mut p = new_parser(text, false);
    let v = p.value()?;
    if p.pos != text.len() {
        return Err(format!("trailing characters after value at byte {}", p.pos));
    }
    if p.limit_int || p.limit_float {
        return Err("limit".into());
    }
    pval_to_rval(&v)
}

/// Decode a (possibly dotted) key: the whole text must be one `key`.
pub fn decode_key(text: &str) -> Result<Vec<String>, String> {
    let mut p = new_parser(text, false);
    let w = p.ws();
    let k = p.key(w)?;
    if p.pos != text.len() {
        return Err(format!("trailing characters after key at byte {}", p.pos));
    }
    Ok(k.into_iter().map(|s| s.name).collect())
}
