//! Documents in the intersection of TOML and Rust tokenisation that `toml!` documents (C19).
//! No comments, no literal / multi-line strings, integers within i32, escapes common to both
//! languages, offsets `Z` or negative, every key spelling the macro accepts.

use crate::rng::Rng;

#[derive(Clone, Debug)]
enum N {
    Val(String),
    Table(Vec<(String, N)>, bool /* dotted */),
    Aot(Vec<Vec<(String, N)>>),
}

const IDENTS: &[&str] = &["a", "b", "c", "name", "x_y", "k1", "type", "r#mod", "serde", "_u", "A", "zz"];

fn seg(rng: &mut Rng) -> String {
    match rng.below(10) {
        0..=5 => {
            let s = rng.pick(IDENTS);
            if s.starts_with("r#") {
                "modx".to_string()
            } else {
                s.to_string()
            }
        }
        6 | 7 => format!("{}-{}", rng.pick(&["a", "dev", "x", "foo"]), rng.pick(&["b", "dependencies", "y1", "bar"])),
        8 => format!("\"{}\"", rng.pick(&["cfg(windows)", "a b", "1.2", "é", "x.y", "", "q-r", "a\\\"b", "tab\\there", "-x", "--release", "-", "a-", "10.0.0.1"])),
        _ => format!("{}-{}-{}", rng.pick(&["a", "b"]), rng.pick(&["c", "d"]), rng.pick(&["e", "f"])),
    }
}

/// the decoded name of a key segment (to keep keys unique)
fn seg_name(s: &str) -> String {
    if let Some(inner) = s.strip_prefix('"').and_then(|x| x.strip_suffix('"')) {
        inner.replace("\\\"", "\"").replace("\\t", "\t")
    } else {
        s.to_string()
    }
}

fn int(rng: &mut Rng) -> String {
    let v: i64 = match rng.below(5) {
        0 => *rng.pick(&[0i64, 1, 2147483647, 42, 255, 1000000]),
        _ => rng.range(0, 2147483647),
    };
    let body = match rng.below(6) {
        0 => format!("0x{v:x}"),
        1 => format!("0x{v:X}"),
        2 => format!("0o{v:o}"),
        3 => format!("0b{v:b}"),
        _ => {
            let s = v.to_string();
            if s.len() > 3 && rng.coin() {
                // underscores between digits
                let mut o = String::new();
                for (i, c) in s.chars().enumerate() {
                    if i > 0 && (s.len() - i) % 3 == 0 {
                        o.push('_');
                    }
                    o.push(c);
                }
                o
            } else {
                s
            }
        }
    };
    let prefixed = body.starts_with("0x") || body.starts_with("0o") || body.starts_with("0b");
    if prefixed {
        body
    } else {
        match rng.below(4) {
            0 => format!("-{body}"),
            1 => format!("+{body}"),
            _ => body,
        }
    }
}

fn float(rng: &mut Rng) -> String {
    match rng.below(8) {
        0 => rng.pick(&["inf", "+inf", "-inf", "nan", "+nan", "-nan"]).to_string(),
        1 => format!("{}{}.{}", rng.pick(&["", "-", "+"]), rng.below(1000), rng.below(1000)),
        2 => format!("{}{}e{}", rng.pick(&["", "-"]), 1 + rng.below(9), rng.range(-20, 20)),
        3 => format!("{}.{}e+{}", rng.below(10), rng.below(100), rng.below(30)),
        4 => format!("{}.{}E-{}", rng.below(10), rng.below(100), rng.below(30)),
        5 => rng
            .pick(&[
                "0.0",
                "-0.0",
                "+0.0",
                "1e0",
                "6.626e-34",
                "224_617.445_991_228",
                "9_224_617.445_991_228_313",
                "1e1_0",
                // the edges of the double range: subnormals, the smallest normal, the largest finite
                "5e-324",
                "1e-310",
                "-4e-315",
                "2.2250738585072011e-308",
                "2.2250738585072014e-308",
                "1.7976931348623157e308",
                "-1.7976931348623157e+308",
                "1e-400",
            ])
            .to_string(),
        _ => format!("{}.{:03}", rng.range(-1000, 1000), rng.below(1000)),
    }
}

fn string(rng: &mut Rng) -> String {
    let n = rng.below(6);
    let mut s = String::from("\"");
    for _ in 0..n {
        s.push_str(*rng.pick(&["a", "b", " ", "é", "😀", "\\n", "\\t", "\\\\", "\\\"", "\\r", "#", "'", "=", "[", "}", "1", "-"]));
    }
    s.push('"');
    s
}

fn date(rng: &mut Rng) -> String {
    let m = 1 + rng.below(12);
    let d = 1 + rng.below(28);
    format!("{:04}-{m:02}-{d:02}", 1900 + rng.below(200))
}

fn time(rng: &mut Rng) -> String {
    // second 60 (leap second) is valid TOML in every time
    let sec = if rng.chance(1, 10) { 60 } else { rng.below(60) };
    let base = format!("{:02}:{:02}:{sec:02}", rng.below(24), rng.below(60));
    match rng.below(3) {
        0 => {
            // fractions of every length: the parser keeps nine digits and drops the rest
            let n = *rng.pick(&[1usize, 2, 3, 5, 6, 8, 9, 10, 11, 14, 19]);
            let digits: String = (0..n).map(|_| char::from(b'0' + rng.below(10) as u8)).collect();
            format!("{base}.{digits}")
        }
        _ => base,
    }
}

fn datetime(rng: &mut Rng) -> String {
    match rng.below(6) {
        0 => date(rng),
        1 => time(rng),
        2 => format!("{}{}{}", date(rng), rng.pick(&["T", " ", "t"]), time(rng)),
        3 => format!("{}{}{}{}", date(rng), rng.pick(&["T", " "]), time(rng), rng.pick(&["Z", "z"])),
        _ => format!("{}{}{}-{:02}:{:02}", date(rng), rng.pick(&["T", " "]), time(rng), rng.below(24), rng.pick(&[0, 30, 45])),
    }
}

fn scalar(rng: &mut Rng) -> String {
    match rng.below(10) {
        0 | 1 | 2 => int(rng),
        3 | 4 => float(rng),
        5 => rng.pick(&["true", "false"]).to_string(),
        6 | 7 => string(rng),
        _ => datetime(rng),
    }
}

fn value(rng: &mut Rng, depth: usize) -> String {
    if depth >= 3 || rng.chance(7, 10) {
        return scalar(rng);
    }
    if rng.coin() {
        let n = rng.below(4);
        let mut items: Vec<String> = (0..n).map(|_| value(rng, depth + 1)).collect();
        let trailing = !items.is_empty() && rng.chance(1, 3);
        if trailing {
            items.push(String::new());
        }
        format!("[{}]", items.join(", ").trim_end().to_string())
    } else {
        let n = rng.below(4);
        let mut names: Vec<String> = Vec::new();
        let mut parts = Vec::new();
        for _ in 0..n {
            let k = seg(rng);
            if names.contains(&seg_name(&k)) {
                continue;
            }
            names.push(seg_name(&k));
            let dotted = rng.chance(1, 5);
            if dotted {
                let k2 = seg(rng);
                parts.push(format!("{k}.{k2} = {}", value(rng, depth + 1)));
            } else {
                parts.push(format!("{k} = {}", value(rng, depth + 1)));
            }
        }
        if parts.is_empty() {
            "{}".to_string()
        } else {
            format!("{{ {} }}", parts.join(", "))
        }
    }
}

fn plan(rng: &mut Rng, depth: usize, budget: &mut i32) -> Vec<(String, N)> {
    let n = if depth == 0 { 1 + rng.below(5) } else { rng.below(4) };
    let mut out: Vec<(String, N)> = Vec::new();
    for _ in 0..n {
        if *budget <= 0 {
            break;
        }
        let k = seg(rng);
        if out.iter().any(|(x, _)| seg_name(x) == seg_name(&k)) {
            continue;
        }
        *budget -= 1;
        let node = match rng.below(10) {
            0..=4 => N::Val(value(rng, 0)),
            5 if depth < 3 => {
                let mut sub = plan(rng, depth + 1, budget);
                sub.retain(|(_, n)| matches!(n, N::Val(_)));
                if sub.is_empty() {
                    sub.push((seg(rng), N::Val(scalar(rng))));
                }
                N::Table(sub, true)
            }
            6 | 7 if depth < 3 => N::Table(plan(rng, depth + 1, budget), false),
            8 if depth < 3 => N::Aot((0..1 + rng.below(3)).map(|_| plan(rng, depth + 1, budget)).collect()),
            _ => N::Val(scalar(rng)),
        };
        out.push((k, node));
    }
    out
}

fn emit_body(entries: &[(String, N)], prefix: &str, out: &mut String) {
    for (k, n) in entries {
        match n {
            N::Val(v) => out.push_str(&format!("{prefix}{k} = {v}\n")),
            N::Table(sub, true) => emit_body(sub, &format!("{prefix}{k}."), out),
            _ => {}
        }
    }
}

fn emit_sections(rng: &mut Rng, entries: &[(String, N)], path: &str, out: &mut String) {
    // headers of super-tables that are put off until after the later siblings
    let mut deferred = String::new();
    for (k, n) in entries {
        let p = if path.is_empty() { k.clone() } else { format!("{path}.{k}") };
        match n {
            N::Table(sub, false) => {
                // sometimes the sub-tables come first and the table's own header last
                let has_sub = sub.iter().any(|(_, n)| matches!(n, N::Table(_, false) | N::Aot(_)));
                let has_dotted = sub.iter().any(|(_, n)| matches!(n, N::Table(_, true)));
                if has_sub && !has_dotted && rng.chance(1, 4) {
                    emit_sections(rng, sub, &p, out);
                    if rng.coin() {
                        out.push_str(&format!("[{p}]\n"));
                        emit_body(sub, "", out);
                    } else {
                        deferred.push_str(&format!("[{p}]\n"));
                        emit_body(sub, "", &mut deferred);
                    }
                } else {
                    out.push_str(&format!("[{p}]\n"));
                    emit_body(sub, "", out);
                    emit_sections(rng, sub, &p, out);
                }
            }
            N::Aot(elems) => {
                for e in elems {
                    out.push_str(&format!("[[{p}]]\n"));
                    emit_body(e, "", out);
                    emit_sections(rng, e, &p, out);
                }
            }
            _ => {}
        }
    }
    out.push_str(&deferred);
}

/// bare keys that are number tokens for Rust's lexer (all of them compile inside `toml!`); the
/// last two are spelled the same by both languages and serve as controls
const NUMBER_LIKE_KEYS: &[&str] = &["007", "0x10", "1_000", "1979-05-27", "b-01", "1.5", "0o17", "00", "10", "0"];

/// One document, one statement per line.
pub fn gen_macro_doc(rng: &mut Rng) -> String {
    if rng.chance(1, 24) {
        // a few pairs under bare keys that look like numbers or dates (finding D30)
        let mut keys: Vec<&str> = NUMBER_LIKE_KEYS.to_vec();
        rng.shuffle(&mut keys);
        let n = 1 + rng.below(3);
        let mut out = String::new();
        if rng.coin() {
            out.push_str("[t]\n");
        }
        for (i, k) in keys.into_iter().take(n).enumerate() {
            out.push_str(&format!("{k} = {}\n", i + 1));
        }
        return out;
    }
    let mut budget = *rng.pick(&[3, 6, 10, 16]);
    let root = plan(rng, 0, &mut budget);
    let mut out = String::new();
    emit_body(&root, "", &mut out);
    emit_sections(rng, &root, "", &mut out);
    if out.is_empty() {
        out.push_str("a = 1\n");
    }
    out
}

#[cfg(test)]
mod tests {
    use super::*;
    use crate::decode::{decode, Verdict};
    #[test]
    fn macro_documents_are_valid_toml() {
        for seed in 0..5000u64 {
            let mut rng = Rng::new(seed);
            let d = gen_macro_doc(&mut rng);
            let r = decode(&d);
            assert!(matches!(r.verdict, Verdict::Valid | Verdict::Limit(_)), "seed {seed}: {:?}\n{d}", r.verdict);
        }
    }
}
