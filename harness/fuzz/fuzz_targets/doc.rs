//! Coverage-guided workload for C01 and C04: the body is the same oracle stack as the vcheck
//! checks (reference decoder + five entry points; every entry point and follow-up under the panic
//! monitor; hook H1). A violation aborts the process so that libFuzzer keeps the input.
#![no_main]
#![allow(dead_code, unused_imports)]

#[path = "../../vcheck/src/ctx.rs"]
mod ctx;
#[path = "../../vcheck/src/docs.rs"]
mod docs;
#[path = "../../vcheck/src/obs.rs"]
mod obs;
#[path = "../../vcheck/src/c01.rs"]
mod c01;
#[path = "../../vcheck/src/c04.rs"]
mod c04;
#[path = "../../vcheck/src/c05.rs"]
mod c05;

use ctx::{Ctx, Tier};
use refmodel::rng::Rng;

pub trait Check {
    fn id(&self) -> &'static str;
    fn workloads(&mut self, tier: Tier, seed: u64) -> Vec<(String, u64)>;
    fn run(&mut self, ctx: &mut Ctx, workload: &str, index: u64, rng: &mut Rng);
    fn finish(&mut self, _ctx: &mut Ctx) {}
}

pub fn short_loc(loc: &str) -> String {
    match loc.find("crates/") {
        Some(i) => loc[i + 7..].to_string(),
        None => loc.to_string(),
    }
}

libfuzzer_sys::fuzz_target!(init: { ctx::install_panic_hook(); }, |data: &[u8]| {
    if data.len() > 4096 {
        return;
    }
    let mut ctx = Ctx::new(Tier::Thorough, 0);
    ctx.cur_workload = "fuzz".into();
    // VFUZZ_PROP selects the oracle (and with it what the coverage feedback rewards)
    static PROP: std::sync::OnceLock<String> = std::sync::OnceLock::new();
    let prop = PROP.get_or_init(|| std::env::var("VFUZZ_PROP").unwrap_or_else(|_| "both".into()));
    if prop != "C04" {
        c01::C01::new().judge(&mut ctx, data, true);
    }
    if prop != "C01" {
        c04::C04::new().exercise(&mut ctx, data);
    }
    if !ctx.violations.is_empty() {
        for v in &ctx.violations {
            eprintln!("FUZZ-VIOLATION sig={} {}", v.sig, v.detail);
        }
        std::process::abort();
    }
});
