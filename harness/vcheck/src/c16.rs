//! C16 — tables, arrays and maps obey ordered-container laws under any call sequence.

use crate::ctx::{guarded, Ctx, Tier};
use crate::obs;
use crate::Check;
use refmodel::decode::{decode, Verdict};
use refmodel::rng::{hash_bytes, Rng};
use refmodel::rval::{KeyOrder, RVal};
use std::collections::HashSet;
use toml_edit::{Array, ArrayOfTables, InlineTable, Item, Key, Table, TableLike, Value};

pub struct C16;

const KEYS: [&str; 4] = ["a", "b", "c", "d"];
const BIG_KEYS: [&str; 40] = [
    "k00", "k01", "k02", "k03", "k04", "k05", "k06", "k07", "k08", "k09", "k10", "k11", "k12", "k13", "k14", "k15", "k16", "k17", "k18", "k19", "k20", "k21", "k22", "k23", "k24", "k25", "k26", "k27", "k28", "k29", "k30", "k31", "k32", "k33",
    "k34", "k35", "k36", "k37", "k38", "k39",
];

#[derive(Clone, Debug, PartialEq)]
pub enum MV {
    Int(i64),
    Tbl,
    Aot,
    Inl(Vec<(String, MV)>),
    Hidden,
}

#[derive(Clone, Debug)]
enum Op {
    Insert(String, MV),
    InsertFormatted(String, MV),
    Remove(String),
    RemoveEntry(String),
    GetMutSet(String, i64),
    EntryOrInsert(String, MV),
    EntryOrInsertWith(String, MV),
    EntryOccInsert(String, MV),
    EntryRemove(String),
    EntryFormatOrInsert(String, MV),
    GetOrInsert(String, i64),
    RetainNot(String),
    RetainOdd,
    Sort,
    SortByRev,
    Clear,
    VivifyRead(String),
    IndexAssign(String, MV),
    NestedAssign(String, String, i64),
    Extend(Vec<(String, i64)>),
    IterMutAdd(i64),
    HasKeyObject(String),
    /// the same two through the `Item` that holds the table (`item["k"]`), not the table's own IndexMut
    VivifyReadViaItem(String),
    IndexAssignViaItem(String, MV),
    /// stable sort by a coarse function of the value: entries that compare equal keep their order
    SortByValueMod(i64),
}

#[derive(Debug, PartialEq, Clone)]
enum Ret {
    Unit,
    Opt(Option<MV>),
    OptKV(Option<(String, MV)>),
    Val(MV),
    Seen(Vec<(String, MV)>),
    Bool(bool),
    Skipped,
}

// ------------------------------------------------------------------ the reference ordered map

#[derive(Clone, Debug, Default)]
struct OrdMap {
    e: Vec<(String, MV)>,
    /// keys whose position is not determined by the laws (a placeholder that was filled later)
    amb: HashSet<String>,
    sorted: bool,
}

impl OrdMap {
    fn pos(&self, k: &str) -> Option<usize> {
        self.e.iter().position(|(n, _)| n == k)
    }
    fn visible(&self) -> Vec<(String, MV)> {
        self.e.iter().filter(|(_, v)| *v != MV::Hidden).cloned().collect()
    }
    fn get(&self, k: &str) -> Option<MV> {
        self.pos(k).map(|i| self.e[i].1.clone()).filter(|v| *v != MV::Hidden)
    }
    fn put(&mut self, k: &str, v: MV) -> Option<MV> {
        let old = match self.pos(k) {
            Some(i) => {
                if self.e[i].1 == MV::Hidden {
                    // a placeholder is not an entry: the key is new and goes to the end
                    self.e.remove(i);
                    self.e.push((k.to_string(), v));
                    None
                } else {
                    Some(std::mem::replace(&mut self.e[i].1, v))
                }
            }
            None => {
                self.e.push((k.to_string(), v));
                None
            }
        };
        self.resort();
        old
    }
    fn resort(&mut self) {
        if self.sorted {
            self.e.sort_by(|a, b| a.0.cmp(&b.0));
        }
    }
    fn take(&mut self, k: &str) -> Option<(String, MV)> {
        let i = self.pos(k)?;
        self.amb.remove(k);
        let (n, v) = self.e.remove(i);
        if v == MV::Hidden {
            None
        } else {
            Some((n, v))
        }
    }

    fn apply(&mut self, op: &Op, inline: bool) -> Ret {
        match op {
            Op::Insert(k, v) | Op::InsertFormatted(k, v) | Op::IndexAssign(k, v) | Op::IndexAssignViaItem(k, v) => {
                let old = self.put(k, v.clone());
                if matches!(op, Op::IndexAssign(..) | Op::IndexAssignViaItem(..)) {
                    Ret::Unit
                } else {
                    Ret::Opt(old)
                }
            }
            Op::Remove(k) => Ret::Opt(self.take(k).map(|x| x.1)),
            Op::RemoveEntry(k) => Ret::OptKV(self.take(k)),
            Op::GetMutSet(k, n) => match self.pos(k) {
                Some(i) if self.e[i].1 != MV::Hidden => {
                    self.e[i].1 = MV::Int(*n);
                    Ret::Bool(true)
                }
                _ => Ret::Bool(false),
            },
            Op::EntryOrInsert(k, v) | Op::EntryOrInsertWith(k, v) | Op::EntryFormatOrInsert(k, v) => match self.get(k) {
                Some(x) => Ret::Val(x),
                None => {
                    self.put(k, v.clone());
                    Ret::Val(v.clone())
                }
            },
            Op::GetOrInsert(k, n) => match self.get(k) {
                Some(x) => Ret::Val(x),
                None => {
                    self.put(k, MV::Int(*n));
                    Ret::Val(MV::Int(*n))
                }
            },
            Op::EntryOccInsert(k, v) => match self.get(k) {
                Some(_) => Ret::Opt(self.put(k, v.clone())),
                None => {
                    self.put(k, v.clone());
                    Ret::Opt(None)
                }
            },
            Op::EntryRemove(k) => match self.get(k) {
                Some(_) => Ret::Opt(self.take(k).map(|x| x.1)),
                None => Ret::Opt(None),
            },
            Op::RetainNot(k) => {
                let seen = self.visible();
                self.e.retain(|(n, v)| n != k || *v == MV::Hidden);
                Ret::Seen(seen)
            }
            Op::RetainOdd => {
                let seen = self.visible();
                self.e.retain(|(_, v)| match v {
                    MV::Int(i) => i % 2 != 0,
                    _ => true,
                });
                Ret::Seen(seen)
            }
            Op::Sort => {
                self.e.sort_by(|a, b| a.0.cmp(&b.0));
                self.amb.clear();
                Ret::Unit
            }
            Op::SortByRev => {
                self.e.sort_by(|a, b| b.0.cmp(&a.0));
                self.amb.clear();
                Ret::Unit
            }
            Op::Clear => {
                self.e.clear();
                self.amb.clear();
                Ret::Unit
            }
            Op::VivifyRead(k) | Op::VivifyReadViaItem(k) => {
                if self.pos(k).is_none() {
                    self.e.push((k.clone(), MV::Hidden));
                }
                Ret::Unit
            }
            Op::SortByValueMod(m) => {
                self.e.sort_by_key(|(_, v)| coarse(v, *m));
                Ret::Unit
            }
            Op::NestedAssign(k, k2, n) => {
                // t[k][k2] = n : a missing or placeholder k becomes an inline table (documented
                // auto-vivification); an existing (inline) table gets the key; anything else panics
                let cur = self.pos(k).map(|i| self.e[i].1.clone());
                match cur {
                    None | Some(MV::Hidden) => {
                        self.put(k, MV::Inl(vec![(k2.clone(), MV::Int(*n))]));
                        if cur.is_none() {
                            self.amb.remove(k.as_str());
                        }
                        Ret::Unit
                    }
                    Some(MV::Inl(mut v)) => {
                        match v.iter().position(|(n2, _)| n2 == k2) {
                            Some(i) => v[i].1 = MV::Int(*n),
                            None => v.push((k2.clone(), MV::Int(*n))),
                        }
                        let i = self.pos(k).unwrap();
                        self.e[i].1 = MV::Inl(v);
                        Ret::Unit
                    }
                    _ => Ret::Skipped,
                }
            }
            Op::Extend(kvs) => {
                for (k, n) in kvs {
                    self.put(k, MV::Int(*n));
                }
                Ret::Unit
            }
            Op::IterMutAdd(d) => {
                let seen = self.visible();
                for (_, v) in self.e.iter_mut() {
                    if let MV::Int(i) = v {
                        *i = i.wrapping_add(*d);
                    }
                }
                Ret::Seen(seen)
            }
            Op::HasKeyObject(k) => Ret::Bool(self.get(k).is_some()),
        }
        .pipe(|r| {
            let _ = inline;
            r
        })
    }
}

trait Pipe: Sized {
    fn pipe<R>(self, f: impl FnOnce(Self) -> R) -> R {
        f(self)
    }
}
impl<T> Pipe for T {}

// ------------------------------------------------------------------ conversions

/// the sort key of `SortByValueMod`
fn coarse(v: &MV, m: i64) -> i64 {
    match v {
        MV::Int(i) => i.rem_euclid(m),
        _ => 0,
    }
}

fn mv_to_item(v: &MV) -> Item {
    match v {
        MV::Int(i) => toml_edit::value(*i),
        // sub-tables carry three entries in an order that is neither sorted nor reverse sorted: an
        // operation on the parent must leave them alone
        MV::Tbl => Item::Table(inner_table()),
        MV::Aot => {
            let mut a = ArrayOfTables::new();
            a.push(inner_table());
            Item::ArrayOfTables(a)
        }
        MV::Inl(kv) => {
            let mut t = InlineTable::new();
            for (k, x) in kv {
                if let Some(v) = mv_to_item(x).into_value().ok() {
                    t.insert(k.as_str(), v);
                }
            }
            toml_edit::value(t)
        }
        MV::Hidden => Item::None,
    }
}

fn mv_to_value(v: &MV) -> Value {
    mv_to_item(v).into_value().unwrap_or_else(|_| Value::from(-1))
}

const INNER: [(&str, i64); 3] = [("z", 1), ("a", 2), ("m", 3)];

fn inner_table() -> Table {
    let mut t = Table::new();
    for (k, v) in INNER {
        t.insert(k, toml_edit::value(v));
    }
    t
}

fn inner_intact(t: &Table) -> bool {
    t.iter().map(|(k, v)| (k, v.as_integer())).eq(INNER.iter().map(|(k, v)| (*k, Some(*v))))
}

fn item_to_mv(i: &Item) -> MV {
    match i {
        Item::None => MV::Hidden,
        Item::Table(t) if inner_intact(t) => MV::Tbl,
        Item::ArrayOfTables(a) if a.len() == 1 && a.iter().all(inner_intact) => MV::Aot,
        // a sub-table whose own entries were touched by an operation on its parent
        Item::Table(t) => MV::Inl(t.iter().map(|(k, v)| (format!("<sub-table entry> {k}"), item_to_mv(v))).collect()),
        Item::ArrayOfTables(a) => MV::Inl(vec![(format!("<array of tables with {} elements, entries touched>", a.len()), MV::Aot)]),
        Item::Value(v) => value_to_mv(v),
    }
}

fn value_to_mv(v: &Value) -> MV {
    match v {
        Value::Integer(i) => MV::Int(*i.value()),
        Value::InlineTable(t) => MV::Inl(t.iter().map(|(k, v)| (k.to_string(), value_to_mv(v))).collect()),
        _ => MV::Int(i64::MIN),
    }
}

/// `Some(Item::None)` is the API's own spelling of "absent"
fn opt_item(o: Option<Item>) -> Option<MV> {
    o.map(|i| item_to_mv(&i)).filter(|v| *v != MV::Hidden)
}

// ------------------------------------------------------------------ observations

#[derive(Debug, PartialEq, Clone, Default)]
struct Obs {
    len: usize,
    is_empty: bool,
    iter: Vec<(String, MV)>,
    gets: Vec<Option<MV>>,
    contains: Vec<bool>,
    kv_keys: Vec<Option<String>>,
    into_iter: Vec<(String, MV)>,
    printed: Option<Vec<(String, MV)>>,
}

fn model_obs(m: &OrdMap, with_print: bool) -> Obs {
    let vis = m.visible();
    Obs {
        len: vis.len(),
        is_empty: vis.is_empty(),
        iter: vis.clone(),
        gets: KEYS.iter().map(|k| m.get(k)).collect(),
        contains: KEYS.iter().map(|k| m.get(k).is_some()).collect(),
        kv_keys: KEYS.iter().map(|k| m.get(k).map(|_| k.to_string())).collect(),
        into_iter: vis.clone(),
        printed: if with_print { Some(vis) } else { None },
    }
}

fn rval_to_mv(v: &RVal) -> MV {
    match v {
        RVal::Int(i) => MV::Int(*i),
        RVal::Table(t) => MV::Inl(t.entries.iter().map(|(k, x)| (k.clone(), rval_to_mv(x))).collect()),
        RVal::Array(_) => MV::Aot,
        _ => MV::Int(i64::MIN),
    }
}

/// what the printed text of a table holds: (key, value) in print order; std tables show as Tbl
fn printed_entries(text: &str, kinds: &dyn Fn(&str) -> Option<MV>) -> Result<Vec<(String, MV)>, String> {
    let d = decode(text);
    if d.verdict != Verdict::Valid {
        return Err(format!("printed text is {:?}: {text:?}", d.verdict));
    }
    let t = d.tree.unwrap();
    let t = t.as_table().unwrap().clone();
    Ok(t.entries
        .iter()
        .map(|(k, v)| {
            let mv = match kinds(k) {
                Some(MV::Tbl) => MV::Tbl,
                Some(MV::Aot) => MV::Aot,
                _ => rval_to_mv(v),
            };
            (k.clone(), mv)
        })
        .collect())
}

fn obs_table(t: &Table) -> Result<Obs, String> {
    let doc: toml_edit::DocumentMut = t.clone().into();
    let text = doc.to_string();
    let kinds = |k: &str| t.get(k).map(item_to_mv);
    let printed = printed_entries(&text, &kinds)?;
    Ok(Obs {
        len: t.len(),
        is_empty: t.is_empty(),
        iter: t.iter().map(|(k, v)| (k.to_string(), item_to_mv(v))).collect(),
        gets: KEYS.iter().map(|k| t.get(k).map(item_to_mv)).collect(),
        contains: KEYS.iter().map(|k| t.contains_key(k)).collect(),
        kv_keys: KEYS.iter().map(|k| t.get_key_value(k).map(|(key, _)| key.get().to_string())).collect(),
        into_iter: t.clone().into_iter().map(|(k, v)| (k.to_string(), item_to_mv(&v))).collect(),
        printed: Some(printed),
    })
}

fn obs_inline(t: &InlineTable) -> Result<Obs, String> {
    let text = format!("x = {t}\n");
    let d = decode(&text);
    if d.verdict != Verdict::Valid {
        return Err(format!("printed inline table is {:?}: {text:?}", d.verdict));
    }
    let tree = d.tree.unwrap();
    let inner = tree.as_table().unwrap().get("x").cloned().unwrap_or(RVal::table(vec![]));
    let printed = match rval_to_mv(&inner) {
        MV::Inl(v) => v,
        _ => vec![],
    };
    Ok(Obs {
        len: t.len(),
        is_empty: t.is_empty(),
        iter: t.iter().map(|(k, v)| (k.to_string(), value_to_mv(v))).collect(),
        gets: KEYS.iter().map(|k| t.get(k).map(value_to_mv)).collect(),
        contains: KEYS.iter().map(|k| t.contains_key(k)).collect(),
        kv_keys: KEYS.iter().map(|k| t.get_key_value(k).map(|(key, _)| key.get().to_string())).collect(),
        into_iter: t.clone().into_iter().map(|(k, v)| (k.to_string(), value_to_mv(&v))).collect(),
        printed: Some(printed),
    })
}

fn obs_tablelike(t: &dyn TableLike) -> Obs {
    Obs {
        len: t.len(),
        is_empty: t.is_empty(),
        iter: t.iter().map(|(k, v)| (k.to_string(), item_to_mv(v))).collect(),
        gets: KEYS.iter().map(|k| t.get(k).map(item_to_mv)).collect(),
        contains: KEYS.iter().map(|k| t.contains_key(k)).collect(),
        kv_keys: KEYS.iter().map(|k| t.get_key_value(k).map(|(key, _)| key.get().to_string())).collect(),
        into_iter: Vec::new(),
        printed: None,
    }
}

fn obs_map(m: &toml::map::Map<String, toml::Value>) -> Result<Obs, String> {
    let tv = |v: &toml::Value| match v {
        toml::Value::Integer(i) => MV::Int(*i),
        _ => MV::Int(i64::MIN),
    };
    let text = toml::to_string(m).map_err(|e| e.to_string())?;
    let printed = printed_entries(&text, &|_| None)?;
    // every iterator of the map, forwards and backwards, tells the same story
    let fwd: Vec<(String, MV)> = m.iter().map(|(k, v)| (k.clone(), tv(v))).collect();
    let mut variants: Vec<(&str, Vec<(String, MV)>)> = Vec::new();
    let mut b: Vec<(String, MV)> = m.iter().rev().map(|(k, v)| (k.clone(), tv(v))).collect();
    b.reverse();
    variants.push(("iter().rev()", b));
    let mut b: Vec<(String, MV)> = m.keys().rev().cloned().zip(m.values().rev().map(tv)).collect();
    b.reverse();
    variants.push(("keys().rev() / values().rev()", b));
    let mut b: Vec<(String, MV)> = m.clone().into_iter().rev().map(|(k, v)| (k, tv(&v))).collect();
    b.reverse();
    variants.push(("into_iter().rev()", b));
    variants.push(("keys() / values()", m.keys().cloned().zip(m.values().map(tv)).collect()));
    let mut ends = Vec::new();
    let mut it = m.iter();
    let mut tail = Vec::new();
    loop {
        match it.next() {
            Some((k, v)) => ends.push((k.clone(), tv(v))),
            None => break,
        }
        match it.next_back() {
            Some((k, v)) => tail.push((k.clone(), tv(v))),
            None => break,
        }
    }
    tail.reverse();
    ends.extend(tail);
    variants.push(("alternating next() / next_back()", ends));
    for (name, v) in variants {
        if v != fwd {
            return Err(format!("REVERSE {name} gives {v:?} where iter() gives {fwd:?}"));
        }
    }
    if m.iter().len() != fwd.len() || m.keys().len() != fwd.len() || m.values().len() != fwd.len() || m.iter().size_hint() != (fwd.len(), Some(fwd.len())) {
        return Err(format!("REVERSE len() / size_hint() of the iterators disagree with the {} entries iterated", fwd.len()));
    }
    Ok(Obs {
        len: m.len(),
        is_empty: m.is_empty(),
        iter: fwd,
        gets: KEYS.iter().map(|k| m.get(*k).map(tv)).collect(),
        contains: KEYS.iter().map(|k| m.contains_key(*k)).collect(),
        kv_keys: KEYS.iter().map(|k| m.get_key_value(*k).map(|(key, _)| key.clone())).collect(),
        into_iter: m.clone().into_iter().map(|(k, v)| (k, tv(&v))).collect(),
        printed: Some(printed),
    })
}

/// first difference between the model's and the container's observations; order of keys in `amb`
/// is not compared
fn diff_obs(model: &Obs, got: &Obs, amb: &HashSet<String>, values_before_tables: bool) -> Option<(String, String)> {
    if model.len != got.len {
        return Some(("len".into(), format!("len() = {}, the reference map holds {}", got.len, model.len)));
    }
    if model.is_empty != got.is_empty {
        return Some(("is_empty".into(), format!("is_empty() = {}, reference {}", got.is_empty, model.is_empty)));
    }
    let strip = |v: &Vec<(String, MV)>| -> Vec<(String, MV)> { v.iter().filter(|(k, _)| !amb.contains(k)).cloned().collect() };
    let as_set = |v: &Vec<(String, MV)>| -> Vec<(String, MV)> {
        let mut x = v.clone();
        x.sort_by(|a, b| a.0.cmp(&b.0));
        x
    };
    for (name, a, b) in [("iter", &model.iter, &got.iter), ("into_iter", &model.into_iter, &got.into_iter)] {
        if name == "into_iter" && b.is_empty() && !a.is_empty() && got.printed.is_none() {
            continue;
        }
        if as_set(a) != as_set(b) {
            return Some((format!("{name}-contents"), format!("{name}() yields {b:?}, the reference map holds {a:?}")));
        }
        if strip(a) != strip(b) {
            return Some((format!("{name}-order"), format!("{name}() yields {b:?}, reference order {a:?}")));
        }
    }
    if model.gets != got.gets {
        return Some(("get".into(), format!("get over {KEYS:?} = {:?}, reference {:?}", got.gets, model.gets)));
    }
    if model.contains != got.contains {
        return Some(("contains_key".into(), format!("contains_key over {KEYS:?} = {:?}, reference {:?}", got.contains, model.contains)));
    }
    if model.kv_keys != got.kv_keys {
        return Some(("get_key_value".into(), format!("get_key_value keys {:?}, reference {:?}", got.kv_keys, model.kv_keys)));
    }
    if let (Some(a), Some(b)) = (&model.printed, &got.printed) {
        let expected: Vec<(String, MV)> = if values_before_tables {
            let mut v: Vec<(String, MV)> = a.iter().filter(|(_, x)| !matches!(x, MV::Tbl | MV::Aot)).cloned().collect();
            v.extend(a.iter().filter(|(_, x)| matches!(x, MV::Tbl | MV::Aot)).cloned());
            v
        } else {
            a.clone()
        };
        if as_set(&expected) != as_set(b) {
            return Some(("print-contents".into(), format!("the printed text holds {b:?}, the reference map {expected:?}")));
        }
        if strip(&expected) != strip(b) {
            return Some(("print-order".into(), format!("the printed text lists {b:?}, reference order {expected:?}")));
        }
    }
    None
}

// ------------------------------------------------------------------ applying operations

fn seen_filter(op: &Op, k: &str, v: &MV) -> bool {
    match op {
        Op::RetainNot(x) => k != x,
        Op::RetainOdd => match v {
            MV::Int(i) => i % 2 != 0,
            _ => true,
        },
        _ => true,
    }
}

fn apply_table(t: &mut Table, op: &Op) -> Ret {
    match op {
        Op::Insert(k, v) => Ret::Opt(opt_item(t.insert(k, mv_to_item(v)))),
        Op::InsertFormatted(k, v) => Ret::Opt(opt_item(t.insert_formatted(&Key::new(k.as_str()), mv_to_item(v)))),
        Op::Remove(k) => Ret::Opt(opt_item(t.remove(k))),
        Op::RemoveEntry(k) => Ret::OptKV(t.remove_entry(k).map(|(key, i)| (key.get().to_string(), item_to_mv(&i))).filter(|(_, v)| *v != MV::Hidden)),
        Op::GetMutSet(k, n) => match t.get_mut(k) {
            Some(i) => {
                *i = toml_edit::value(*n);
                Ret::Bool(true)
            }
            None => Ret::Bool(false),
        },
        Op::EntryOrInsert(k, v) => Ret::Val(item_to_mv(t.entry(k).or_insert(mv_to_item(v)))),
        Op::EntryOrInsertWith(k, v) => Ret::Val(item_to_mv(t.entry(k).or_insert_with(|| mv_to_item(v)))),
        Op::EntryFormatOrInsert(k, v) => Ret::Val(item_to_mv(t.entry_format(&Key::new(k.as_str())).or_insert(mv_to_item(v)))),
        Op::EntryOccInsert(k, v) => match t.entry(k) {
            toml_edit::Entry::Occupied(mut o) => Ret::Opt(opt_item(Some(o.insert(mv_to_item(v))))),
            toml_edit::Entry::Vacant(e) => {
                e.insert(mv_to_item(v));
                Ret::Opt(None)
            }
        },
        Op::EntryRemove(k) => match t.entry(k) {
            toml_edit::Entry::Occupied(o) => Ret::Opt(opt_item(Some(o.remove()))),
            toml_edit::Entry::Vacant(_) => Ret::Opt(None),
        },
        Op::GetOrInsert(..) => Ret::Skipped,
        Op::RetainNot(_) | Op::RetainOdd => {
            let mut seen = Vec::new();
            t.retain(|k, v| {
                let mv = item_to_mv(v);
                seen.push((k.to_string(), mv.clone()));
                seen_filter(op, k, &mv)
            });
            Ret::Seen(seen)
        }
        Op::Sort => {
            t.sort_values();
            Ret::Unit
        }
        Op::SortByRev => {
            t.sort_values_by(|k1, _, k2, _| k2.get().cmp(k1.get()));
            Ret::Unit
        }
        Op::Clear => {
            t.clear();
            Ret::Unit
        }
        Op::VivifyRead(k) => {
            let _ = &mut t[k.as_str()];
            Ret::Unit
        }
        Op::IndexAssign(k, v) => {
            t[k.as_str()] = mv_to_item(v);
            Ret::Unit
        }
        Op::VivifyReadViaItem(k) => {
            let mut item = Item::Table(std::mem::take(t));
            let _ = item[k.as_str()].as_table_mut();
            if let Item::Table(x) = item {
                *t = x;
            }
            Ret::Unit
        }
        Op::IndexAssignViaItem(k, v) => {
            let mut item = Item::Table(std::mem::take(t));
            item[k.as_str()] = mv_to_item(v);
            if let Item::Table(x) = item {
                *t = x;
            }
            Ret::Unit
        }
        Op::SortByValueMod(m) => {
            let m = *m;
            t.sort_values_by(|_, a, _, b| coarse(&item_to_mv(a), m).cmp(&coarse(&item_to_mv(b), m)));
            Ret::Unit
        }
        Op::NestedAssign(k, k2, n) => {
            let ok = matches!(t.get(k).map(item_to_mv), None | Some(MV::Inl(_))) && !matches!(t.get(k), Some(Item::Table(_)));
            if ok {
                t[k.as_str()][k2.as_str()] = toml_edit::value(*n);
                Ret::Unit
            } else {
                Ret::Skipped
            }
        }
        Op::Extend(kvs) => {
            t.extend(kvs.iter().map(|(k, n)| (k.as_str(), Value::from(*n))));
            Ret::Unit
        }
        Op::IterMutAdd(d) => {
            let mut seen = Vec::new();
            for (k, v) in t.iter_mut() {
                let mv = item_to_mv(v);
                seen.push((k.get().to_string(), mv.clone()));
                if let MV::Int(i) = mv {
                    *v = toml_edit::value(i.wrapping_add(*d));
                }
            }
            Ret::Seen(seen)
        }
        Op::HasKeyObject(k) => Ret::Bool(t.key(k).is_some()),
    }
}

fn apply_inline(t: &mut InlineTable, op: &Op) -> Ret {
    match op {
        Op::Insert(k, v) => Ret::Opt(t.insert(k.as_str(), mv_to_value(v)).map(|x| value_to_mv(&x))),
        Op::InsertFormatted(k, v) => Ret::Opt(t.insert_formatted(&Key::new(k.as_str()), mv_to_value(v)).map(|x| value_to_mv(&x))),
        Op::Remove(k) => Ret::Opt(t.remove(k).map(|x| value_to_mv(&x))),
        Op::RemoveEntry(k) => Ret::OptKV(t.remove_entry(k).map(|(key, x)| (key.get().to_string(), value_to_mv(&x)))),
        Op::GetMutSet(k, n) => match t.get_mut(k) {
            Some(v) => {
                *v = Value::from(*n);
                Ret::Bool(true)
            }
            None => Ret::Bool(false),
        },
        Op::EntryOrInsert(k, v) => Ret::Val(value_to_mv(t.entry(k.as_str()).or_insert(mv_to_value(v)))),
        Op::EntryOrInsertWith(k, v) => Ret::Val(value_to_mv(t.entry(k.as_str()).or_insert_with(|| mv_to_value(v)))),
        Op::EntryFormatOrInsert(k, v) => Ret::Val(value_to_mv(t.entry_format(&Key::new(k.as_str())).or_insert(mv_to_value(v)))),
        Op::EntryOccInsert(k, v) => match t.entry(k.as_str()) {
            toml_edit::InlineEntry::Occupied(mut o) => Ret::Opt(Some(value_to_mv(&o.insert(mv_to_value(v))))),
            toml_edit::InlineEntry::Vacant(e) => {
                e.insert(mv_to_value(v));
                Ret::Opt(None)
            }
        },
        Op::EntryRemove(k) => match t.entry(k.as_str()) {
            toml_edit::InlineEntry::Occupied(o) => Ret::Opt(Some(value_to_mv(&o.remove()))),
            toml_edit::InlineEntry::Vacant(_) => Ret::Opt(None),
        },
        Op::GetOrInsert(k, n) => Ret::Val(value_to_mv(t.get_or_insert(k.as_str(), *n))),
        Op::RetainNot(_) | Op::RetainOdd => {
            let mut seen = Vec::new();
            t.retain(|k, v| {
                let mv = value_to_mv(v);
                seen.push((k.to_string(), mv.clone()));
                seen_filter(op, k, &mv)
            });
            Ret::Seen(seen)
        }
        Op::Sort => {
            t.sort_values();
            Ret::Unit
        }
        Op::SortByRev => {
            t.sort_values_by(|k1, _, k2, _| k2.get().cmp(k1.get()));
            Ret::Unit
        }
        Op::Clear => {
            t.clear();
            Ret::Unit
        }
        Op::VivifyRead(k) => {
            // mutable indexing of the item that holds the inline table
            let mut item = Item::Value(Value::InlineTable(std::mem::take(t)));
            let _ = &mut item[k.as_str()];
            if let Item::Value(Value::InlineTable(x)) = item {
                *t = x;
            }
            Ret::Unit
        }
        Op::IndexAssign(k, v) => {
            let mut item = Item::Value(Value::InlineTable(std::mem::take(t)));
            item[k.as_str()] = Item::Value(mv_to_value(v));
            if let Item::Value(Value::InlineTable(x)) = item {
                *t = x;
            }
            Ret::Unit
        }
        Op::NestedAssign(..) | Op::VivifyReadViaItem(..) | Op::IndexAssignViaItem(..) => Ret::Skipped,
        Op::SortByValueMod(m) => {
            let m = *m;
            t.sort_values_by(|_, a, _, b| coarse(&value_to_mv(a), m).cmp(&coarse(&value_to_mv(b), m)));
            Ret::Unit
        }
        Op::Extend(kvs) => {
            t.extend(kvs.iter().map(|(k, n)| (k.as_str(), Value::from(*n))));
            Ret::Unit
        }
        Op::IterMutAdd(d) => {
            let mut seen = Vec::new();
            for (k, v) in t.iter_mut() {
                let mv = value_to_mv(v);
                seen.push((k.get().to_string(), mv.clone()));
                if let MV::Int(i) = mv {
                    *v = Value::from(i.wrapping_add(*d));
                }
            }
            Ret::Seen(seen)
        }
        Op::HasKeyObject(k) => Ret::Bool(t.key(k).is_some()),
    }
}

fn apply_tablelike(t: &mut dyn TableLike, op: &Op, inline: bool) -> Ret {
    let item = |v: &MV| if inline { Item::Value(mv_to_value(v)) } else { mv_to_item(v) };
    match op {
        Op::Insert(k, v) | Op::InsertFormatted(k, v) | Op::IndexAssign(k, v) => {
            let r = Ret::Opt(opt_item(t.insert(k, item(v))));
            if matches!(op, Op::IndexAssign(..)) {
                Ret::Unit
            } else {
                r
            }
        }
        Op::Remove(k) => Ret::Opt(opt_item(t.remove(k))),
        Op::GetMutSet(k, n) => match t.get_mut(k) {
            Some(i) if !i.is_none() => {
                *i = toml_edit::value(*n);
                Ret::Bool(true)
            }
            _ => Ret::Bool(false),
        },
        Op::EntryOrInsert(k, v) => Ret::Val(item_to_mv(t.entry(k).or_insert(item(v)))),
        Op::EntryOrInsertWith(k, v) => Ret::Val(item_to_mv(t.entry(k).or_insert_with(|| item(v)))),
        Op::EntryFormatOrInsert(k, v) => Ret::Val(item_to_mv(t.entry_format(&Key::new(k.as_str())).or_insert(item(v)))),
        Op::EntryOccInsert(k, v) => match t.entry(k) {
            toml_edit::Entry::Occupied(mut o) => Ret::Opt(opt_item(Some(o.insert(item(v))))),
            toml_edit::Entry::Vacant(e) => {
                e.insert(item(v));
                Ret::Opt(None)
            }
        },
        Op::EntryRemove(k) => match t.entry(k) {
            toml_edit::Entry::Occupied(o) => Ret::Opt(opt_item(Some(o.remove()))),
            toml_edit::Entry::Vacant(_) => Ret::Opt(None),
        },
        Op::Sort => {
            t.sort_values();
            Ret::Unit
        }
        Op::Clear => {
            t.clear();
            Ret::Unit
        }
        Op::IterMutAdd(d) => {
            let mut seen = Vec::new();
            for (k, v) in t.iter_mut() {
                let mv = item_to_mv(v);
                seen.push((k.get().to_string(), mv.clone()));
                if let MV::Int(i) = mv {
                    *v = toml_edit::value(i.wrapping_add(*d));
                }
            }
            Ret::Seen(seen)
        }
        Op::HasKeyObject(k) => Ret::Bool(t.key(k).is_some()),
        _ => Ret::Skipped,
    }
}

fn apply_map(m: &mut toml::map::Map<String, toml::Value>, op: &Op) -> Ret {
    let tv = |v: &toml::Value| match v {
        toml::Value::Integer(i) => MV::Int(*i),
        _ => MV::Int(i64::MIN),
    };
    let val = |v: &MV| match v {
        MV::Int(i) => toml::Value::Integer(*i),
        _ => toml::Value::Integer(-1),
    };
    match op {
        Op::Insert(k, v) | Op::InsertFormatted(k, v) => Ret::Opt(m.insert(k.clone(), val(v)).map(|x| tv(&x))),
        Op::IndexAssign(k, v) => {
            m.insert(k.clone(), val(v));
            Ret::Unit
        }
        Op::Remove(k) => Ret::Opt(m.remove(k.as_str()).map(|x| tv(&x))),
        Op::GetMutSet(k, n) => match m.get_mut(k.as_str()) {
            Some(v) => {
                *v = toml::Value::Integer(*n);
                Ret::Bool(true)
            }
            None => Ret::Bool(false),
        },
        Op::EntryOrInsert(k, v) | Op::EntryFormatOrInsert(k, v) => Ret::Val(tv(m.entry(k.clone()).or_insert(val(v)))),
        Op::EntryOrInsertWith(k, v) => Ret::Val(tv(m.entry(k.clone()).or_insert_with(|| val(v)))),
        Op::EntryOccInsert(k, v) => match m.entry(k.clone()) {
            toml::map::Entry::Occupied(mut o) => Ret::Opt(Some(tv(&o.insert(val(v))))),
            toml::map::Entry::Vacant(e) => {
                e.insert(val(v));
                Ret::Opt(None)
            }
        },
        Op::EntryRemove(k) => match m.entry(k.clone()) {
            toml::map::Entry::Occupied(o) => Ret::Opt(Some(tv(&o.remove()))),
            toml::map::Entry::Vacant(_) => Ret::Opt(None),
        },
        Op::RetainNot(_) | Op::RetainOdd => {
            let mut seen = Vec::new();
            m.retain(|k, v| {
                let mv = tv(v);
                seen.push((k.to_string(), mv.clone()));
                seen_filter(op, k, &mv)
            });
            Ret::Seen(seen)
        }
        Op::Clear => {
            m.clear();
            Ret::Unit
        }
        Op::Extend(kvs) => {
            m.extend(kvs.iter().map(|(k, n)| (k.clone(), toml::Value::Integer(*n))));
            Ret::Unit
        }
        Op::IterMutAdd(d) => {
            let mut seen = Vec::new();
            for (k, v) in m.iter_mut() {
                let mv = tv(v);
                seen.push((k.clone(), mv.clone()));
                if let MV::Int(i) = mv {
                    *v = toml::Value::Integer(i.wrapping_add(*d));
                }
            }
            Ret::Seen(seen)
        }
        _ => Ret::Skipped,
    }
}

// ------------------------------------------------------------------ history generation

fn gen_op(rng: &mut Rng, counter: &mut i64, allow_tables: bool, keys: &[&str]) -> Op {
    let k = |rng: &mut Rng| rng.pick(keys).to_string();
    let mut v = |rng: &mut Rng| -> MV {
        *counter += 1;
        if allow_tables && rng.chance(1, 8) {
            if rng.coin() {
                MV::Tbl
            } else {
                MV::Aot
            }
        } else {
            MV::Int(*counter)
        }
    };
    match rng.below(27) {
        24 => Op::VivifyReadViaItem(k(rng)),
        25 => Op::IndexAssignViaItem(k(rng), v(rng)),
        26 => Op::SortByValueMod(2 + rng.below(3) as i64),
        0 | 1 | 2 => Op::Insert(k(rng), v(rng)),
        3 => Op::InsertFormatted(k(rng), v(rng)),
        4 | 5 => Op::Remove(k(rng)),
        6 => Op::RemoveEntry(k(rng)),
        7 => {
            *counter += 1;
            Op::GetMutSet(k(rng), *counter)
        }
        8 => Op::EntryOrInsert(k(rng), v(rng)),
        9 => Op::EntryOrInsertWith(k(rng), v(rng)),
        10 => Op::EntryOccInsert(k(rng), v(rng)),
        11 => Op::EntryRemove(k(rng)),
        12 => Op::EntryFormatOrInsert(k(rng), v(rng)),
        13 => {
            *counter += 1;
            Op::GetOrInsert(k(rng), *counter)
        }
        14 => Op::RetainNot(k(rng)),
        15 => Op::RetainOdd,
        16 => {
            if rng.coin() {
                Op::Sort
            } else {
                Op::SortByRev
            }
        }
        17 => {
            if rng.chance(1, 3) {
                Op::Clear
            } else {
                Op::HasKeyObject(k(rng))
            }
        }
        18 | 19 => Op::VivifyRead(k(rng)),
        20 => Op::IndexAssign(k(rng), v(rng)),
        21 => {
            *counter += 1;
            Op::NestedAssign(k(rng), k(rng), *counter)
        }
        22 => {
            let n = 1 + rng.below(3);
            Op::Extend(
                (0..n)
                    .map(|_| {
                        *counter += 1;
                        (k(rng), *counter)
                    })
                    .collect(),
            )
        }
        _ => Op::IterMutAdd(2 * rng.range(1, 5)),
    }
}

fn op_name(op: &Op) -> &'static str {
    match op {
        Op::Insert(..) => "insert",
        Op::InsertFormatted(..) => "insert_formatted",
        Op::Remove(..) => "remove",
        Op::RemoveEntry(..) => "remove_entry",
        Op::GetMutSet(..) => "get_mut",
        Op::EntryOrInsert(..) => "entry.or_insert",
        Op::EntryOrInsertWith(..) => "entry.or_insert_with",
        Op::EntryOccInsert(..) => "entry.insert",
        Op::EntryRemove(..) => "entry.remove",
        Op::EntryFormatOrInsert(..) => "entry_format.or_insert",
        Op::GetOrInsert(..) => "get_or_insert",
        Op::RetainNot(..) | Op::RetainOdd => "retain",
        Op::Sort => "sort_values",
        Op::SortByRev => "sort_values_by",
        Op::Clear => "clear",
        Op::VivifyRead(..) => "index_mut(read)",
        Op::IndexAssign(..) => "index_mut(assign)",
        Op::NestedAssign(..) => "index_mut(nested assign)",
        Op::Extend(..) => "extend",
        Op::IterMutAdd(..) => "iter_mut",
        Op::HasKeyObject(..) => "key",
        Op::VivifyReadViaItem(..) => "Item index_mut(read)",
        Op::IndexAssignViaItem(..) => "Item index_mut(assign)",
        Op::SortByValueMod(..) => "sort_values_by(ties)",
    }
}

#[derive(Clone, Copy, PartialEq, Debug)]
enum Kind {
    Table,
    Inline,
    DynTable,
    DynInline,
    Map,
}

impl C16 {
    fn run_keyed(&mut self, ctx: &mut Ctx, rng: &mut Rng, kind: Kind) {
        // mostly four keys, so that collisions are frequent; sometimes forty, so that containers
        // grow past the sizes below which sorting happens to be stable
        let big = rng.chance(1, 6);
        let n = if big { 40 + rng.below(140) } else { 1 + rng.below(60) };
        let mut counter = 0i64;
        let allow_tables = matches!(kind, Kind::Table | Kind::DynTable);
        let keys: &[&str] = if big { &BIG_KEYS } else { &KEYS };
        let ops: Vec<Op> = (0..n).map(|_| gen_op(rng, &mut counter, allow_tables, keys)).collect();
        let label = format!("{kind:?}");
        ctx.set_input(&format!("{label}: {ops:?}"));
        ctx.nontrivial(hash_bytes(format!("{label}{ops:?}").as_bytes()));
        let mut model = OrdMap { sorted: kind == Kind::Map && !obs::PRESERVE_ORDER, ..Default::default() };
        let mut table = Table::new();
        let mut inline = InlineTable::new();
        let mut map = toml::map::Map::new();
        let mut had_hidden = false;
        for (step, op) in ops.iter().enumerate() {
            let before = model.clone();
            let got = guarded(|| match kind {
                Kind::Table => apply_table(&mut table, op),
                Kind::Inline => apply_inline(&mut inline, op),
                Kind::DynTable => apply_tablelike(&mut table, op, false),
                Kind::DynInline => apply_tablelike(&mut inline, op, true),
                Kind::Map => apply_map(&mut map, op),
            });
            let got = match got {
                Ok(g) => g,
                Err((loc, msg)) => {
                    ctx.violation(&format!("panic:{}", crate::short_loc(&loc)), format!("{label} step {step} {op:?} panicked at {loc}: {msg}"));
                    return;
                }
            };
            if got == Ret::Skipped {
                ctx.count(&format!("skipped/{label}/{}", op_name(op)));
                continue;
            }
            let want = model.apply(op, matches!(kind, Kind::Inline | Kind::DynInline));
            if want == Ret::Skipped {
                // the model refuses what the container accepted: cannot happen for generated ops
                model = before;
                continue;
            }
            ctx.count(&format!("calls/{label}/{}", op_name(op)));
            if model.e.iter().any(|(_, v)| *v == MV::Hidden) {
                had_hidden = true;
            }
            let placeholder_involved = before.e.iter().any(|(_, v)| *v == MV::Hidden);
            // what a visiting call saw is compared as a set plus the order of the keys whose
            // position the laws determine
            let same = match (&got, &want) {
                (Ret::Seen(a), Ret::Seen(b)) => {
                    let strip = |v: &Vec<(String, MV)>| -> Vec<(String, MV)> { v.iter().filter(|(k, _)| !before.amb.contains(k)).cloned().collect() };
                    let set = |v: &Vec<(String, MV)>| -> Vec<(String, MV)> {
                        let mut x = v.clone();
                        x.sort_by(|p, q| p.0.cmp(&q.0));
                        x
                    };
                    set(a) == set(b) && strip(a) == strip(b)
                }
                _ => got == want,
            };
            if !same {
                let tag = if placeholder_involved { "placeholder-" } else { "" };
                ctx.violation(&format!("{tag}return-differs:{label}:{}", op_name(op)), format!("{label} step {step} {op:?} returned {got:?}, the reference ordered map returns {want:?} (history so far: {:?})", &ops[..=step]));
                return;
            }
            let o = guarded(|| match kind {
                Kind::Table => obs_table(&table),
                Kind::Inline => obs_inline(&inline),
                Kind::DynTable => Ok(obs_tablelike(&table)),
                Kind::DynInline => Ok(obs_tablelike(&inline)),
                Kind::Map => obs_map(&map),
            });
            let o = match o {
                Ok(Ok(o)) => o,
                Ok(Err(e)) => {
                    match e.strip_prefix("REVERSE ") {
                        Some(rest) => ctx.violation(&format!("state-differs:{label}:iterators-disagree"), format!("{label} after step {step} {op:?}: {rest}")),
                        None => ctx.violation(&format!("print-invalid:{label}"), format!("{label} after step {step} {op:?}: {e}")),
                    }
                    return;
                }
                Err((loc, msg)) => {
                    ctx.violation(&format!("panic:{}", crate::short_loc(&loc)), format!("{label}: observing after step {step} {op:?} panicked at {loc}: {msg}"));
                    return;
                }
            };
            ctx.count("observations");
            let with_print = o.printed.is_some();
            let m = model_obs(&model, with_print);
            if let Some((what, detail)) = diff_obs(&m, &o, &model.amb, kind == Kind::Table) {
                let tag = if model.e.iter().any(|(_, v)| *v == MV::Hidden) || placeholder_involved { "placeholder-" } else { "" };
                ctx.violation(&format!("{tag}state-differs:{label}:{what}"), format!("{label} after step {step} {op:?}: {detail} (history: {:?})", &ops[..=step]));
                return;
            }
        }
        if had_hidden {
            ctx.count(&format!("histories-with-placeholder/{label}"));
        }
    }

    fn run_array(&mut self, ctx: &mut Ctx, rng: &mut Rng) {
        let n = 1 + rng.below(60);
        let mut arr = Array::new();
        let mut model: Vec<i64> = Vec::new();
        let mut c = 0i64;
        let mut log: Vec<String> = Vec::new();
        let vi = |v: &Value| v.as_integer().unwrap_or(i64::MIN);
        for step in 0..n {
            c += 1;
            let len = model.len();
            let choice = rng.below(15);
            let (name, res): (&str, Result<Option<String>, (String, String)>) = match choice {
                0 | 1 => {
                    model.push(c);
                    ("push", guarded(|| {
                        arr.push(c);
                        None
                    }))
                }
                2 => {
                    model.push(c);
                    ("push_formatted", guarded(|| {
                        arr.push_formatted(Value::from(c));
                        None
                    }))
                }
                3 | 4 => {
                    let i = rng.below(len + 1);
                    model.insert(i, c);
                    let formatted = choice == 4;
                    ("insert", guarded(|| {
                        if formatted {
                            arr.insert_formatted(i, Value::from(c));
                        } else {
                            arr.insert(i, c);
                        }
                        None
                    }))
                }
                5 | 6 if len > 0 => {
                    let i = rng.below(len);
                    let old = std::mem::replace(&mut model[i], c);
                    let formatted = choice == 6;
                    ("replace", guarded(|| {
                        let got = if formatted { arr.replace_formatted(i, Value::from(c)) } else { arr.replace(i, c) };
                        if vi(&got) != old {
                            Some(format!("replace({i}) returned {}, reference {old}", vi(&got)))
                        } else {
                            None
                        }
                    }))
                }
                7 | 8 if len > 0 => {
                    let i = rng.below(len);
                    let old = model.remove(i);
                    ("remove", guarded(|| {
                        let got = arr.remove(i);
                        if vi(&got) != old {
                            Some(format!("remove({i}) returned {}, reference {old}", vi(&got)))
                        } else {
                            None
                        }
                    }))
                }
                9 => {
                    let seen_want = model.clone();
                    model.retain(|x| x % 2 != 0);
                    ("retain", guarded(|| {
                        let mut seen = Vec::new();
                        arr.retain(|v| {
                            seen.push(vi(v));
                            vi(v) % 2 != 0
                        });
                        if seen != seen_want {
                            Some(format!("retain visited {seen:?}, reference order {seen_want:?}"))
                        } else {
                            None
                        }
                    }))
                }
                10 => {
                    if rng.chance(1, 3) {
                        model.clear();
                        ("clear", guarded(|| {
                            arr.clear();
                            None
                        }))
                    } else {
                        let add = 2 * rng.range(1, 4);
                        for x in model.iter_mut() {
                            *x += add;
                        }
                        ("iter_mut", guarded(|| {
                            for v in arr.iter_mut() {
                                *v = Value::from(vi(v) + add);
                            }
                            None
                        }))
                    }
                }
                11 => {
                    // stable sort by a coarse key: equal keys keep their order
                    model.sort_by_key(|x| x % 3);
                    ("sort_by_key", guarded(|| {
                        arr.sort_by_key(|v| vi(v) % 3);
                        None
                    }))
                }
                12 => {
                    model.sort_by(|a, b| (b % 4).cmp(&(a % 4)));
                    ("sort_by", guarded(|| {
                        arr.sort_by(|a, b| (vi(b) % 4).cmp(&(vi(a) % 4)));
                        None
                    }))
                }
                13 => {
                    model.extend([c, c + 100]);
                    ("extend", guarded(|| {
                        arr.extend([c, c + 100]);
                        None
                    }))
                }
                _ => {
                    let i = rng.below(len + 2);
                    let want = model.get(i).copied();
                    ("get", guarded(|| {
                        let got = arr.get(i).map(vi);
                        if got != want {
                            Some(format!("get({i}) = {got:?}, reference {want:?}"))
                        } else {
                            None
                        }
                    }))
                }
            };
            log.push(format!("{name}#{step}"));
            ctx.count(&format!("calls/Array/{name}"));
            ctx.set_input(&format!("Array: {log:?}"));
            match res {
                Err((loc, msg)) => {
                    ctx.violation(&format!("panic:{}", crate::short_loc(&loc)), format!("Array::{name} panicked at {loc}: {msg}"));
                    return;
                }
                Ok(Some(problem)) => {
                    ctx.violation(&format!("return-differs:Array:{name}"), problem);
                    return;
                }
                Ok(None) => {}
            }
            // full observation
            let got: Vec<i64> = arr.iter().map(vi).collect();
            let text = format!("x = {arr}\n");
            let printed: Option<Vec<i64>> = {
                let d = decode(&text);
                if d.verdict == Verdict::Valid {
                    d.tree.and_then(|t| t.as_table().and_then(|t| t.get("x").cloned())).and_then(|v| match v {
                        RVal::Array(a) => Some(a.iter().map(|x| if let RVal::Int(i) = x { *i } else { i64::MIN }).collect()),
                        _ => None,
                    })
                } else {
                    None
                }
            };
            ctx.count("observations");
            if got != model || arr.len() != model.len() || arr.is_empty() != model.is_empty() {
                ctx.violation(&format!("state-differs:Array:{name}"), format!("after {log:?}: iter() = {got:?} len {} ; reference vector {model:?}", arr.len()));
                return;
            }
            match printed {
                Some(p) if p == model => {}
                other => {
                    ctx.violation(&format!("state-differs:Array:print"), format!("after {log:?}: printed {text:?} reads as {other:?}; reference {model:?}"));
                    return;
                }
            }
        }
        ctx.nontrivial(hash_bytes(format!("{log:?}{model:?}").as_bytes()));
    }

    fn run_aot(&mut self, ctx: &mut Ctx, rng: &mut Rng) {
        let n = 1 + rng.below(40);
        let mut aot = ArrayOfTables::new();
        let mut model: Vec<i64> = Vec::new();
        let mut log = Vec::new();
        let id = |t: &Table| t.get("id").and_then(|i| i.as_integer()).unwrap_or(i64::MIN);
        // half of the histories start from elements that were parsed (they remember where they
        // stood in their document, which decides where `[[t]]` sections are printed and nothing else)
        let mut positions_disagree = false;
        if rng.coin() {
            let k = 1 + rng.below(5);
            let text: String = (0..k).map(|i| format!("[[t]]\nid = {}\n", -(i as i64) - 1)).collect();
            if let Ok(mut doc) = text.parse::<toml_edit::DocumentMut>() {
                if let Some(Item::ArrayOfTables(a)) = doc.remove("t") {
                    aot = a;
                    model = (0..k).map(|i| -(i as i64) - 1).collect();
                    log.push(format!("parsed {k} elements"));
                }
            }
        }
        for step in 0..n {
            let c = step as i64 + 1;
            let len = model.len();
            let choice = rng.below(9);
            let name;
            let r = match choice {
                8 if len > 1 => {
                    name = "remove(0) + push";
                    let first = model.remove(0);
                    model.push(first);
                    positions_disagree = true;
                    guarded(|| {
                        if let Some(t) = aot.get(0).cloned() {
                            aot.remove(0);
                            aot.push(t);
                        }
                    })
                }
                0 | 1 | 2 => {
                    name = "push";
                    model.push(c);
                    guarded(|| {
                        let mut t = Table::new();
                        t.insert("id", toml_edit::value(c));
                        aot.push(t);
                    })
                }
                3 | 4 if len > 0 => {
                    name = "remove";
                    let i = rng.below(len);
                    model.remove(i);
                    guarded(|| aot.remove(i))
                }
                5 => {
                    name = "retain";
                    model.retain(|x| x % 2 != 0);
                    guarded(|| aot.retain(|t| id(t) % 2 != 0))
                }
                6 if len > 0 => {
                    name = "get_mut";
                    let i = rng.below(len);
                    model[i] += 1000;
                    guarded(|| {
                        if let Some(t) = aot.get_mut(i) {
                            let v = id(t);
                            t.insert("id", toml_edit::value(v + 1000));
                        }
                    })
                }
                _ => {
                    if rng.chance(1, 4) {
                        name = "clear";
                        model.clear();
                        guarded(|| aot.clear())
                    } else {
                        name = "iter_mut";
                        for x in model.iter_mut() {
                            *x += 2;
                        }
                        guarded(|| {
                            for t in aot.iter_mut() {
                                let v = id(t);
                                t.insert("id", toml_edit::value(v + 2));
                            }
                        })
                    }
                }
            };
            log.push(format!("{name}#{step}"));
            ctx.count(&format!("calls/ArrayOfTables/{name}"));
            ctx.set_input(&format!("ArrayOfTables: {log:?}"));
            if let Err((loc, msg)) = r {
                ctx.violation(&format!("panic:{}", crate::short_loc(&loc)), format!("ArrayOfTables::{name} panicked at {loc}: {msg}"));
                return;
            }
            let got: Vec<i64> = aot.iter().map(id).collect();
            let gets: Vec<Option<i64>> = (0..len + 2).map(|i| aot.get(i).map(id)).collect();
            let want_gets: Vec<Option<i64>> = (0..len + 2).map(|i| model.get(i).copied()).collect();
            ctx.count("observations");
            if got != model || aot.len() != model.len() || aot.is_empty() != model.is_empty() || gets != want_gets {
                ctx.violation(&format!("state-differs:ArrayOfTables:{name}"), format!("after {log:?}: iter() = {got:?}, len {}, get = {gets:?}; reference vector {model:?}", aot.len()));
                return;
            }
            // the same sequence through the consuming ways out
            let r2 = guarded(|| {
                let by_into_iter: Vec<i64> = aot.clone().into_iter().map(|t| id(&t)).collect();
                let inline_id = |v: &Value| v.as_inline_table().and_then(|t| t.get("id")).and_then(|v| v.as_integer()).unwrap_or(i64::MIN);
                let by_into_array: Vec<i64> = aot.clone().into_array().iter().map(inline_id).collect();
                let by_into_value: Vec<i64> = Item::ArrayOfTables(aot.clone()).into_value().ok().and_then(|v| v.as_array().map(|a| a.iter().map(inline_id).collect())).unwrap_or_default();
                let mut it = Item::ArrayOfTables(aot.clone());
                it.make_value();
                let by_make_value: Vec<i64> = it.as_array().map(|a| a.iter().map(inline_id).collect()).unwrap_or_default();
                [("into_iter", by_into_iter), ("into_array", by_into_array), ("Item::into_value", by_into_value), ("Item::make_value", by_make_value)]
            });
            match r2 {
                Err((loc, msg)) => {
                    ctx.violation(&format!("panic:{}", crate::short_loc(&loc)), format!("consuming an ArrayOfTables panicked at {loc}: {msg}"));
                    return;
                }
                Ok(ways) => {
                    for (way, seq) in ways {
                        if seq != model {
                            ctx.violation(&format!("state-differs:ArrayOfTables:{way}"), format!("after {log:?}: {way} yields {seq:?}; reference vector {model:?}"));
                            return;
                        }
                    }
                }
            }
            if !model.is_empty() && !positions_disagree {
                let mut root = Table::new();
                root.insert("t", Item::ArrayOfTables(aot.clone()));
                let doc: toml_edit::DocumentMut = root.into();
                let text = doc.to_string();
                let d = decode(&text);
                let ok = d.verdict == Verdict::Valid
                    && d.tree.as_ref().and_then(|t| t.as_table()).and_then(|t| t.get("t")).map_or(false, |v| match v {
                        RVal::Array(a) => a.len() == model.len() && a.iter().zip(model.iter()).all(|(x, m)| x.as_table().and_then(|t| t.get("id")) == Some(&RVal::Int(*m))),
                        _ => false,
                    });
                if !ok {
                    ctx.violation("state-differs:ArrayOfTables:print", format!("after {log:?}: printed {text:?}; reference {model:?}"));
                    return;
                }
            }
        }
        ctx.nontrivial(hash_bytes(format!("{log:?}{model:?}").as_bytes()));
        let _ = KeyOrder::Exact;
    }
}

// ------------------------------------------------------------------ sorting through dotted children

/// a table whose children are leaves, dotted tables (`a.b = 1`: part of the parent's key/value
/// pairs, so sorting the parent sorts them too) or tables of their own (left alone)
#[derive(Clone, Debug, PartialEq)]
enum DT {
    Leaf(i64),
    Dotted(Vec<(String, DT)>),
    Own(Vec<(String, DT)>),
}

fn gen_dt(rng: &mut Rng, depth: usize, counter: &mut i64) -> Vec<(String, DT)> {
    let mut keys = vec!["m", "z", "a", "q", "b"];
    rng.shuffle(&mut keys);
    let n = rng.below(5);
    let mut out = Vec::new();
    for k in keys.into_iter().take(n) {
        *counter += 1;
        let v = match rng.below(6) {
            0 | 1 if depth < 3 => DT::Dotted(gen_dt(rng, depth + 1, counter)),
            2 if depth < 3 => DT::Own(gen_dt(rng, depth + 1, counter)),
            _ => DT::Leaf(*counter),
        };
        out.push((k.to_string(), v));
    }
    out
}

fn dt_table(e: &[(String, DT)], dotted: bool) -> Table {
    let mut t = Table::new();
    t.set_dotted(dotted);
    for (k, v) in e {
        let item = match v {
            DT::Leaf(i) => toml_edit::value(*i),
            DT::Dotted(c) => Item::Table(dt_table(c, true)),
            DT::Own(c) => Item::Table(dt_table(c, false)),
        };
        t.insert(k, item);
    }
    t
}

fn dt_inline(e: &[(String, DT)], dotted: bool) -> InlineTable {
    let mut t = InlineTable::new();
    t.set_dotted(dotted);
    for (k, v) in e {
        let val = match v {
            DT::Leaf(i) => Value::from(*i),
            DT::Dotted(c) => Value::InlineTable(dt_inline(c, true)),
            DT::Own(c) => Value::InlineTable(dt_inline(c, false)),
        };
        t.insert(k, val);
    }
    t
}

fn dt_of_table(t: &Table) -> Vec<(String, DT)> {
    t.iter()
        .map(|(k, v)| {
            let v = match v {
                Item::Table(c) if c.is_dotted() => DT::Dotted(dt_of_table(c)),
                Item::Table(c) => DT::Own(dt_of_table(c)),
                other => DT::Leaf(other.as_integer().unwrap_or(i64::MIN)),
            };
            (k.to_string(), v)
        })
        .collect()
}

fn dt_of_inline(t: &InlineTable) -> Vec<(String, DT)> {
    t.iter()
        .map(|(k, v)| {
            let v = match v {
                Value::InlineTable(c) if c.is_dotted() => DT::Dotted(dt_of_inline(c)),
                Value::InlineTable(c) => DT::Own(dt_of_inline(c)),
                other => DT::Leaf(other.as_integer().unwrap_or(i64::MIN)),
            };
            (k.to_string(), v)
        })
        .collect()
}

/// the reference: sort this level, then every dotted child; `rev` = descending keys
fn dt_sorted(e: &[(String, DT)], rev: bool) -> Vec<(String, DT)> {
    let mut v: Vec<(String, DT)> = e
        .iter()
        .map(|(k, c)| {
            let c = match c {
                DT::Dotted(c) => DT::Dotted(dt_sorted(c, rev)),
                other => other.clone(),
            };
            (k.clone(), c)
        })
        .collect();
    v.sort_by(|a, b| if rev { b.0.cmp(&a.0) } else { a.0.cmp(&b.0) });
    v
}

impl C16 {
    fn run_sort_dotted(&mut self, ctx: &mut Ctx, rng: &mut Rng) {
        let mut counter = 0;
        let tree = gen_dt(rng, 0, &mut counter);
        ctx.set_input(&format!("sort through dotted children: {tree:?}"));
        ctx.nontrivial(hash_bytes(format!("{tree:?}").as_bytes()));
        ctx.count(&format!("sort-dotted/top-level-entries-{}", tree.len()));
        let r = guarded(|| {
            let mut out: Vec<(&'static str, Vec<(String, DT)>, bool)> = Vec::new();
            let mut t = dt_table(&tree, false);
            t.sort_values();
            out.push(("Table::sort_values", dt_of_table(&t), false));
            let mut t = dt_table(&tree, false);
            t.sort_values_by(|k1, _, k2, _| k1.get().cmp(k2.get()));
            out.push(("Table::sort_values_by", dt_of_table(&t), false));
            let mut t = dt_table(&tree, false);
            t.sort_values_by(|k1, _, k2, _| k2.get().cmp(k1.get()));
            out.push(("Table::sort_values_by (descending)", dt_of_table(&t), true));
            let mut t = dt_inline(&tree, false);
            t.sort_values();
            out.push(("InlineTable::sort_values", dt_of_inline(&t), false));
            let mut t = dt_inline(&tree, false);
            t.sort_values_by(|k1, _, k2, _| k1.get().cmp(k2.get()));
            out.push(("InlineTable::sort_values_by", dt_of_inline(&t), false));
            let mut t = dt_inline(&tree, false);
            t.sort_values_by(|k1, _, k2, _| k2.get().cmp(k1.get()));
            out.push(("InlineTable::sort_values_by (descending)", dt_of_inline(&t), true));
            // through the shared view
            let mut t = dt_table(&tree, false);
            (&mut t as &mut dyn TableLike).sort_values();
            out.push(("dyn TableLike(Table)::sort_values", dt_of_table(&t), false));
            let mut t = dt_inline(&tree, false);
            (&mut t as &mut dyn TableLike).sort_values();
            out.push(("dyn TableLike(InlineTable)::sort_values", dt_of_inline(&t), false));
            out
        });
        match r {
            Err((loc, msg)) => ctx.violation(&format!("panic:{}", crate::short_loc(&loc)), format!("sorting panicked at {loc}: {msg}")),
            Ok(out) => {
                for (what, got, rev) in out {
                    ctx.count("observations");
                    let want = dt_sorted(&tree, rev);
                    if got != want {
                        ctx.violation(&format!("state-differs:{what}:dotted-children"), format!("{what} on {tree:?} leaves {got:?}; sorting every level that belongs to the table's own key/value pairs gives {want:?}"));
                        return;
                    }
                }
            }
        }
    }
}

impl Check for C16 {
    fn id(&self) -> &'static str {
        "C16"
    }
    fn workloads(&mut self, tier: Tier, _seed: u64) -> Vec<(String, u64)> {
        let k = if tier == Tier::Quick { 10 } else { 120 };
        vec![
            ("Table".into(), 16_000 * k),
            ("InlineTable".into(), 12_000 * k),
            ("dyn TableLike(Table)".into(), 8_000 * k),
            ("dyn TableLike(InlineTable)".into(), 8_000 * k),
            ("toml::Map".into(), 12_000 * k),
            ("Array".into(), 8_000 * k),
            ("ArrayOfTables".into(), 6_000 * k),
            ("sort-dotted".into(), 4_000 * k),
        ]
    }
    fn run(&mut self, ctx: &mut Ctx, workload: &str, _index: u64, rng: &mut Rng) {
        ctx.eval();
        match workload {
            "Table" => self.run_keyed(ctx, rng, Kind::Table),
            "InlineTable" => self.run_keyed(ctx, rng, Kind::Inline),
            "dyn TableLike(Table)" => self.run_keyed(ctx, rng, Kind::DynTable),
            "dyn TableLike(InlineTable)" => self.run_keyed(ctx, rng, Kind::DynInline),
            "toml::Map" => self.run_keyed(ctx, rng, Kind::Map),
            "Array" => self.run_array(ctx, rng),
            "ArrayOfTables" => self.run_aot(ctx, rng),
            "sort-dotted" => self.run_sort_dotted(ctx, rng),
            other => ctx.inconclusive(format!("unknown workload {other}")),
        }
    }
}
