//! C14 — spans point at exactly the source text of each item.

use crate::ctx::{guarded, Ctx, Tier};
use crate::docs;
use crate::obs;
use crate::Check;
use refmodel::decode::{decode, Decoded, KeySeg, PKind, PVal, Span, Stmt, Verdict, U1};
use refmodel::rng::{hash_bytes, Rng};
use refmodel::rval::KeyOrder;
use serde::de::{self, Deserialize, Deserializer, MapAccess, SeqAccess, Visitor};
use serde_spanned::Spanned;
use std::collections::HashMap;
use std::str::FromStr;

pub struct C14;

pub const SEP: char = '\u{1f}';

/// what R's lexer says about the source text, keyed by item identity
#[derive(Default)]
pub struct Expected {
    /// leaf key occurrence that defines the entry
    pub key_span: HashMap<String, Span>,
    /// every occurrence of a table name
    pub table_key_occ: HashMap<String, Vec<Span>>,
    pub value_span: HashMap<String, Span>,
    /// tables with a header of their own: header start .. end of the last value of the section
    pub table_span: HashMap<String, Span>,
    pub root_span: Span,
}

pub fn join(base: &str, name: &str) -> String {
    if base.is_empty() {
        format!("{name:?}")
    } else {
        format!("{base}{SEP}{name:?}")
    }
}

fn record_value(e: &mut Expected, id: &str, v: &PVal) {
    e.value_span.insert(id.to_string(), v.span);
    match &v.kind {
        PKind::Scalar(_) => {}
        PKind::Array(a) => {
            for (i, x) in a.iter().enumerate() {
                record_value(e, &format!("{id}{SEP}[{i}]"), x);
            }
        }
        PKind::Inline(pairs) => {
            for (path, val) in pairs {
                let mut cur = id.to_string();
                for (j, seg) in path.iter().enumerate() {
                    cur = join(&cur, &seg.name);
                    if j + 1 < path.len() {
                        e.table_key_occ.entry(cur.clone()).or_default().push(seg.span);
                    } else {
                        e.key_span.insert(cur.clone(), seg.span);
                    }
                }
                record_value(e, &cur, val);
            }
        }
    }
}

pub fn expected_spans(d: &Decoded) -> Expected {
    let mut e = Expected::default();
    let mut aot_count: HashMap<String, usize> = HashMap::new();
    let mut cur = String::new();
    let mut root_end = 0usize;
    let mut cur_is_root = true;
    let resolve = |aot_count: &HashMap<String, usize>, base: &str, seg: &KeySeg| -> String {
        let p = join(base, &seg.name);
        match aot_count.get(&p) {
            Some(n) => format!("{p}{SEP}#{}", n - 1),
            None => p,
        }
    };
    for s in &d.stmts {
        match s {
            Stmt::Header { path, array, span } => {
                let mut base = String::new();
                for seg in &path[..path.len() - 1] {
                    let p = join(&base, &seg.name);
                    e.table_key_occ.entry(p.clone()).or_default().push(seg.span);
                    base = resolve(&aot_count, &base, seg);
                }
                let last = &path[path.len() - 1];
                let p = join(&base, &last.name);
                e.table_key_occ.entry(p.clone()).or_default().push(last.span);
                if *array {
                    let n = aot_count.entry(p.clone()).or_insert(0);
                    *n += 1;
                    cur = format!("{p}{SEP}#{}", *n - 1);
                } else {
                    cur = p;
                }
                e.table_span.insert(cur.clone(), *span);
                cur_is_root = false;
            }
            Stmt::KeyVal { path, val, .. } => {
                let mut id = cur.clone();
                for (j, seg) in path.iter().enumerate() {
                    id = join(&id, &seg.name);
                    if j + 1 < path.len() {
                        e.table_key_occ.entry(id.clone()).or_default().push(seg.span);
                    } else {
                        e.key_span.insert(id.clone(), seg.span);
                    }
                }
                record_value(&mut e, &id, val);
                if cur_is_root {
                    root_end = val.span.1;
                } else if let Some(ts) = e.table_span.get_mut(&cur) {
                    ts.1 = val.span.1;
                }
            }
        }
    }
    e.root_span = (0, root_end);
    e
}

struct Walk<'a> {
    text: &'a str,
    exp: &'a Expected,
    problems: Vec<(String, String)>,
    checked: HashMap<&'static str, u64>,
}

impl<'a> Walk<'a> {
    fn bump(&mut self, k: &'static str) {
        *self.checked.entry(k).or_insert(0) += 1;
    }
    fn bad(&mut self, sig: &str, msg: String) {
        if self.problems.len() < 8 {
            self.problems.push((sig.to_string(), msg));
        }
    }
    /// in bounds, on char boundaries, not inverted
    fn sane(&mut self, what: &str, id: &str, sp: &std::ops::Range<usize>) -> bool {
        if sp.start > sp.end || sp.end > self.text.len() || !self.text.is_char_boundary(sp.start) || !self.text.is_char_boundary(sp.end) {
            self.bad("span-out-of-bounds-or-off-boundary", format!("{what} span {sp:?} of `{id}` is inverted, outside 0..={} or not on a character boundary", self.text.len()));
            return false;
        }
        true
    }
    fn inside(&mut self, what: &str, id: &str, child: &std::ops::Range<usize>, parent: &Option<std::ops::Range<usize>>) {
        if let Some(p) = parent {
            if child.start < p.start || child.end > p.end {
                self.bad("child-span-outside-parent", format!("{what} span {child:?} of `{id}` is not inside its parent's {p:?}"));
            }
        }
    }

    fn key(&mut self, id: &str, key: Option<&toml_edit::Key>, is_table: bool, parent: &Option<std::ops::Range<usize>>, name: &str) {
        let key = match key {
            Some(k) => k,
            None => {
                self.bad("key-missing", format!("no Key object for `{id}`"));
                return;
            }
        };
        let sp = match key.span() {
            Some(s) => s,
            None => {
                self.bad("span-missing", format!("key `{id}` of a parsed document has no span"));
                return;
            }
        };
        if !self.sane("key", id, &sp) {
            return;
        }
        self.bump("key");
        if is_table {
            let occ = self.exp.table_key_occ.get(id);
            if !occ.map_or(false, |o| o.contains(&(sp.start, sp.end))) {
                self.bad("key-span-differs", format!("table key `{id}` has span {sp:?}; its name occurs at {occ:?}"));
            }
        } else {
            match self.exp.key_span.get(id) {
                Some(&(a, b)) if a == sp.start && b == sp.end => {}
                other => self.bad("key-span-differs", format!("key `{id}` has span {sp:?}, the source token is at {other:?}")),
            }
            self.inside("key", id, &sp, parent);
        }
        // the slice re-parses to the key
        let slice = &self.text[sp.clone()];
        match toml_edit::Key::from_str(slice) {
            Ok(k) if k.get() == name => {}
            other => self.bad("key-slice-does-not-reparse", format!("text {slice:?} at the span of `{id}` re-parses to {:?}, not {name:?}", other.map(|k| k.get().to_string()).map_err(|e| e.to_string()))),
        }
    }

    fn value(&mut self, id: &str, v: &toml_edit::Value, parent: &Option<std::ops::Range<usize>>) {
        let dotted_inline = v.as_inline_table().map_or(false, |t| t.is_dotted());
        let sp = match v.span() {
            Some(s) => s,
            None => {
                if !dotted_inline {
                    self.bad("span-missing", format!("value `{id}` of a parsed document has no span"));
                }
                if let Some(t) = v.as_inline_table() {
                    // a table spelled only through dotted keys has no token of its own
                    for (k, x) in t.iter() {
                        let cid = join(id, k);
                        let is_tbl = x.as_inline_table().map_or(false, |t| t.is_dotted());
                        self.key(&cid, t.key(k), is_tbl, parent, k);
                        self.value(&cid, x, parent);
                    }
                }
                return;
            }
        };
        if !self.sane("value", id, &sp) {
            return;
        }
        self.bump("value");
        match self.exp.value_span.get(id) {
            Some(&(a, b)) if a == sp.start && b == sp.end => {}
            other => self.bad("value-span-differs", format!("value `{id}` has span {sp:?}, the source token is at {other:?} ({:?})", other.map(|(a, b)| &self.text[*a..*b]))),
        }
        self.inside("value", id, &sp, parent);
        let slice = &self.text[sp.clone()];
        match toml_edit::Value::from_str(slice) {
            Ok(v2) => {
                if obs::edit_value_to_r(v).diff(&obs::edit_value_to_r(&v2), KeyOrder::Exact).is_some() {
                    self.bad("value-slice-does-not-reparse", format!("text {slice:?} at the span of `{id}` re-parses to a different value"));
                }
            }
            Err(e) => self.bad("value-slice-does-not-reparse", format!("text {slice:?} at the span of `{id}` does not re-parse: {e}")),
        }
        let me = Some(sp);
        match v {
            toml_edit::Value::Array(a) => {
                for (i, x) in a.iter().enumerate() {
                    self.value(&format!("{id}{SEP}[{i}]"), x, &me);
                }
            }
            toml_edit::Value::InlineTable(t) => {
                for (k, x) in t.iter() {
                    let cid = join(id, k);
                    let is_tbl = x.as_inline_table().map_or(false, |t| t.is_dotted());
                    self.key(&cid, t.key(k), is_tbl, &me, k);
                    self.value(&cid, x, &me);
                }
            }
            _ => {}
        }
    }

    fn table(&mut self, id: &str, t: &toml_edit::Table, is_root: bool) {
        let tsp = t.span();
        let expected = if is_root { Some(self.exp.root_span) } else { self.exp.table_span.get(id).copied() };
        match (&tsp, expected) {
            (Some(s), Some((a, b))) => {
                if self.sane("table", id, s) {
                    self.bump("table");
                    if s.start != a || s.end != b {
                        self.bad("table-span-differs", format!("table `{id}` has span {s:?}; header-to-last-value is {:?}", (a, b)));
                    }
                }
            }
            (None, None) => {}
            (Some(s), None) => self.bad("table-span-differs", format!("table `{id}` has span {s:?} but no header of its own in the source")),
            (None, Some(x)) => self.bad("span-missing", format!("table `{id}` with a header at {x:?} has no span")),
        }
        for (k, item) in t.iter() {
            let cid = join(id, k);
            match item {
                toml_edit::Item::Value(v) => {
                    // dotted children live lexically in the section of their nearest headed ancestor
                    let parent = if t.is_dotted() { None } else { tsp.clone() };
                    self.key(&cid, t.key(k), false, &parent, k);
                    self.value(&cid, v, &parent);
                }
                toml_edit::Item::Table(sub) => {
                    self.key(&cid, t.key(k), true, &None, k);
                    self.table(&cid, sub, false);
                }
                toml_edit::Item::ArrayOfTables(a) => {
                    self.key(&cid, t.key(k), true, &None, k);
                    let asp = a.span();
                    let mut first = None;
                    let mut last = None;
                    for (i, el) in a.iter().enumerate() {
                        let eid = format!("{cid}{SEP}#{i}");
                        self.table(&eid, el, false);
                        if let Some(s) = el.span() {
                            if first.is_none() {
                                first = Some(s.start);
                            }
                            last = Some(s.end);
                            if let Some(p) = &asp {
                                if s.start < p.start || s.end > p.end {
                                    self.bad("child-span-outside-parent", format!("element {i} of `{cid}` at {s:?} is outside the array of tables' span {p:?}"));
                                }
                            }
                        }
                    }
                    match (&asp, first, last) {
                        (Some(s), Some(f), Some(l)) => {
                            self.bump("array-of-tables");
                            if self.sane("array of tables", &cid, s) && (s.start != f || s.end != l) {
                                self.bad("aot-span-differs", format!("array of tables `{cid}` has span {s:?}; first-to-last element is {f}..{l}"));
                            }
                        }
                        (None, _, _) => self.bad("span-missing", format!("array of tables `{cid}` has no span")),
                        _ => {}
                    }
                }
                toml_edit::Item::None => {}
            }
        }
    }
}

// ---------------------------------------------------------------- serde-delivered spans

/// a map key that takes a span when the deserializer offers one (real table keys) and a plain
/// string otherwise (the private marker key under which a date-time is presented)
#[derive(Debug)]
struct SpKey {
    span: Option<std::ops::Range<usize>>,
    name: String,
}

impl SpKey {
    fn get_ref(&self) -> &String {
        &self.name
    }
    fn span(&self) -> std::ops::Range<usize> {
        self.span.clone().unwrap_or(usize::MAX..usize::MAX)
    }
}

impl<'de> Deserialize<'de> for SpKey {
    fn deserialize<D: Deserializer<'de>>(d: D) -> Result<Self, D::Error> {
        use serde_spanned::__unstable::{END_FIELD, NAME, START_FIELD, VALUE_FIELD};
        struct V;
        impl<'de> Visitor<'de> for V {
            type Value = SpKey;
            fn expecting(&self, f: &mut std::fmt::Formatter<'_>) -> std::fmt::Result {
                f.write_str("a key, spanned or plain")
            }
            fn visit_str<E>(self, v: &str) -> Result<SpKey, E> {
                Ok(SpKey { span: None, name: v.to_string() })
            }
            fn visit_string<E>(self, v: String) -> Result<SpKey, E> {
                Ok(SpKey { span: None, name: v })
            }
            fn visit_map<A: MapAccess<'de>>(self, mut m: A) -> Result<SpKey, A::Error> {
                let (mut st, mut en, mut val) = (None, None, None);
                while let Some(k) = m.next_key::<String>()? {
                    if k == START_FIELD {
                        st = Some(m.next_value::<usize>()?);
                    } else if k == END_FIELD {
                        en = Some(m.next_value::<usize>()?);
                    } else if k == VALUE_FIELD {
                        val = Some(m.next_value::<String>()?);
                    } else {
                        return Err(de::Error::custom(format!("unexpected field {k} in a spanned key")));
                    }
                }
                match (st, en, val) {
                    (Some(a), Some(b), Some(v)) => Ok(SpKey { span: Some(a..b), name: v }),
                    _ => Err(de::Error::custom("incomplete spanned key")),
                }
            }
        }
        static FIELDS: [&str; 3] = [START_FIELD, END_FIELD, VALUE_FIELD];
        d.deserialize_struct(NAME, &FIELDS, V)
    }
}

/// a (non-transparent) newtype struct around a spanned key, as a user type for map keys would be
#[derive(Debug, serde::Deserialize)]
struct NtKey(Spanned<String>);

/// the other nesting: a user's key type (newtype struct, not transparent), asked for with its span
#[derive(Debug, serde::Deserialize)]
struct KeyName(String);

/// the keys of a table, each taken as `Spanned<KeyName>`; the values are skipped
struct RootSpannedNames(Vec<Spanned<KeyName>>);

impl<'de> Deserialize<'de> for RootSpannedNames {
    fn deserialize<D: Deserializer<'de>>(d: D) -> Result<Self, D::Error> {
        struct V;
        impl<'de> Visitor<'de> for V {
            type Value = RootSpannedNames;
            fn expecting(&self, f: &mut std::fmt::Formatter<'_>) -> std::fmt::Result {
                f.write_str("a table")
            }
            fn visit_map<A: MapAccess<'de>>(self, mut map: A) -> Result<RootSpannedNames, A::Error> {
                let mut v = Vec::new();
                while let Some(k) = map.next_key::<Spanned<KeyName>>()? {
                    map.next_value::<de::IgnoredAny>()?;
                    v.push(k);
                }
                Ok(RootSpannedNames(v))
            }
        }
        d.deserialize_map(V)
    }
}

/// the keys of a table, each taken as `NtKey`; the values are skipped
struct RootKeys(Vec<NtKey>);

impl<'de> Deserialize<'de> for RootKeys {
    fn deserialize<D: Deserializer<'de>>(d: D) -> Result<Self, D::Error> {
        struct V;
        impl<'de> Visitor<'de> for V {
            type Value = RootKeys;
            fn expecting(&self, f: &mut std::fmt::Formatter<'_>) -> std::fmt::Result {
                f.write_str("a table")
            }
            fn visit_map<A: MapAccess<'de>>(self, mut map: A) -> Result<RootKeys, A::Error> {
                let mut v = Vec::new();
                while let Some(k) = map.next_key::<NtKey>()? {
                    map.next_value::<de::IgnoredAny>()?;
                    v.push(k);
                }
                Ok(RootKeys(v))
            }
        }
        d.deserialize_map(V)
    }
}

/// Strict tree: every value is wrapped in `Spanned<_>` (used only to see whether wrapping changes
/// success or the decoded value).
#[derive(Debug)]
enum StrictNode {
    Table(Vec<(SpKey, Spanned<StrictNode>)>),
    Array(Vec<Spanned<StrictNode>>),
    Scalar(toml::Value),
}

/// Tolerant tree: takes a span where the deserializer offers one and records `None` otherwise.
#[derive(Debug)]
struct SpTree {
    span: Option<std::ops::Range<usize>>,
    node: SpNode,
}

#[derive(Debug)]
enum SpNode {
    Table(Vec<(SpKey, SpTree)>),
    Array(Vec<SpTree>),
    Scalar(toml::Value),
}

macro_rules! scalar_visits {
    ($out:ty, $wrap:expr) => {
        fn visit_bool<E>(self, v: bool) -> Result<$out, E> {
            Ok($wrap(toml::Value::Boolean(v)))
        }
        fn visit_i64<E>(self, v: i64) -> Result<$out, E> {
            Ok($wrap(toml::Value::Integer(v)))
        }
        fn visit_f64<E>(self, v: f64) -> Result<$out, E> {
            Ok($wrap(toml::Value::Float(v)))
        }
        fn visit_str<E>(self, v: &str) -> Result<$out, E> {
            Ok($wrap(toml::Value::String(v.to_string())))
        }
        fn visit_string<E>(self, v: String) -> Result<$out, E> {
            Ok($wrap(toml::Value::String(v)))
        }
    };
}

const DT_KEY: &str = "$__toml_private_datetime";

impl<'de> Deserialize<'de> for StrictNode {
    fn deserialize<D: Deserializer<'de>>(d: D) -> Result<Self, D::Error> {
        struct V;
        impl<'de> Visitor<'de> for V {
            type Value = StrictNode;
            fn expecting(&self, f: &mut std::fmt::Formatter<'_>) -> std::fmt::Result {
                f.write_str("any TOML value")
            }
            scalar_visits!(StrictNode, StrictNode::Scalar);
            fn visit_seq<A: SeqAccess<'de>>(self, mut seq: A) -> Result<StrictNode, A::Error> {
                let mut v = Vec::new();
                while let Some(x) = seq.next_element::<Spanned<StrictNode>>()? {
                    v.push(x);
                }
                Ok(StrictNode::Array(v))
            }
            fn visit_map<A: MapAccess<'de>>(self, mut map: A) -> Result<StrictNode, A::Error> {
                let mut v = Vec::new();
                while let Some(k) = map.next_key::<SpKey>()? {
                    if k.name == DT_KEY {
                        let s: String = map.next_value()?;
                        let d = toml_datetime::Datetime::from_str(&s).map_err(de::Error::custom)?;
                        return Ok(StrictNode::Scalar(toml::Value::Datetime(d)));
                    }
                    let x = map.next_value::<Spanned<StrictNode>>()?;
                    v.push((k, x));
                }
                Ok(StrictNode::Table(v))
            }
        }
        d.deserialize_any(V)
    }
}

fn strict_to_value(n: &StrictNode) -> toml::Value {
    match n {
        StrictNode::Scalar(v) => v.clone(),
        StrictNode::Array(a) => toml::Value::Array(a.iter().map(|x| strict_to_value(x.get_ref())).collect()),
        StrictNode::Table(t) => toml::Value::Table(t.iter().map(|(k, v)| (k.name.clone(), strict_to_value(v.get_ref()))).collect()),
    }
}

fn finish_table<'de, A: MapAccess<'de>>(first: SpKey, mut map: A) -> Result<SpNode, A::Error> {
    let mut v = Vec::new();
    let mut key = Some(first);
    while let Some(k) = key.take() {
        if k.name == DT_KEY {
            let s: String = map.next_value()?;
            let d = toml_datetime::Datetime::from_str(&s).map_err(de::Error::custom)?;
            return Ok(SpNode::Scalar(toml::Value::Datetime(d)));
        }
        let x = map.next_value::<SpTree>()?;
        v.push((k, x));
        key = map.next_key::<SpKey>()?;
    }
    Ok(SpNode::Table(v))
}

impl<'de> Deserialize<'de> for SpTree {
    fn deserialize<D: Deserializer<'de>>(d: D) -> Result<Self, D::Error> {
        use serde_spanned::__unstable::{END_FIELD, NAME, START_FIELD, VALUE_FIELD};
        struct V;
        impl<'de> Visitor<'de> for V {
            type Value = SpTree;
            fn expecting(&self, f: &mut std::fmt::Formatter<'_>) -> std::fmt::Result {
                f.write_str("a value, spanned or not")
            }
            scalar_visits!(SpTree, |v| SpTree { span: None, node: SpNode::Scalar(v) });
            fn visit_seq<A: SeqAccess<'de>>(self, mut seq: A) -> Result<SpTree, A::Error> {
                let mut v = Vec::new();
                while let Some(x) = seq.next_element::<SpTree>()? {
                    v.push(x);
                }
                Ok(SpTree { span: None, node: SpNode::Array(v) })
            }
            fn visit_map<A: MapAccess<'de>>(self, mut m: A) -> Result<SpTree, A::Error> {
                let first = match m.next_key::<SpKey>()? {
                    None => return Ok(SpTree { span: None, node: SpNode::Table(Vec::new()) }),
                    Some(k) => k,
                };
                if first.span.is_none() && first.name == START_FIELD {
                    let st: usize = m.next_value()?;
                    let (mut en, mut node) = (None, None);
                    while let Some(k) = m.next_key::<String>()? {
                        if k == END_FIELD {
                            en = Some(m.next_value::<usize>()?);
                        } else if k == VALUE_FIELD {
                            node = Some(m.next_value::<SpNode>()?);
                        } else {
                            return Err(de::Error::custom(format!("unexpected field {k} in a spanned value")));
                        }
                    }
                    match (en, node) {
                        (Some(en), Some(node)) => Ok(SpTree { span: Some(st..en), node }),
                        _ => Err(de::Error::custom("incomplete spanned value")),
                    }
                } else {
                    // the deserializer had no span for this item and presents the table itself
                    Ok(SpTree { span: None, node: finish_table(first, m)? })
                }
            }
        }
        static FIELDS: [&str; 3] = [START_FIELD, END_FIELD, VALUE_FIELD];
        d.deserialize_struct(NAME, &FIELDS, V)
    }
}

impl<'de> Deserialize<'de> for SpNode {
    fn deserialize<D: Deserializer<'de>>(d: D) -> Result<Self, D::Error> {
        struct V;
        impl<'de> Visitor<'de> for V {
            type Value = SpNode;
            fn expecting(&self, f: &mut std::fmt::Formatter<'_>) -> std::fmt::Result {
                f.write_str("any TOML value")
            }
            scalar_visits!(SpNode, SpNode::Scalar);
            fn visit_seq<A: SeqAccess<'de>>(self, mut seq: A) -> Result<SpNode, A::Error> {
                let mut v = Vec::new();
                while let Some(x) = seq.next_element::<SpTree>()? {
                    v.push(x);
                }
                Ok(SpNode::Array(v))
            }
            fn visit_map<A: MapAccess<'de>>(self, mut map: A) -> Result<SpNode, A::Error> {
                match map.next_key::<SpKey>()? {
                    None => Ok(SpNode::Table(Vec::new())),
                    Some(first) => finish_table(first, map),
                }
            }
        }
        d.deserialize_any(V)
    }
}

fn sp_to_value(n: &SpNode) -> toml::Value {
    match n {
        SpNode::Scalar(v) => v.clone(),
        SpNode::Array(a) => toml::Value::Array(a.iter().map(|x| sp_to_value(&x.node)).collect()),
        SpNode::Table(t) => toml::Value::Table(t.iter().map(|(k, v)| (k.name.clone(), sp_to_value(&v.node))).collect()),
    }
}

/// compare serde-delivered spans with the item spans of the ImDocument
fn compare_serde(w: &mut Walk<'_>, id: &str, n: &SpTree, item: SpItem<'_>) {
    let item_span = match item {
        SpItem::Item(i) => i.span(),
        SpItem::Value(v) => v.span(),
    };
    let got = n.span.clone();
    w.bump("serde-value-span");
    match (&item_span, &got) {
        (Some(s), Some(g)) => {
            if s != g {
                w.bad("serde-span-differs", format!("a spanned request at `{id}` delivers {g:?}, the item's span is {s:?}"));
            }
        }
        (Some(s), None) => w.bad("serde-span-missing", format!("a spanned request at `{id}` is answered without a span although the item has one ({s:?})")),
        (None, Some(g)) => w.bad("serde-span-differs", format!("a spanned request at `{id}` delivers {g:?} although the item has no span")),
        (None, None) => w.bump("serde-span-of-item-without-token"),
    }
    match (&n.node, item) {
        (SpNode::Table(entries), it) => {
            for (k, v) in entries {
                let cid = join(id, k.get_ref());
                let (key, child): (Option<&toml_edit::Key>, Option<SpItem<'_>>) = match it {
                    SpItem::Item(toml_edit::Item::Table(t)) => (t.key(k.get_ref()), t.get(k.get_ref()).map(SpItem::Item)),
                    SpItem::Item(toml_edit::Item::Value(toml_edit::Value::InlineTable(t))) | SpItem::Value(toml_edit::Value::InlineTable(t)) => (t.key(k.get_ref()), t.get(k.get_ref()).map(SpItem::Value)),
                    _ => (None, None),
                };
                w.bump("serde-key-span");
                match key.and_then(|k| k.span()) {
                    Some(ks) => {
                        if ks != k.span() {
                            w.bad("serde-key-span-differs", format!("Spanned<String> key `{cid}` delivers {:?}, the key's span is {ks:?}", k.span()));
                        }
                    }
                    None => w.bad("serde-key-span-differs", format!("Spanned<String> key `{cid}` delivers {:?} but the key has no span / does not exist", k.span())),
                }
                if let Some(c) = child {
                    compare_serde(w, &cid, v, c);
                } else {
                    w.bad("serde-structure-differs", format!("`{cid}` exists for serde but not in the document"));
                }
            }
        }
        (SpNode::Array(elems), it) => {
            for (i, v) in elems.iter().enumerate() {
                let cid = format!("{id}{SEP}[{i}]");
                match it {
                    SpItem::Item(toml_edit::Item::Value(toml_edit::Value::Array(a))) | SpItem::Value(toml_edit::Value::Array(a)) => {
                        if let Some(x) = a.get(i) {
                            compare_serde(w, &cid, v, SpItem::Value(x));
                        }
                    }
                    SpItem::Item(toml_edit::Item::ArrayOfTables(a)) => {
                        if let Some(t) = a.get(i) {
                            // elements are tables: compare through a temporary Item view
                            let got = v.span.clone();
                            w.bump("serde-value-span");
                            if t.span() != got {
                                w.bad("serde-span-differs", format!("a spanned request at `{cid}` delivers {got:?}, the element's span is {:?}", t.span()));
                            }
                            if let SpNode::Table(entries) = &v.node {
                                for (k, vv) in entries {
                                    let ccid = join(&cid, k.get_ref());
                                    w.bump("serde-key-span");
                                    match t.key(k.get_ref()).and_then(|k| k.span()) {
                                        Some(ks) if ks == k.span() => {}
                                        other => w.bad("serde-key-span-differs", format!("Spanned<String> key `{ccid}` delivers {:?}, the key's span is {other:?}", k.span())),
                                    }
                                    if let Some(c) = t.get(k.get_ref()) {
                                        compare_serde(w, &ccid, vv, SpItem::Item(c));
                                    }
                                }
                            }
                        }
                    }
                    _ => {}
                }
            }
        }
        _ => {}
    }
}

#[derive(Clone, Copy)]
enum SpItem<'a> {
    Item(&'a toml_edit::Item),
    Value(&'a toml_edit::Value),
}

fn any_span_left(item: &toml_edit::Item) -> Option<String> {
    // iterative: after into_mut nothing may carry a span
    let mut stack: Vec<(String, SpItem<'_>)> = vec![("".into(), SpItem::Item(item))];
    while let Some((id, it)) = stack.pop() {
        match it {
            SpItem::Item(i) => {
                if i.span().is_some() {
                    return Some(format!("item `{id}`"));
                }
                match i {
                    toml_edit::Item::Table(t) => {
                        for (k, c) in t.iter() {
                            if t.key(k).and_then(|k| k.span()).is_some() {
                                return Some(format!("key `{id}.{k}`"));
                            }
                            stack.push((format!("{id}.{k}"), SpItem::Item(c)));
                        }
                    }
                    toml_edit::Item::ArrayOfTables(a) => {
                        for t in a.iter() {
                            if t.span().is_some() {
                                return Some(format!("element of `{id}`"));
                            }
                            for (k, c) in t.iter() {
                                if t.key(k).and_then(|k| k.span()).is_some() {
                                    return Some(format!("key `{id}[].{k}`"));
                                }
                                stack.push((format!("{id}[].{k}"), SpItem::Item(c)));
                            }
                        }
                    }
                    toml_edit::Item::Value(v) => stack.push((id, SpItem::Value(v))),
                    toml_edit::Item::None => {}
                }
            }
            SpItem::Value(v) => {
                if v.span().is_some() {
                    return Some(format!("value `{id}`"));
                }
                match v {
                    toml_edit::Value::Array(a) => a.iter().for_each(|x| stack.push((format!("{id}[]"), SpItem::Value(x)))),
                    toml_edit::Value::InlineTable(t) => {
                        for (k, x) in t.iter() {
                            if t.key(k).and_then(|k| k.span()).is_some() {
                                return Some(format!("key `{id}.{k}`"));
                            }
                            stack.push((format!("{id}.{k}"), SpItem::Value(x)));
                        }
                    }
                    _ => {}
                }
            }
        }
    }
    None
}

impl C14 {
    fn judge(&mut self, ctx: &mut Ctx, text: &str) {
        ctx.eval();
        ctx.set_input(text);
        let d = decode(text);
        if !matches!(d.verdict, Verdict::Valid | Verdict::Undecided(U1::C)) {
            ctx.count("skipped/not-valid-for-R");
            return;
        }
        let r = guarded(|| {
            let doc = match toml_edit::ImDocument::parse(text) {
                Ok(d) => d,
                Err(e) => return Err(e.to_string()),
            };
            let exp = expected_spans(&d);
            let mut w = Walk { text, exp: &exp, problems: Vec::new(), checked: HashMap::new() };
            w.table("", doc.as_table(), true);
            // serde-delivered spans
            let plain = toml::from_str::<toml::Value>(text);
            match toml::from_str::<SpTree>(text) {
                Ok(sp) => {
                    if let Ok(p) = &plain {
                        if obs::toml_value_to_r(p).diff(&obs::toml_value_to_r(&sp_to_value(&sp.node)), KeyOrder::Any).is_some() {
                            w.bad("spanned-changes-value", "decoding with span requests gives a different value than decoding without".into());
                        }
                    }
                    compare_serde(&mut w, "", &sp, SpItem::Item(doc.as_item()));
                }
                Err(e) => w.bad("spanned-changes-success", format!("decoding with (optional) span requests fails: {e}")),
            }
            // strict wrapping of every node in Spanned<_>
            let has_tokenless_table = w.checked.get("serde-span-of-item-without-token").copied().unwrap_or(0) > 0;
            match (toml::from_str::<Spanned<StrictNode>>(text), &plain) {
                (Ok(sp), Ok(p)) => {
                    w.bump("strict-spanned-decode");
                    if obs::toml_value_to_r(p).diff(&obs::toml_value_to_r(&strict_to_value(sp.get_ref())), KeyOrder::Any).is_some() {
                        w.bad("spanned-changes-value", "decoding through Spanned<_> gives a different value than decoding without".into());
                    }
                }
                (Err(e), Ok(_)) => {
                    if has_tokenless_table {
                        w.bad("spanned-fails-on-table-without-token", format!("Spanned<_> around a table that has no token of its own (dotted / implicit) makes decoding fail: {}", e.message()));
                    } else {
                        w.bad("spanned-changes-success", format!("without Spanned<_> decoding succeeds, with it fails: {e}"));
                    }
                }
                (Ok(_), Err(e)) => w.bad("spanned-changes-success", format!("with Spanned<_> decoding succeeds, without it fails: {e}")),
                (Err(_), Err(_)) => {}
            }
            // keys taken through a newtype struct around Spanned<String>
            for (route, res) in [
                ("toml::from_str", toml::from_str::<RootKeys>(text).map_err(|e| e.to_string())),
                ("toml_edit::de::from_str", toml_edit::de::from_str::<RootKeys>(text).map_err(|e| e.to_string())),
                ("str::parse::<toml_edit::de::Deserializer>", text.parse::<toml_edit::de::Deserializer>().map_err(|e| e.to_string()).and_then(|d| RootKeys::deserialize(d).map_err(|e| e.to_string()))),
                ("toml_edit::de::Deserializer::parse", toml_edit::de::Deserializer::parse(text).map_err(|e| e.to_string()).and_then(|d| RootKeys::deserialize(d).map_err(|e| e.to_string()))),
                ("toml::de::Deserializer::new", RootKeys::deserialize(toml::de::Deserializer::new(text)).map_err(|e| e.to_string())),
            ] {
                match (res, &plain) {
                    (Ok(keys), _) => {
                        for k in keys.0 {
                            let sp = k.0.span();
                            let ok = text.get(sp.clone()).and_then(|raw| refmodel::decode::decode_key(raw).ok()).map_or(false, |segs| segs.len() == 1 && &segs[0] == k.0.get_ref());
                            if ok {
                                w.bump("serde-key-span-through-newtype");
                            } else {
                                w.bad("serde-key-span-differs:newtype", format!("{route}: key {:?} taken as a newtype around Spanned<String> has span {sp:?}, which does not hold that key", k.0.get_ref()));
                            }
                        }
                    }
                    (Err(e), Ok(_)) => w.bad("spanned-changes-success:newtype-key", format!("{route}: map keys taken as a newtype around Spanned<String> make decoding fail: {e}")),
                    (Err(_), Err(_)) => {}
                }
            }
            // and through Spanned<_> around a newtype struct
            for (route, res) in [
                ("toml::from_str", toml::from_str::<RootSpannedNames>(text).map_err(|e| e.to_string())),
                ("toml_edit::de::from_str", toml_edit::de::from_str::<RootSpannedNames>(text).map_err(|e| e.to_string())),
                ("toml::de::Deserializer::new", RootSpannedNames::deserialize(toml::de::Deserializer::new(text)).map_err(|e| e.to_string())),
            ] {
                match (res, &plain) {
                    (Ok(keys), _) => {
                        for k in keys.0 {
                            let sp = k.span();
                            let ok = text.get(sp.clone()).and_then(|raw| refmodel::decode::decode_key(raw).ok()).map_or(false, |segs| segs.len() == 1 && segs[0] == k.get_ref().0);
                            if ok {
                                w.bump("serde-key-span-around-newtype");
                            } else {
                                w.bad("serde-key-span-differs:spanned-newtype", format!("{route}: key {:?} taken as Spanned<newtype> has span {sp:?}, which does not hold that key", k.get_ref().0));
                            }
                        }
                    }
                    (Err(e), Ok(_)) => w.bad("spanned-changes-success:spanned-newtype-key", format!("{route}: map keys taken as Spanned<_> around a newtype struct make decoding fail, the bare newtype decodes: {e}")),
                    (Err(_), Err(_)) => {}
                }
            }
            let m = doc.into_mut();
            let left = any_span_left(m.as_item());
            Ok((w.problems, w.checked, left))
        });
        match r {
            Err((loc, msg)) => ctx.violation(&format!("panic:{}", crate::short_loc(&loc)), format!("span inspection panicked at {loc}: {msg}")),
            Ok(Err(e)) => ctx.violation("valid-rejected", format!("ImDocument::parse refuses a text R judges valid: {e}")),
            Ok(Ok((problems, checked, left))) => {
                for (sig, msg) in problems {
                    ctx.violation(&sig, msg);
                }
                let mut total = 0;
                for (k, n) in checked {
                    ctx.add(&format!("spans-checked/{k}"), n);
                    total += n;
                }
                if let Some(l) = left {
                    ctx.violation("span-survives-into_mut", format!("after into_mut() the {l} still has a span"));
                }
                ctx.count("into_mut-checked");
                if total >= 3 {
                    ctx.nontrivial(hash_bytes(text.as_bytes()));
                }
                if d.bom {
                    ctx.count("doc/bom");
                }
                if !d.cr_strip.is_empty() {
                    ctx.count("doc/crlf");
                }
                if text.bytes().any(|b| b >= 0x80) {
                    ctx.count("doc/multi-byte");
                }
            }
        }
    }
}

impl Check for C14 {
    fn id(&self) -> &'static str {
        "C14"
    }
    fn workloads(&mut self, tier: Tier, _seed: u64) -> Vec<(String, u64)> {
        let k = if tier == Tier::Quick { 8 } else { 80 };
        vec![("corpus".into(), docs::corpus().len() as u64), ("render".into(), 100_000 * k), ("render-mut".into(), 30_000 * k), ("corpus-mut".into(), 30_000 * k)]
    }
    fn run(&mut self, ctx: &mut Ctx, workload: &str, index: u64, rng: &mut Rng) {
        match workload {
            "corpus" => {
                if let Ok(t) = std::str::from_utf8(&docs::corpus()[index as usize].bytes) {
                    self.judge(ctx, t);
                }
            }
            "render" => {
                let d = docs::rendered(rng);
                ctx.sample("render", || d.text.clone());
                self.judge(ctx, &d.text);
            }
            "render-mut" | "corpus-mut" => {
                let (t, _) = docs::mutated(rng, workload == "corpus-mut");
                if let Ok(s) = std::str::from_utf8(&t) {
                    self.judge(ctx, s);
                }
            }
            other => ctx.inconclusive(format!("unknown workload {other}")),
        }
    }
}
