//! C15 — every rejection is a well-formed, correctly located error.

use crate::ctx::{guarded, Ctx, Tier};
use crate::docs;
use crate::Check;
use crate::gdyn::{Shape, Variant};
use refmodel::decode::{decode, Verdict};
use refmodel::rng::{hash_bytes, Rng};
use refmodel::rval::RVal;
use serde::de::DeserializeSeed;
use std::str::FromStr;

pub struct C15;

/// Walk `shape` and `tree` in parallel to a random scalar leaf and replace the leaf's shape by one
/// that cannot accept the value. Returns the key path (table keys only), the candidate span ids of
/// the offending value (see c14::expected_spans) and whether an enum variant key lies on the path.
fn plant(rng: &mut Rng, shape: &mut Shape, tree: &RVal, keys: &mut Vec<String>, ids: &mut Vec<String>, saw_variant: &mut bool, spans: &crate::c14::Expected, want: &mut Option<(usize, usize)>) -> bool {
    use crate::c14::{join, SEP};
    // now and then the offending value is a whole container: an array, an inline table, a table
    // with a header of its own, an array of tables (first header .. end of the last element)
    if !keys.is_empty() && matches!(tree, RVal::Table(_) | RVal::Array(_)) && !matches!(shape, Shape::Opt(_) | Shape::Newtype(..)) && rng.chance(1, 6) {
        let n = if let RVal::Array(a) = tree { a.len() } else { 0 };
        let found = ids.iter().find_map(|c| {
            if let Some(sp) = spans.value_span.get(c).or_else(|| spans.table_span.get(c)) {
                return Some(*sp);
            }
            if n > 0 {
                let first = spans.table_span.get(&format!("{c}{SEP}#0"))?;
                let last = spans.table_span.get(&format!("{c}{SEP}#{}", n - 1))?;
                return Some((first.0, last.1));
            }
            None
        });
        if let Some(sp) = found {
            *want = Some(sp);
            *shape = Shape::I64;
            return true;
        }
    }
    let push_ids = |ids: &mut Vec<String>, f: &dyn Fn(&str) -> Vec<String>| {
        let mut out = Vec::new();
        for i in ids.iter() {
            out.extend(f(i));
        }
        *ids = out;
    };
    match (shape, tree) {
        (Shape::Opt(inner), t) => plant(rng, inner, t, keys, ids, saw_variant, spans, want),
        (Shape::Newtype(_, inner), t) => plant(rng, inner, t, keys, ids, saw_variant, spans, want),
        (Shape::Struct(_, fields), RVal::Table(t)) => {
            let present: Vec<usize> = (0..fields.len()).filter(|i| t.get(fields[*i].0).is_some()).collect();
            if present.is_empty() {
                return false;
            }
            let i = present[rng.below(present.len())];
            let name = fields[i].0;
            keys.push(name.to_string());
            push_ids(ids, &|b| vec![join(b, name)]);
            plant(rng, &mut fields[i].1, t.get(name).unwrap(), keys, ids, saw_variant, spans, want)
        }
        (Shape::Map(_, inner), RVal::Table(t)) => {
            if t.entries.is_empty() {
                return false;
            }
            // every value shares the shape: the first entry in document order fails first
            let (k, v) = &t.entries[0];
            keys.push(k.clone());
            push_ids(ids, &|b| vec![join(b, k)]);
            // changing the shared shape makes the first entry (in the deserializer's order) fail
            let mut probe = (**inner).clone();
            if !plant(rng, &mut probe, v, keys, ids, saw_variant, spans, want) {
                return false;
            }
            // only safe when there is one entry (otherwise another entry may be visited first)
            if t.entries.len() != 1 {
                return false;
            }
            **inner = probe;
            true
        }
        (Shape::Enum(_, vs), RVal::Table(t)) => {
            if t.entries.len() != 1 {
                return false;
            }
            let (k, v) = &t.entries[0];
            for (name, var) in vs.iter_mut() {
                if *name == k.as_str() {
                    if let Variant::Newtype(inner) = var {
                        *saw_variant = true;
                        keys.push(k.clone());
                        push_ids(ids, &|b| vec![join(b, k)]);
                        return plant(rng, inner, v, keys, ids, saw_variant, spans, want);
                    }
                }
            }
            false
        }
        (Shape::Seq(inner), RVal::Array(a)) => {
            if a.len() != 1 {
                return false;
            }
            push_ids(ids, &|b| vec![format!("{b}{SEP}[0]"), format!("{b}{SEP}#0")]);
            plant(rng, inner, &a[0], keys, ids, saw_variant, spans, want)
        }
        (Shape::Tuple(ss), RVal::Array(a)) | (Shape::TupleStruct(_, ss), RVal::Array(a)) => {
            if ss.is_empty() || ss.len() != a.len() {
                return false;
            }
            let i = rng.below(ss.len());
            push_ids(ids, &|b| vec![format!("{b}{SEP}[{i}]"), format!("{b}{SEP}#{i}")]);
            plant(rng, &mut ss[i], &a[i], keys, ids, saw_variant, spans, want)
        }
        (leaf, value) => {
            let wrong = match value {
                RVal::Int(_) => Shape::Bool,
                RVal::Str(_) => Shape::I64,
                RVal::Float(_) => Shape::Str,
                RVal::Bool(_) => Shape::Str,
                RVal::Dt(_) => Shape::I64,
                _ => return false,
            };
            if matches!(leaf, Shape::Enum(..)) && !matches!(value, RVal::Str(_)) {
                return false;
            }
            *leaf = wrong;
            true
        }
    }
}

/// 1-based (line, column) of byte offset `p`, counting characters; for p == len the position of
/// the last character advanced by one column; (1, 1) for the empty text.
pub fn line_col(text: &str, p: usize) -> (usize, usize) {
    if text.is_empty() {
        return (1, 1 + p);
    }
    let (q, extra) = if p >= text.len() {
        // last character
        let mut q = text.len() - 1;
        while !text.is_char_boundary(q) {
            q -= 1;
        }
        (q, 1 + (p - text.len()))
    } else {
        (p, 0)
    };
    let before = &text[..q];
    let line = before.bytes().filter(|b| *b == b'\n').count() + 1;
    let line_start = before.rfind('\n').map(|i| i + 1).unwrap_or(0);
    let col = text[line_start..q].chars().count() + 1 + extra;
    (line, col)
}

fn parse_header(rendered: &str) -> Option<(usize, usize)> {
    let first = rendered.lines().next()?;
    let rest = first.strip_prefix("TOML parse error at line ")?;
    let (l, c) = rest.split_once(", column ")?;
    Some((l.trim().parse().ok()?, c.trim().parse().ok()?))
}

pub struct ErrView {
    pub route: &'static str,
    pub message: String,
    pub span: Option<std::ops::Range<usize>>,
    pub rendered: String,
    pub debug_len: usize,
}

fn view_edit(route: &'static str, e: &toml_edit::TomlError) -> ErrView {
    ErrView { route, message: e.message().to_string(), span: e.span(), rendered: e.to_string(), debug_len: format!("{e:?}").len() }
}
fn view_toml(route: &'static str, e: &toml::de::Error) -> ErrView {
    ErrView { route, message: e.message().to_string(), span: e.span(), rendered: e.to_string(), debug_len: format!("{e:?}").len() }
}
fn view_edit_de(route: &'static str, e: &toml_edit::de::Error) -> ErrView {
    ErrView { route, message: e.message().to_string(), span: e.span(), rendered: e.to_string(), debug_len: format!("{e:?}").len() }
}

pub fn judge_error(ctx: &mut Ctx, text: &str, v: &ErrView) {
    ctx.count(&format!("errors/{}", v.route));
    let class: String = v.message.lines().next().unwrap_or("").chars().take(48).collect();
    ctx.count(&format!("message-class/{class}"));
    if v.message.trim().is_empty() {
        // the signature names what the error points at, so that findings stay specific
        let at = match v.span.as_ref().and_then(|s| text.get(s.start..)).and_then(|t| t.chars().next()) {
            Some('\r') => "carriage-return".to_string(),
            Some(c) if (c as u32) < 0x20 || c == '\u{7f}' => format!("control-U+{:04X}", c as u32),
            Some(_) => "other".to_string(),
            None => "end-of-input".to_string(),
        };
        let kind = if v.route.starts_with("Value::") || v.route.starts_with("Key::") { "fragment" } else { "document" };
        // a carriage return that is not followed by a line feed: the error points at it or right after it
        let start = v.span.as_ref().map(|s| s.start).unwrap_or(0).min(text.len());
        let bare_cr = text[start..].starts_with('\r') && !text[start..].starts_with("\r\n") || text[..start].ends_with('\r');
        let sig = if bare_cr { "empty-error-message:bare-carriage-return".to_string() } else { format!("empty-error-message:{kind}:{at}") };
        ctx.violation(&sig, format!("{}: the error message is empty (rendered: {:?})", v.route, v.rendered));
    }
    let sp = match &v.span {
        Some(s) => s.clone(),
        None => {
            ctx.count("errors/without-span");
            return;
        }
    };
    if sp.start > sp.end || sp.end > text.len() || !text.is_char_boundary(sp.start) || !text.is_char_boundary(sp.end.min(text.len())) {
        ctx.violation("error-span-out-of-bounds-or-off-boundary", format!("{}: span {sp:?} for a text of {} bytes (message {:?})", v.route, text.len(), v.message));
        return;
    }
    match parse_header(&v.rendered) {
        None => ctx.violation("error-rendering-without-position", format!("{}: rendered error has no `line L, column C` header: {:?}", v.route, v.rendered)),
        Some((l, c)) => {
            let want = line_col(text, sp.start);
            ctx.count("position-checks");
            let at_multibyte = text[sp.start.min(text.len())..].chars().next().map_or(false, |ch| ch.len_utf8() > 1);
            let line_start = text[..sp.start.min(text.len())].rfind('\n').map(|i| i + 1).unwrap_or(0);
            let after_multibyte = text[line_start..sp.start.min(text.len())].bytes().any(|b| b >= 0x80);
            if at_multibyte && after_multibyte {
                ctx.count("position-checks/multibyte-at-and-before-error");
            } else if at_multibyte {
                ctx.count("position-checks/multibyte-at-error");
            } else if after_multibyte {
                ctx.count("position-checks/multibyte-before-error");
            }
            if sp.start >= text.len() {
                ctx.count(if text.ends_with('\n') { "position-checks/at-end-after-newline" } else { "position-checks/at-end-no-newline" });
            }
            if (l, c) != want {
                let kind = if at_multibyte { "column-at-multibyte-char" } else if sp.start >= text.len() { "position-at-end-of-input" } else { "line-column" };
                ctx.violation(&format!("error-position-wrong:{kind}"), format!("{}: rendered line {l}, column {c}; span start {} is line {}, column {} (counting characters)", v.route, sp.start, want.0, want.1));
            }
        }
    }
}

impl C15 {
    fn judge(&mut self, ctx: &mut Ctx, text: &str) {
        ctx.eval();
        ctx.set_input(text);
        let r = guarded(|| {
            let mut v: Vec<ErrView> = Vec::new();
            if let Err(e) = toml_edit::DocumentMut::from_str(text) {
                v.push(view_edit("DocumentMut::from_str", &e));
            }
            if let Err(e) = toml_edit::ImDocument::parse(text) {
                v.push(view_edit("ImDocument::parse", &e));
            }
            if let Err(e) = toml::from_str::<toml::Table>(text) {
                v.push(view_toml("toml::from_str::<Table>", &e));
            }
            if let Err(e) = toml_edit::de::from_str::<toml::Table>(text) {
                v.push(view_edit_de("toml_edit::de::from_str::<Table>", &e));
            }
            if !v.is_empty() {
                // the fragment parsers see the same text as a value / key
                if let Err(e) = toml_edit::Value::from_str(text) {
                    v.push(view_edit("Value::from_str", &e));
                }
                if let Err(e) = toml_edit::Key::from_str(text) {
                    v.push(view_edit("Key::from_str", &e));
                }
            }
            v
        });
        match r {
            Err((loc, msg)) => ctx.violation(&format!("panic:{}", crate::short_loc(&loc)), format!("creating or rendering an error panicked at {loc}: {msg}")),
            Ok(views) => {
                if views.is_empty() {
                    ctx.count("inputs/accepted");
                    return;
                }
                ctx.count("inputs/rejected");
                ctx.nontrivial(hash_bytes(text.as_bytes()));
                for v in &views {
                    let _ = v.debug_len;
                    judge_error(ctx, text, v);
                }
            }
        }
    }
}

impl C15 {
    /// fixed planted cases for shapes the inference never builds (tuple and struct variants)
    fn planted_variants(&mut self, ctx: &mut Ctx) {
        use crate::gdyn::Variant as V;
        let e_struct = Shape::Enum("E", vec![("U", V::Unit), ("S", V::Struct(vec![("a", Shape::I64), ("b", Shape::Opt(Box::new(Shape::Str)))]))]);
        let e_tuple = Shape::Enum("E", vec![("U", V::Unit), ("T", V::Tuple(vec![Shape::I64, Shape::Str]))]);
        let e_new = Shape::Enum("E", vec![("U", V::Unit), ("N", V::Newtype(Box::new(Shape::I64)))]);
        let cases: Vec<(&str, Shape, &str, &str)> = vec![
            ("e = { S = { a = \"x\" } }\n", Shape::Struct("R", vec![("e", e_struct.clone())]), "e.S.a", "enum-struct-variant-key"),
            ("[e.S]\na = \"x\"\n", Shape::Struct("R", vec![("e", e_struct.clone())]), "e.S.a", "enum-struct-variant-key"),
            ("v = [ { S = { a = true } } ]\n", Shape::Struct("R", vec![("v", Shape::Seq(Box::new(e_struct)))]), "v.S.a", "enum-struct-variant-key"),
            ("e = { T = [ \"x\", \"y\" ] }\n", Shape::Struct("R", vec![("e", e_tuple.clone())]), "e.T", "enum-variant-key"),
            ("[e]\nT = [ 1, 2 ]\n", Shape::Struct("R", vec![("e", e_tuple)]), "e.T", "enum-variant-key"),
            ("e = { N = \"x\" }\n", Shape::Struct("R", vec![("e", e_new.clone())]), "e.N", "enum-variant-key"),
            ("[[v]]\nN = true\n", Shape::Struct("R", vec![("v", Shape::Seq(Box::new(e_new)))]), "v.N", "enum-variant-key"),
        ];
        for (text, shape, path, class) in cases {
            ctx.eval();
            ctx.set_input(&format!("{text:?} into {shape:?}"));
            ctx.nontrivial(hash_bytes(format!("{text}{path}").as_bytes()));
            let r = guarded(|| {
                toml_edit::DocumentMut::from_str(text)
                    .map_err(|e| e.to_string())
                    .and_then(|doc| (&shape).deserialize(toml_edit::de::Deserializer::from(doc)).map(|_| ()).map_err(|e| e.to_string()))
            });
            match r {
                Err((loc, msg)) => ctx.violation(&format!("panic:{}", crate::short_loc(&loc)), format!("planted variant case panicked at {loc}: {msg}")),
                Ok(Ok(())) => ctx.violation("mismatch-accepted", format!("planted case {text:?} decodes although `{path}` mismatches")),
                Ok(Err(rendered)) => {
                    ctx.count("mismatch/planted-variant-cases");
                    let want = format!("in `{path}`");
                    if !rendered.trim_end().ends_with(&want) {
                        ctx.violation(&format!("mismatch-key-path-differs:{class}"), format!("decoding {text:?} from a DocumentMut: the error is {rendered:?}, the offending value sits at {want:?}"));
                    }
                }
            }
        }
    }

    /// a valid document decoded into a type that mismatches at one planted path
    fn mismatch(&mut self, ctx: &mut Ctx, rng: &mut Rng) {
        if ctx.cur_index == 0 {
            self.planted_variants(ctx);
        }
        ctx.eval();
        let text = if rng.chance(1, 3) {
            let c = docs::corpus();
            let valid: Vec<&refmodel::corpus::CorpusFile> = c.iter().filter(|f| f.valid).collect();
            String::from_utf8_lossy(&valid[rng.below(valid.len())].bytes).into_owned()
        } else {
            // (a byte-order mark in front is one more character for positions to count)
            let cfg = refmodel::gen::GenCfg::random(rng);
            refmodel::gen::gen_doc(rng, cfg).text
        };
        ctx.set_input(&text);
        let d = decode(&text);
        if !matches!(d.verdict, Verdict::Valid | Verdict::Undecided(refmodel::decode::U1::C)) || d.tree_nl.is_some() {
            return;
        }
        if d.bom {
            ctx.count("mismatch/document-with-bom");
        }
        let tree = d.tree.as_ref().unwrap();
        let (mut shape, _) = crate::c13::infer(rng, tree, 0);
        let mut keys = Vec::new();
        let mut ids = vec![String::new()];
        let mut saw_variant = false;
        let spans = crate::c14::expected_spans(&d);
        let mut container_span = None;
        if !plant(rng, &mut shape, tree, &mut keys, &mut ids, &mut saw_variant, &spans, &mut container_span) {
            ctx.count("mismatch/not-plantable");
            return;
        }
        if container_span.is_some() {
            ctx.count("mismatch/offending-value-is-a-container");
        }
        // the target may itself be optional (`Option<Config>`): one more way into the deserializer
        if rng.chance(1, 4) {
            shape = Shape::Opt(Box::new(shape));
            ctx.count("mismatch/optional-root");
        }
        let want_span: Option<(usize, usize)> = container_span.or_else(|| ids.iter().find_map(|i| spans.value_span.get(i).copied()));
        let r = guarded(|| {
            let from_text = (&shape).deserialize(toml::de::Deserializer::new(&text)).map(|_| ()).map_err(|e| (e.message().to_string(), e.span(), e.to_string()));
            let from_edit = toml_edit::de::Deserializer::from_str(&text)
                .map_err(|e| (e.message().to_string(), e.span(), e.to_string()))
                .and_then(|de| (&shape).deserialize(de).map(|_| ()).map_err(|e| (e.message().to_string(), e.span(), e.to_string())));
            let from_doc = toml_edit::DocumentMut::from_str(&text)
                .map_err(|e| (e.message().to_string(), e.span(), e.to_string()))
                .and_then(|doc| (&shape).deserialize(toml_edit::de::Deserializer::from(doc)).map(|_| ()).map_err(|e| (e.message().to_string(), e.span(), e.to_string())));
            // every other door that still has the source text behind it
            let view = |e: toml_edit::de::Error| (e.message().to_string(), e.span(), e.to_string());
            let view_syntax = |e: toml_edit::TomlError| (e.message().to_string(), e.span(), e.to_string());
            let mut more: Vec<(&'static str, Result<(), (String, Option<std::ops::Range<usize>>, String)>)> = Vec::new();
            more.push(("str::parse::<toml_edit::de::Deserializer>", text.parse::<toml_edit::de::Deserializer>().map_err(view).and_then(|de| (&shape).deserialize(de).map(|_| ()).map_err(view))));
            more.push(("toml_edit::de::Deserializer::parse", toml_edit::de::Deserializer::parse(&text).map_err(view).and_then(|de| (&shape).deserialize(de).map(|_| ()).map_err(view))));
            more.push((
                "Deserializer::from(ImDocument<String>)",
                toml_edit::ImDocument::parse(text.clone()).map_err(view_syntax).and_then(|im| (&shape).deserialize(toml_edit::de::Deserializer::from(im)).map(|_| ()).map_err(view)),
            ));
            more.push((
                "ImDocument<String>::into_deserializer",
                toml_edit::ImDocument::parse(text.clone()).map_err(view_syntax).and_then(|im| (&shape).deserialize(serde::de::IntoDeserializer::into_deserializer(im)).map(|_| ()).map_err(view)),
            ));
            more.push((
                "ImDocument<&str> -> Deserializer",
                toml_edit::ImDocument::parse(text.as_str()).map_err(view_syntax).and_then(|im| (&shape).deserialize(toml_edit::de::Deserializer::from(im)).map(|_| ()).map_err(view)),
            ));
            (from_text, from_edit, from_doc, more)
        });
        let (from_text, from_edit, from_doc, more) = match r {
            Ok(x) => x,
            Err((loc, msg)) => {
                ctx.violation(&format!("panic:{}", crate::short_loc(&loc)), format!("decoding into a mismatching type panicked at {loc}: {msg}"));
                return;
            }
        };
        ctx.nontrivial(hash_bytes(format!("{text}{keys:?}").as_bytes()));
        ctx.count(&format!("mismatch/path-length-{}", keys.len().min(4)));
        if saw_variant {
            ctx.count("mismatch/through-enum-variant");
        }
        let mut text_routes = vec![("toml::de::Deserializer", &from_text), ("toml_edit::de::Deserializer::from_str", &from_edit)];
        text_routes.extend(more.iter().map(|(n, r)| (*n, r)));
        for (route, res) in text_routes {
            match res {
                Ok(()) => ctx.violation("mismatch-accepted", format!("{route}: decoding succeeded although the value at `{}` cannot be a {:?}", keys.join("."), "planted type")),
                Err((msg, span, rendered)) => {
                    ctx.count("mismatch/text-errors");
                    if msg.trim().is_empty() {
                        ctx.violation("empty-error-message:type-mismatch", format!("{route}: empty message; rendered {rendered:?}"));
                    }
                    match (span, want_span) {
                        (Some(s), Some((a, b))) => {
                            if s.start != a || s.end != b {
                                ctx.violation("mismatch-span-differs", format!("{route}: the error for the value at `{}` has span {s:?}; the value's source text is at {:?} ({:?})", keys.join("."), (a, b), &text[a..b]));
                            } else {
                                ctx.count("mismatch/span-exact");
                            }
                        }
                        (None, _) => ctx.violation("mismatch-without-span", format!("{route}: a type-mismatch error from text has no span (value at `{}`): {msg}", keys.join("."))),
                        (Some(_), None) => ctx.count("mismatch/span-unchecked (value id not found)"),
                    }
                    let v = ErrView { route, message: msg.clone(), span: span.clone(), rendered: rendered.clone(), debug_len: 0 };
                    judge_error(ctx, &text, &v);
                }
            }
        }
        match &from_doc {
            Ok(()) => ctx.violation("mismatch-accepted", format!("from a DocumentMut: decoding succeeded although the value at `{}` mismatches", keys.join("."))),
            Err((msg, span, rendered)) => {
                ctx.count("mismatch/document-errors");
                if span.is_some() {
                    ctx.violation("stale-span-from-editable-document", format!("decoding from a DocumentMut gave an error with span {span:?}"));
                }
                if msg.trim().is_empty() {
                    ctx.violation("empty-error-message:type-mismatch", format!("from DocumentMut: empty message; rendered {rendered:?}"));
                }
                let want = format!("in `{}`", keys.join("."));
                // keys may contain line breaks: compare the tail of the rendering, not its last line
                let tail_ok = rendered.trim_end_matches('\n').ends_with(&want) && (rendered.trim_end_matches('\n').len() == want.len() || rendered.trim_end_matches('\n')[..rendered.trim_end_matches('\n').len() - want.len()].ends_with('\n'));
                let last = rendered.trim_end().lines().last().unwrap_or("");
                if keys.is_empty() {
                    // nothing to name
                } else if !tail_ok {
                    let sig = if saw_variant { "mismatch-key-path-differs:enum-variant-key" } else { "mismatch-key-path-differs" };
                    ctx.violation(sig, format!("decoding from a DocumentMut: the error ends with {last:?}, the offending value sits at {want:?} (message {msg:?})"));
                } else {
                    ctx.count("mismatch/key-path-exact");
                }
            }
        }
    }
}

fn multibyte_error_doc(rng: &mut Rng) -> String {
    // multi-byte characters before and at the offending position
    let mb = ["é", "ß", "日", "😀", "\u{80}", "\u{7ff}", "\u{ffff}", "\u{10000}"];
    let pre = match rng.below(5) {
        0 => String::new(),
        1 => format!("\"{}\" = 1\n", rng.pick(&mb)),
        2 => format!("# {}{}\n", rng.pick(&mb), rng.pick(&mb)),
        3 => format!("'{}' = \"{}\"\n\n", rng.pick(&mb), rng.pick(&mb)),
        _ => format!("a = '{}'\r\n", rng.pick(&mb)),
    };
    let on_line = match rng.below(5) {
        0 => String::new(),
        1 => format!("\"{}\" = ", rng.pick(&mb)),
        2 => format!("'{}{}'.x = ", rng.pick(&mb), rng.pick(&mb)),
        3 => format!("k = [\"{}\", ", rng.pick(&mb)),
        _ => format!("k = {{ \"{}\" = ", rng.pick(&mb)),
    };
    let bad = match rng.below(7) {
        0 => rng.pick(&mb).to_string(),
        1 => format!("{}{}", rng.pick(&mb), rng.pick(&mb)),
        2 => format!("1{}", rng.pick(&mb)),
        3 => format!("\"\\{}\"", rng.pick(&mb)),
        4 => String::new(),
        5 => format!("tru{}", rng.pick(&mb)),
        _ => format!("1979-05-27T{}", rng.pick(&mb)),
    };
    let tail = *rng.pick(&["", "\n", "\r\n", " # c\n", "\nz = 1\n"]);
    format!("{pre}{on_line}{bad}{tail}")
}

impl Check for C15 {
    fn id(&self) -> &'static str {
        "C15"
    }
    fn workloads(&mut self, tier: Tier, _seed: u64) -> Vec<(String, u64)> {
        let k = if tier == Tier::Quick { 8 } else { 64 };
        let corpus_bytes: u64 = docs::corpus().iter().map(|f| f.bytes.len() as u64 + 1).sum();
        vec![
            ("corpus".into(), docs::corpus().len() as u64),
            ("sweep".into(), docs::sweep_count()),
            ("corpus-truncate".into(), if tier == Tier::Quick { 30_000 } else { corpus_bytes }),
            ("render-truncate".into(), 40_000 * k),
            ("render-mut".into(), 80_000 * k),
            ("corpus-mut".into(), 60_000 * k),
            ("nearmiss".into(), 30_000 * k),
            ("multibyte".into(), 40_000 * k),
            ("type-mismatch".into(), 30_000 * k),
        ]
    }
    fn run(&mut self, ctx: &mut Ctx, workload: &str, index: u64, rng: &mut Rng) {
        if workload == "type-mismatch" {
            self.mismatch(ctx, rng);
            return;
        }
        let bytes: Vec<u8> = match workload {
            "corpus" => docs::corpus()[index as usize].bytes.clone(),
            "sweep" => docs::sweep_doc(index).1,
            "corpus-truncate" => {
                let c = docs::corpus();
                if ctx.tier == Tier::Quick {
                    let f = &c[rng.below(c.len())];
                    let cut = rng.below(f.bytes.len() + 1);
                    f.bytes[..cut].to_vec()
                } else {
                    let mut i = index;
                    let mut out = Vec::new();
                    for f in c {
                        let n = f.bytes.len() as u64 + 1;
                        if i < n {
                            out = f.bytes[..i as usize].to_vec();
                            break;
                        }
                        i -= n;
                    }
                    out
                }
            }
            "render-truncate" => {
                let d = docs::rendered(rng);
                let mut cut = rng.below(d.text.len() + 1);
                // half of the cuts may fall inside a multi-byte character (the bytes door sees those)
                let keep_anywhere = rng.coin();
                while !keep_anywhere && !d.text.is_char_boundary(cut) {
                    cut -= 1;
                }
                d.text.as_bytes()[..cut].to_vec()
            }
            "render-mut" => docs::mutated(rng, false).0,
            "corpus-mut" => docs::mutated(rng, true).0,
            "nearmiss" => docs::near_miss_doc(rng).into_bytes(),
            "multibyte" => multibyte_error_doc(rng).into_bytes(),
            other => {
                ctx.inconclusive(format!("unknown workload {other}"));
                return;
            }
        };
        if let Ok(t) = std::str::from_utf8(&bytes) {
            if index % 9973 == 0 {
                ctx.sample(workload, || t.chars().take(200).collect());
            }
            self.judge(ctx, t);
        } else {
            // byte-slice entry point: the error must still be well-formed
            ctx.eval();
            ctx.set_input_bytes(&bytes);
            match guarded(|| toml_edit::de::from_slice::<toml::Table>(&bytes).map_err(|e| (e.message().to_string(), e.to_string(), format!("{e:?}").len(), e.span()))) {
                Err((loc, msg)) => ctx.violation(&format!("panic:{}", crate::short_loc(&loc)), format!("from_slice error handling panicked at {loc}: {msg}")),
                Ok(Err((m, _, _, span))) => {
                    ctx.count("errors/from_slice(invalid utf-8)");
                    if m.trim().is_empty() {
                        ctx.violation("empty-error-message", "from_slice on invalid UTF-8: empty message".into());
                    }
                    // there is no text to point into, only bytes: a span, if one is given, lies inside them
                    match span {
                        None => ctx.count("errors/from_slice(invalid utf-8)/no-span"),
                        Some(sp) => {
                            ctx.count("errors/from_slice(invalid utf-8)/with-span");
                            if sp.start > sp.end || sp.end > bytes.len() {
                                ctx.violation("error-span-out-of-bounds-or-off-boundary", format!("from_slice on invalid UTF-8: span {sp:?} for an input of {} bytes", bytes.len()));
                            }
                        }
                    }
                }
                Ok(Ok(_)) => ctx.violation("invalid-utf8-accepted", "from_slice accepted invalid UTF-8".into()),
            }
        }
    }
}
