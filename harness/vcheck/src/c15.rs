//! C15 — every rejection is a well-formed, correctly located error.

use crate::ctx::{guarded, Ctx, Tier};
use crate::docs;
use crate::Check;
use refmodel::rng::{hash_bytes, Rng};
use std::str::FromStr;

pub struct C15;

/// 1-based (line, column) of byte offset `p`, counting characters; for p == len the position of
/// the last character advanced by one column; (1, 1) for the empty text.
pub fn line_col(text: &str, p: usize) -> (usize, usize) {
    if text.is_empty() {
        return (1, 1 + p);
    }
    let (q, extra) = if p >= text.len() {
        // last character
        let mut q = text.len() - 1;
        while !text.is_char_boundary(q) {
            q -= 1;
        }
        (q, 1 + (p - text.len()))
    } else {
        (p, 0)
    };
    let before = &text[..q];
    let line = before.bytes().filter(|b| *b == b'\n').count() + 1;
    let line_start = before.rfind('\n').map(|i| i + 1).unwrap_or(0);
    let col = text[line_start..q].chars().count() + 1 + extra;
    (line, col)
}

fn parse_header(rendered: &str) -> Option<(usize, usize)> {
    let first = rendered.lines().next()?;
    let rest = first.strip_prefix("TOML parse error at line ")?;
    let (l, c) = rest.split_once(", column ")?;
    Some((l.trim().parse().ok()?, c.trim().parse().ok()?))
}

pub struct ErrView {
    pub route: &'static str,
    pub message: String,
    pub span: Option<std::ops::Range<usize>>,
    pub rendered: String,
    pub debug_len: usize,
}

fn view_edit(route: &'static str, e: &toml_edit::TomlError) -> ErrView {
    ErrView { route, message: e.message().to_string(), span: e.span(), rendered: e.to_string(), debug_len: format!("{e:?}").len() }
}
fn view_toml(route: &'static str, e: &toml::de::Error) -> ErrView {
    ErrView { route, message: e.message().to_string(), span: e.span(), rendered: e.to_string(), debug_len: format!("{e:?}").len() }
}
fn view_edit_de(route: &'static str, e: &toml_edit::de::Error) -> ErrView {
    ErrView { route, message: e.message().to_string(), span: e.span(), rendered: e.to_string(), debug_len: format!("{e:?}").len() }
}

pub fn judge_error(ctx: &mut Ctx, text: &str, v: &ErrView) {
    ctx.count(&format!("errors/{}", v.route));
    let class: String = v.message.lines().next().unwrap_or("").chars().take(48).collect();
    ctx.count(&format!("message-class/{class}"));
    if v.message.trim().is_empty() {
        // the signature names what the error points at, so that findings stay specific
        let at = match v.span.as_ref().and_then(|s| text.get(s.start..)).and_then(|t| t.chars().next()) {
            Some('\r') => "carriage-return".to_string(),
            Some(c) if (c as u32) < 0x20 || c == '\u{7f}' => format!("control-U+{:04X}", c as u32),
            Some(_) => "other".to_string(),
            None => "end-of-input".to_string(),
        };
        let kind = if v.route.starts_with("Value::") || v.route.starts_with("Key::") { "fragment" } else { "document" };
        // a carriage return that is not followed by a line feed: the error points at it or right after it
        let start = v.span.as_ref().map(|s| s.start).unwrap_or(0).min(text.len());
        let bare_cr = text[start..].starts_with('\r') && !text[start..].starts_with("\r\n") || text[..start].ends_with('\r');
        let sig = if bare_cr { "empty-error-message:bare-carriage-return".to_string() } else { format!("empty-error-message:{kind}:{at}") };
        ctx.violation(&sig, format!("{}: the error message is empty (rendered: {:?})", v.route, v.rendered));
    }
    let sp = match &v.span {
        Some(s) => s.clone(),
        None => {
            ctx.count("errors/without-span");
            return;
        }
    };
    if sp.start > sp.end || sp.end > text.len() || !text.is_char_boundary(sp.start) || !text.is_char_boundary(sp.end.min(text.len())) {
        ctx.violation("error-span-out-of-bounds-or-off-boundary", format!("{}: span {sp:?} for a text of {} bytes (message {:?})", v.route, text.len(), v.message));
        return;
    }
    match parse_header(&v.rendered) {
        None => ctx.violation("error-rendering-without-position", format!("{}: rendered error has no `line L, column C` header: {:?}", v.route, v.rendered)),
        Some((l, c)) => {
            let want = line_col(text, sp.start);
            ctx.count("position-checks");
            let at_multibyte = text[sp.start.min(text.len())..].chars().next().map_or(false, |ch| ch.len_utf8() > 1);
            let line_start = text[..sp.start.min(text.len())].rfind('\n').map(|i| i + 1).unwrap_or(0);
            let after_multibyte = text[line_start..sp.start.min(text.len())].bytes().any(|b| b >= 0x80);
            if at_multibyte && after_multibyte {
                ctx.count("position-checks/multibyte-at-and-before-error");
            } else if at_multibyte {
                ctx.count("position-checks/multibyte-at-error");
            } else if after_multibyte {
                ctx.count("position-checks/multibyte-before-error");
            }
            if sp.start >= text.len() {
                ctx.count(if text.ends_with('\n') { "position-checks/at-end-after-newline" } else { "position-checks/at-end-no-newline" });
            }
            if (l, c) != want {
                let kind = if at_multibyte { "column-at-multibyte-char" } else if sp.start >= text.len() { "position-at-end-of-input" } else { "line-column" };
                ctx.violation(&format!("error-position-wrong:{kind}"), format!("{}: rendered line {l}, column {c}; span start {} is line {}, column {} (counting characters)", v.route, sp.start, want.0, want.1));
            }
        }
    }
}

impl C15 {
    fn judge(&mut self, ctx: &mut Ctx, text: &str) {
        ctx.eval();
        ctx.set_input(text);
        let r = guarded(|| {
            let mut v: Vec<ErrView> = Vec::new();
            if let Err(e) = toml_edit::DocumentMut::from_str(text) {
                v.push(view_edit("DocumentMut::from_str", &e));
            }
            if let Err(e) = toml_edit::ImDocument::parse(text) {
                v.push(view_edit("ImDocument::parse", &e));
            }
            if let Err(e) = toml::from_str::<toml::Table>(text) {
                v.push(view_toml("toml::from_str::<Table>", &e));
            }
            if let Err(e) = toml_edit::de::from_str::<toml::Table>(text) {
                v.push(view_edit_de("toml_edit::de::from_str::<Table>", &e));
            }
            if !v.is_empty() {
                // the fragment parsers see the same text as a value / key
                if let Err(e) = toml_edit::Value::from_str(text) {
                    v.push(view_edit("Value::from_str", &e));
                }
                if let Err(e) = toml_edit::Key::from_str(text) {
                    v.push(view_edit("Key::from_str", &e));
                }
            }
            v
        });
        match r {
            Err((loc, msg)) => ctx.violation(&format!("panic:{}", crate::short_loc(&loc)), format!("creating or rendering an error panicked at {loc}: {msg}")),
            Ok(views) => {
                if views.is_empty() {
                    ctx.count("inputs/accepted");
                    return;
                }
                ctx.count("inputs/rejected");
                ctx.nontrivial(hash_bytes(text.as_bytes()));
                for v in &views {
                    let _ = v.debug_len;
                    judge_error(ctx, text, v);
                }
            }
        }
    }
}

fn multibyte_error_doc(rng: &mut Rng) -> String {
    // multi-byte characters before and at the offending position
    let mb = ["é", "ß", "日", "😀", "\u{80}", "\u{7ff}", "\u{ffff}", "\u{10000}"];
    let pre = match rng.below(5) {
        0 => String::new(),
        1 => format!("\"{}\" = 1\n", rng.pick(&mb)),
        2 => format!("# {}{}\n", rng.pick(&mb), rng.pick(&mb)),
        3 => format!("'{}' = \"{}\"\n\n", rng.pick(&mb), rng.pick(&mb)),
        _ => format!("a = '{}'\r\n", rng.pick(&mb)),
    };
    let on_line = match rng.below(5) {
        0 => String::new(),
        1 => format!("\"{}\" = ", rng.pick(&mb)),
        2 => format!("'{}{}'.x = ", rng.pick(&mb), rng.pick(&mb)),
        3 => format!("k = [\"{}\", ", rng.pick(&mb)),
        _ => format!("k = {{ \"{}\" = ", rng.pick(&mb)),
    };
    let bad = match rng.below(7) {
        0 => rng.pick(&mb).to_string(),
        1 => format!("{}{}", rng.pick(&mb), rng.pick(&mb)),
        2 => format!("1{}", rng.pick(&mb)),
        3 => format!("\"\\{}\"", rng.pick(&mb)),
        4 => String::new(),
        5 => format!("tru{}", rng.pick(&mb)),
        _ => format!("1979-05-27T{}", rng.pick(&mb)),
    };
    let tail = *rng.pick(&["", "\n", "\r\n", " # c\n", "\nz = 1\n"]);
    format!("{pre}{on_line}{bad}{tail}")
}

impl Check for C15 {
    fn id(&self) -> &'static str {
        "C15"
    }
    fn workloads(&mut self, tier: Tier, _seed: u64) -> Vec<(String, u64)> {
        let k = if tier == Tier::Quick { 1 } else { 16 };
        let corpus_bytes: u64 = docs::corpus().iter().map(|f| f.bytes.len() as u64 + 1).sum();
        vec![
            ("corpus".into(), docs::corpus().len() as u64),
            ("sweep".into(), docs::sweep_count()),
            ("corpus-truncate".into(), if tier == Tier::Quick { 30_000 } else { corpus_bytes }),
            ("render-truncate".into(), 40_000 * k),
            ("render-mut".into(), 80_000 * k),
            ("corpus-mut".into(), 60_000 * k),
            ("nearmiss".into(), 30_000 * k),
            ("multibyte".into(), 40_000 * k),
        ]
    }
    fn run(&mut self, ctx: &mut Ctx, workload: &str, index: u64, rng: &mut Rng) {
        let bytes: Vec<u8> = match workload {
            "corpus" => docs::corpus()[index as usize].bytes.clone(),
            "sweep" => docs::sweep_doc(index).1,
            "corpus-truncate" => {
                let c = docs::corpus();
                if ctx.tier == Tier::Quick {
                    let f = &c[rng.below(c.len())];
                    let cut = rng.below(f.bytes.len() + 1);
                    f.bytes[..cut].to_vec()
                } else {
                    let mut i = index;
                    let mut out = Vec::new();
                    for f in c {
                        let n = f.bytes.len() as u64 + 1;
                        if i < n {
                            out = f.bytes[..i as usize].to_vec();
                            break;
                        }
                        i -= n;
                    }
                    out
                }
            }
            "render-truncate" => {
                let d = docs::rendered(rng);
                let mut cut = rng.below(d.text.len() + 1);
                while !d.text.is_char_boundary(cut) {
                    cut -= 1;
                }
                d.text.as_bytes()[..cut].to_vec()
            }
            "render-mut" => docs::mutated(rng, false).0,
            "corpus-mut" => docs::mutated(rng, true).0,
            "nearmiss" => docs::near_miss_doc(rng).into_bytes(),
            "multibyte" => multibyte_error_doc(rng).into_bytes(),
            other => {
                ctx.inconclusive(format!("unknown workload {other}"));
                return;
            }
        };
        if let Ok(t) = std::str::from_utf8(&bytes) {
            if index % 9973 == 0 {
                ctx.sample(workload, || t.chars().take(200).collect());
            }
            self.judge(ctx, t);
        } else {
            // byte-slice entry point: the error must still be well-formed
            ctx.eval();
            ctx.set_input_bytes(&bytes);
            match guarded(|| toml_edit::de::from_slice::<toml::Table>(&bytes).map_err(|e| (e.message().to_string(), e.to_string(), format!("{e:?}").len()))) {
                Err((loc, msg)) => ctx.violation(&format!("panic:{}", crate::short_loc(&loc)), format!("from_slice error handling panicked at {loc}: {msg}")),
                Ok(Err((m, _, _))) => {
                    ctx.count("errors/from_slice(invalid utf-8)");
                    if m.trim().is_empty() {
                        ctx.violation("empty-error-message", "from_slice on invalid UTF-8: empty message".into());
                    }
                }
                Ok(Ok(_)) => ctx.violation("invalid-utf8-accepted", "from_slice accepted invalid UTF-8".into()),
            }
        }
    }
}
