//! Shared document workloads (corpus, rendered, mutated, byte-class sweeps, near-miss lexemes).

use refmodel::corpus::{self, CorpusFile};
use refmodel::gen::{self, GenCfg, GenDoc};
use refmodel::rng::Rng;
use std::sync::OnceLock;

static CORPUS: OnceLock<Vec<CorpusFile>> = OnceLock::new();

pub fn corpus() -> &'static [CorpusFile] {
    CORPUS.get_or_init(|| {
        if cfg!(miri) {
            // reading and checking 750 files is too slow under the interpreter: a tiny built-in corpus
            let docs: [(&str, &str, bool); 6] = [
                ("valid/mini-1.toml", "a = 1\nb = \"x\\u00e9\"\n[t]\nc = [1, 2.5, 1979-05-27T07:32:00Z]\n", true),
                ("valid/mini-2.toml", "[[p]]\nn = 'l'\n[p.q]\nr.s = {u = true}\n[[p]]\n", true),
                ("valid/mini-3.toml", "s = \"\"\"\na\\\n   b\"\"\"\nt = \'\'\'x\'\'\'\n# c\n", true),
                ("invalid/mini-1.toml", "a = 1\na = 2\n", false),
                ("invalid/mini-2.toml", "a = [1, 2\n", false),
                ("invalid/mini-3.toml", "[a]\n[a]\n", false),
            ];
            return docs.iter().map(|(n, t, v)| CorpusFile { name: n.to_string(), bytes: t.as_bytes().to_vec(), valid: *v, expected: None }).collect();
        }
        corpus::load(&corpus::corpus_dir()).expect("corpus must load (run setup)")
    })
}

pub fn rendered(rng: &mut Rng) -> GenDoc {
    let cfg = GenCfg::random(rng);
    gen::gen_doc(rng, cfg)
}

/// a generated or corpus document, mutated 1..=3 times
pub fn mutated(rng: &mut Rng, from_corpus: bool) -> (Vec<u8>, u32) {
    let c = corpus();
    let base: Vec<u8> = if from_corpus { c[rng.below(c.len())].bytes.clone() } else { rendered(rng).text.into_bytes() };
    let other: Vec<u8> = if rng.coin() { c[rng.below(c.len())].bytes.clone() } else { Vec::new() };
    let n = 1 + rng.below(3) as u32;
    let mut t = base;
    for _ in 0..n {
        t = gen::mutate(rng, &t, &other);
    }
    (t, n)
}

pub const SWEEP_SLOTS: &[(&str, &str)] = &[
    ("basic-string", "k = \"a§b\"\n"),
    ("literal-string", "k = 'a§b'\n"),
    ("ml-basic", "k = \"\"\"a§b\"\"\"\n"),
    ("ml-literal", "k = '''a§b'''\n"),
    ("comment", "# a§b\nk = 1\n"),
    ("comment-eof", "k = 1 # a§"),
    ("bare-key", "a§b = 1\n"),
    ("quoted-key", "\"a§b\" = 1\n"),
    ("before-eq", "k §= 1\n"),
    ("after-eq", "k =§ 1\n"),
    ("after-value", "k = 1§\n"),
    ("after-value-ws", "k = 1 §\nj = 2\n"),
    ("line-start", "§k = 1\n"),
    ("header", "[a§b]\n"),
    ("header-ws", "[ a §]\n"),
    ("after-header", "[a]§\nk = 1\n"),
    ("array", "k = [1§,2]\n"),
    ("array-ws", "k = [1, §2]\n"),
    ("inline-table", "k = {a§=1}\n"),
    ("inline-table-ws", "k = { a = 1 §}\n"),
    ("number", "k = 1§2\n"),
    ("float", "k = 1.5§2\n"),
    ("datetime-delim", "k = 1979-05-27§07:32:00\n"),
    ("datetime-offset", "k = 1979-05-27T07:32:00§\n"),
    ("escape", "k = \"\\§\"\n"),
    ("ml-escape", "k = \"\"\"\\§\"\"\"\n"),
    ("dotted", "a§.b = 1\n"),
    ("eof", "k = 1\n§"),
    ("between-lines", "k = 1\n§\nj = 2\n"),
];

pub fn sweep_chars() -> Vec<String> {
    let mut v: Vec<String> = (0u8..=0x7F).map(|b| (b as char).to_string()).collect();
    for c in ['\u{80}', '\u{ff}', '\u{7ff}', '\u{800}', '\u{d7ff}', '\u{e000}', '\u{fffd}', '\u{ffff}', '\u{10000}', '\u{10ffff}', '\u{feff}', '\u{2028}'] {
        v.push(c.to_string());
    }
    v.push("\r\n".to_string());
    v.push(String::new());
    v
}

pub const BAD_UTF8: &[&[u8]] = &[
    &[0x80],
    &[0xBF],
    &[0xC0, 0x80],
    &[0xC1, 0xBF],
    &[0xC2],
    &[0xE0, 0x80, 0x80],
    &[0xE2, 0x82],
    &[0xED, 0xA0, 0x80],
    &[0xED, 0xBF, 0xBF],
    &[0xF0, 0x80, 0x80, 0x80],
    &[0xF0, 0x9F, 0x98],
    &[0xF4, 0x90, 0x80, 0x80],
    &[0xF5, 0x80, 0x80, 0x80],
    &[0xF8],
    &[0xFF],
    &[0xFE, 0xFF],
];

pub fn sweep_count() -> u64 {
    (SWEEP_SLOTS.len() * (sweep_chars().len() + BAD_UTF8.len())) as u64
}

/// (slot name, document bytes)
pub fn sweep_doc(index: u64) -> (&'static str, Vec<u8>) {
    let chars = sweep_chars();
    let per = chars.len() + BAD_UTF8.len();
    let slot = (index as usize) / per;
    let ci = (index as usize) % per;
    let (name, tmpl) = SWEEP_SLOTS[slot];
    let (a, b) = tmpl.split_once('§').unwrap();
    let mut out = a.as_bytes().to_vec();
    if ci < chars.len() {
        out.extend_from_slice(chars[ci].as_bytes());
    } else {
        out.extend_from_slice(BAD_UTF8[ci - chars.len()]);
    }
    out.extend_from_slice(b.as_bytes());
    (name, out)
}

const NUM_ALPHABET: &[u8] = b"0123456789_+-.eExobABCDEFabcdefinfnan:TZtz ";

/// a near-miss lexeme in value position: take a valid number/date/bool spelling and perturb it
pub fn near_miss_value(rng: &mut Rng) -> String {
    let base: String = match rng.below(8) {
        0 => {
            let v = gen::gen_int(rng);
            gen::render_int(rng, v)
        }
        1 => {
            let v = gen::gen_float_bits(rng);
            gen::render_float(rng, v)
        }
        2 | 3 => {
            let v = gen::gen_datetime(rng);
            gen::render_datetime(rng, &v)
        }
        4 => rng.pick(&["true", "false", "inf", "nan", "+inf", "-nan"]).to_string(),
        5 => rng.pick(gen::NEAR_MISS).to_string(),
        _ => rng
            .pick(&[
                "9223372036854775807",
                "9223372036854775808",
                "-9223372036854775808",
                "-9223372036854775809",
                "0x7fffffffffffffff",
                "0x8000000000000000",
                "0o777777777777777777777",
                "0o1000000000000000000000",
                "0b111111111111111111111111111111111111111111111111111111111111111",
                "0b1000000000000000000000000000000000000000000000000000000000000000",
                "1.7976931348623157e308",
                "1.7976931348623158e308",
                "1.7976931348623159e308",
                "-1.7976931348623159e308",
                "179769313486231580793728971405303415079934132710037826936173778980444968292764750946649017977587207096330286416692887910946555547851940402630657488671505820681908902000708383676273854845817711531764475730270069855571366959622842914819860834936475292719074168444365510704342711559699508093042880177904174497792.0",
                "179769313486231580793728971405303415079934132710037826936173778980444968292764750946649017977587207096330286416692887910946555547851940402630657488671505820681908902000708383676273854845817711531764475730270069855571366959622842914819860834936475292719074168444365510704342711559699508093042880177904174497791.0",
                "1e308",
                "1e309",
                "-1e999",
                "4.9e-324",
                "2.4703282292062327e-324",
                "2.4703282292062328e-324",
                "1e-400",
                "1979-05-27T07:32:00Z",
                "1979-05-27 07:32:00.5+01:00",
                "2000-02-29",
                "1900-02-29",
                "23:59:60",
                "24:00:00",
            ])
            .to_string(),
    };
    let mut b = base.into_bytes();
    let n = rng.below(3);
    for _ in 0..n {
        if b.is_empty() {
            break;
        }
        let i = rng.below(b.len());
        match rng.below(4) {
            0 => b[i] = *rng.pick(NUM_ALPHABET),
            1 => b.insert(i, *rng.pick(NUM_ALPHABET)),
            2 => {
                b.remove(i);
            }
            _ => {
                let c = b[i];
                b.insert(i, c);
            }
        }
    }
    String::from_utf8_lossy(&b).into_owned()
}

pub fn near_miss_doc(rng: &mut Rng) -> String {
    let v = near_miss_value(rng);
    match rng.below(6) {
        0 => format!("k = [{v}]\n"),
        1 => format!("k = {{ a = {v} }}\n"),
        2 => format!("k = {v}"),
        3 => format!("k = {v} # c\n"),
        _ => format!("k = {v}\n"),
    }
}

/// the name under which a `Datetime` travels through serde; as a key of a document it is an
/// ordinary key
pub const DATETIME_MARKER: &str = "$__toml_private_datetime";

/// valid documents that use the marker as an ordinary key, in every position a key can have
pub fn marker_docs() -> Vec<String> {
    let m = DATETIME_MARKER;
    vec![
        format!("\"{m}\" = \"2000-01-01\"\n"),
        format!("\"{m}\" = \"x\"\n"),
        format!("'{m}' = '2000-01-01'\n"),
        format!("[a]\n\"{m}\" = \"x\"\n"),
        format!("[a]\n\"{m}\" = \"1979-05-27\"\nb = 1\n"),
        format!("t = {{ \"{m}\" = \"2000-01-01\", b = 2 }}\n"),
        format!("t = {{ \"{m}\" = 1, b = 2 }}\n"),
        format!("t = {{ b = 2, \"{m}\" = \"2000-01-01\" }}\n"),
        format!("[\"{m}\"]\nx = 1\n"),
        format!("a = [{{ \"{m}\" = \"07:32:00\" }}]\n"),
        format!("[[x]]\n\"{m}\" = \"1979-05-27T07:32:00Z\"\n"),
        format!("a.\"{m}\" = \"2000-01-01\"\n"),
        format!("b = 1\n\"{m}\" = \"2000-01-01\"\n"),
        format!("\"{m}\" = 1979-05-27\n"),
    ]
}
