//! C20 — visitors reach every node of a document exactly once.

use crate::ctx::{guarded, Ctx, Tier};
use crate::docs;
use crate::obs;
use crate::Check;
use refmodel::gen;
use refmodel::rng::{hash_bytes, Rng};
use refmodel::rval::*;
use std::str::FromStr;
use toml_edit::visit::Visit;
use toml_edit::visit_mut::VisitMut;
use toml_edit::{Array, ArrayOfTables, Datetime, DocumentMut, Formatted, InlineTable, Item, KeyMut, Table, TableLike, Value};

pub struct C20;

type Ev = (&'static str, usize, String);

fn addr<T: ?Sized>(r: &T) -> usize {
    r as *const T as *const u8 as usize
}

// ---------------------------------------------------------------- recording visitors

#[derive(Default)]
struct Rec {
    log: Vec<Ev>,
}

impl<'doc> Visit<'doc> for Rec {
    fn visit_document(&mut self, node: &'doc DocumentMut) {
        self.log.push(("document", addr(node), String::new()));
        toml_edit::visit::visit_document(self, node);
    }
    fn visit_item(&mut self, node: &'doc Item) {
        self.log.push(("item", addr(node), String::new()));
        toml_edit::visit::visit_item(self, node);
    }
    fn visit_table(&mut self, node: &'doc Table) {
        self.log.push(("table", addr(node), String::new()));
        toml_edit::visit::visit_table(self, node);
    }
    fn visit_inline_table(&mut self, node: &'doc InlineTable) {
        self.log.push(("inline_table", addr(node), String::new()));
        toml_edit::visit::visit_inline_table(self, node);
    }
    fn visit_table_like(&mut self, node: &'doc dyn TableLike) {
        self.log.push(("table_like", addr(node), String::new()));
        toml_edit::visit::visit_table_like(self, node);
    }
    fn visit_table_like_kv(&mut self, key: &'doc str, node: &'doc Item) {
        self.log.push(("kv", addr(node), key.to_string()));
        toml_edit::visit::visit_table_like_kv(self, key, node);
    }
    fn visit_array(&mut self, node: &'doc Array) {
        self.log.push(("array", addr(node), String::new()));
        toml_edit::visit::visit_array(self, node);
    }
    fn visit_array_of_tables(&mut self, node: &'doc ArrayOfTables) {
        self.log.push(("array_of_tables", addr(node), String::new()));
        toml_edit::visit::visit_array_of_tables(self, node);
    }
    fn visit_value(&mut self, node: &'doc Value) {
        self.log.push(("value", addr(node), String::new()));
        toml_edit::visit::visit_value(self, node);
    }
    fn visit_boolean(&mut self, node: &'doc Formatted<bool>) {
        self.log.push(("boolean", addr(node), String::new()));
    }
    fn visit_datetime(&mut self, node: &'doc Formatted<Datetime>) {
        self.log.push(("datetime", addr(node), String::new()));
    }
    fn visit_float(&mut self, node: &'doc Formatted<f64>) {
        self.log.push(("float", addr(node), String::new()));
    }
    fn visit_integer(&mut self, node: &'doc Formatted<i64>) {
        self.log.push(("integer", addr(node), String::new()));
    }
    fn visit_string(&mut self, node: &'doc Formatted<String>) {
        self.log.push(("string", addr(node), String::new()));
    }
}

#[derive(Default)]
struct RecMut {
    log: Vec<Ev>,
}

impl VisitMut for RecMut {
    fn visit_document_mut(&mut self, node: &mut DocumentMut) {
        self.log.push(("document", addr(node), String::new()));
        toml_edit::visit_mut::visit_document_mut(self, node);
    }
    fn visit_item_mut(&mut self, node: &mut Item) {
        self.log.push(("item", addr(node), String::new()));
        toml_edit::visit_mut::visit_item_mut(self, node);
    }
    fn visit_table_mut(&mut self, node: &mut Table) {
        self.log.push(("table", addr(node), String::new()));
        toml_edit::visit_mut::visit_table_mut(self, node);
    }
    fn visit_inline_table_mut(&mut self, node: &mut InlineTable) {
        self.log.push(("inline_table", addr(node), String::new()));
        toml_edit::visit_mut::visit_inline_table_mut(self, node);
    }
    fn visit_table_like_mut(&mut self, node: &mut dyn TableLike) {
        self.log.push(("table_like", addr(node), String::new()));
        toml_edit::visit_mut::visit_table_like_mut(self, node);
    }
    fn visit_table_like_kv_mut(&mut self, key: KeyMut<'_>, node: &mut Item) {
        self.log.push(("kv", addr(node), key.get().to_string()));
        toml_edit::visit_mut::visit_table_like_kv_mut(self, key, node);
    }
    fn visit_array_mut(&mut self, node: &mut Array) {
        self.log.push(("array", addr(node), String::new()));
        toml_edit::visit_mut::visit_array_mut(self, node);
    }
    fn visit_array_of_tables_mut(&mut self, node: &mut ArrayOfTables) {
        self.log.push(("array_of_tables", addr(node), String::new()));
        toml_edit::visit_mut::visit_array_of_tables_mut(self, node);
    }
    fn visit_value_mut(&mut self, node: &mut Value) {
        self.log.push(("value", addr(node), String::new()));
        toml_edit::visit_mut::visit_value_mut(self, node);
    }
    fn visit_boolean_mut(&mut self, node: &mut Formatted<bool>) {
        self.log.push(("boolean", addr(node), String::new()));
    }
    fn visit_datetime_mut(&mut self, node: &mut Formatted<Datetime>) {
        self.log.push(("datetime", addr(node), String::new()));
    }
    fn visit_float_mut(&mut self, node: &mut Formatted<f64>) {
        self.log.push(("float", addr(node), String::new()));
    }
    fn visit_integer_mut(&mut self, node: &mut Formatted<i64>) {
        self.log.push(("integer", addr(node), String::new()));
    }
    fn visit_string_mut(&mut self, node: &mut Formatted<String>) {
        self.log.push(("string", addr(node), String::new()));
    }
}

// ---------------------------------------------------------------- a visitor that rebuilds the data
//
// Only the leaf and container callbacks are overridden; the order in which they arrive is the
// default traversal's. The tree it builds is compared with the reference decoder's tree of the
// source text, key order included: that is "in document order" measured against the text.

enum Frame {
    Table(Vec<(String, RVal)>, Option<String>),
    Array(Vec<RVal>),
}

#[derive(Default)]
struct Build {
    stack: Vec<Frame>,
    result: Option<RVal>,
    orphans: usize,
}

impl Build {
    fn push_val(&mut self, v: RVal) {
        match self.stack.last_mut() {
            Some(Frame::Array(a)) => a.push(v),
            Some(Frame::Table(t, pending)) => match pending.take() {
                Some(k) => t.push((k, v)),
                None => self.orphans += 1,
            },
            None => self.result = Some(v),
        }
    }
    fn close_table(&mut self) {
        if let Some(Frame::Table(t, _)) = self.stack.pop() {
            self.push_val(RVal::table(t));
        }
    }
    fn close_array(&mut self) {
        if let Some(Frame::Array(a)) = self.stack.pop() {
            self.push_val(RVal::Array(a));
        }
    }
}

impl<'doc> Visit<'doc> for Build {
    fn visit_table(&mut self, node: &'doc Table) {
        self.stack.push(Frame::Table(Vec::new(), None));
        toml_edit::visit::visit_table(self, node);
        self.close_table();
    }
    fn visit_inline_table(&mut self, node: &'doc InlineTable) {
        self.stack.push(Frame::Table(Vec::new(), None));
        toml_edit::visit::visit_inline_table(self, node);
        self.close_table();
    }
    fn visit_table_like_kv(&mut self, key: &'doc str, node: &'doc Item) {
        if let Some(Frame::Table(_, pending)) = self.stack.last_mut() {
            *pending = Some(key.to_string());
        }
        toml_edit::visit::visit_table_like_kv(self, key, node);
        if let Some(Frame::Table(_, pending)) = self.stack.last_mut() {
            // a placeholder item yields no value
            *pending = None;
        }
    }
    fn visit_array(&mut self, node: &'doc Array) {
        self.stack.push(Frame::Array(Vec::new()));
        toml_edit::visit::visit_array(self, node);
        self.close_array();
    }
    fn visit_array_of_tables(&mut self, node: &'doc ArrayOfTables) {
        self.stack.push(Frame::Array(Vec::new()));
        toml_edit::visit::visit_array_of_tables(self, node);
        self.close_array();
    }
    fn visit_boolean(&mut self, node: &'doc Formatted<bool>) {
        self.push_val(RVal::Bool(*node.value()));
    }
    fn visit_datetime(&mut self, node: &'doc Formatted<Datetime>) {
        self.push_val(RVal::Dt(obs::dt_to_r(node.value())));
    }
    fn visit_float(&mut self, node: &'doc Formatted<f64>) {
        self.push_val(RVal::Float(node.value().to_bits()));
    }
    fn visit_integer(&mut self, node: &'doc Formatted<i64>) {
        self.push_val(RVal::Int(*node.value()));
    }
    fn visit_string(&mut self, node: &'doc Formatted<String>) {
        self.push_val(RVal::Str(node.value().clone()));
    }
}

// ---------------------------------------------------------------- the independent walk

fn walk_value(v: &Value, out: &mut Vec<Ev>) {
    out.push(("value", addr(v), String::new()));
    match v {
        Value::String(f) => out.push(("string", addr(f), String::new())),
        Value::Integer(f) => out.push(("integer", addr(f), String::new())),
        Value::Float(f) => out.push(("float", addr(f), String::new())),
        Value::Boolean(f) => out.push(("boolean", addr(f), String::new())),
        Value::Datetime(f) => out.push(("datetime", addr(f), String::new())),
        Value::Array(a) => {
            out.push(("array", addr(a), String::new()));
            for x in a.iter() {
                walk_value(x, out);
            }
        }
        Value::InlineTable(t) => {
            out.push(("inline_table", addr(t), String::new()));
            out.push(("table_like", addr(t), String::new()));
            // InlineTable::iter gives the keys in document order; the items are reached by lookup
            let keys: Vec<String> = t.iter().map(|(k, _)| k.to_string()).collect();
            for k in keys {
                if let Some((_, item)) = t.get_key_value(&k) {
                    walk_item_kv(&k, item, out);
                }
            }
        }
    }
}

fn walk_item_kv(k: &str, item: &Item, out: &mut Vec<Ev>) {
    out.push(("kv", addr(item), k.to_string()));
    out.push(("item", addr(item), String::new()));
    match item {
        Item::None => {}
        Item::Value(v) => walk_value(v, out),
        Item::Table(t) => walk_table(t, out),
        Item::ArrayOfTables(a) => {
            out.push(("array_of_tables", addr(a), String::new()));
            for t in a.iter() {
                walk_table(t, out);
            }
        }
    }
}

fn walk_table(t: &Table, out: &mut Vec<Ev>) {
    out.push(("table", addr(t), String::new()));
    out.push(("table_like", addr(t), String::new()));
    for (k, item) in t.iter() {
        walk_item_kv(k, item, out);
    }
}

fn walk_document(d: &DocumentMut) -> Vec<Ev> {
    let mut out = vec![("document", addr(d), String::new())];
    walk_table(d.as_table(), &mut out);
    out
}

// ---------------------------------------------------------------- rewriting visitors

struct Rewrite {
    kind: u8,
    touched: usize,
}

impl VisitMut for Rewrite {
    fn visit_integer_mut(&mut self, node: &mut Formatted<i64>) {
        if self.kind == 0 {
            *node = Formatted::new(node.value().wrapping_add(1));
            self.touched += 1;
        }
    }
    fn visit_string_mut(&mut self, node: &mut Formatted<String>) {
        if self.kind == 1 {
            *node = Formatted::new(format!("{}!", node.value()));
            self.touched += 1;
        }
    }
    fn visit_float_mut(&mut self, node: &mut Formatted<f64>) {
        if self.kind == 2 {
            *node = Formatted::new(-*node.value());
            self.touched += 1;
        }
    }
    fn visit_boolean_mut(&mut self, node: &mut Formatted<bool>) {
        if self.kind == 3 {
            *node = Formatted::new(!*node.value());
            self.touched += 1;
        }
    }
    fn visit_datetime_mut(&mut self, node: &mut Formatted<Datetime>) {
        if self.kind == 4 {
            let mut d = *node.value();
            if let Some(t) = d.time.as_mut() {
                t.nanosecond = 7;
            }
            if let Some(dt) = d.date.as_mut() {
                dt.day = 1;
            }
            *node = Formatted::new(d);
            self.touched += 1;
        }
    }
}

/// a visitor that re-spells every scalar in its default form and touches nothing else
struct Respell {
    touched: usize,
}

impl VisitMut for Respell {
    fn visit_integer_mut(&mut self, node: &mut Formatted<i64>) {
        node.fmt();
        self.touched += 1;
    }
    fn visit_string_mut(&mut self, node: &mut Formatted<String>) {
        node.fmt();
        self.touched += 1;
    }
    fn visit_float_mut(&mut self, node: &mut Formatted<f64>) {
        node.fmt();
        self.touched += 1;
    }
    fn visit_boolean_mut(&mut self, node: &mut Formatted<bool>) {
        node.fmt();
        self.touched += 1;
    }
    fn visit_datetime_mut(&mut self, node: &mut Formatted<Datetime>) {
        node.fmt();
        self.touched += 1;
    }
}

/// all trivia of a document in walk order: what surrounds keys, values and tables, what trails
/// arrays and the document
fn all_trivia(doc: &DocumentMut) -> Vec<String> {
    fn raw(r: Option<&toml_edit::RawString>) -> String {
        match r {
            None => "<default>".to_string(),
            Some(r) => r.as_str().unwrap_or("<in source>").to_string(),
        }
    }
    fn decor(d: &toml_edit::Decor, out: &mut Vec<String>) {
        out.push(raw(d.prefix()));
        out.push(raw(d.suffix()));
    }
    fn value(v: &Value, out: &mut Vec<String>) {
        decor(v.decor(), out);
        match v {
            Value::Array(a) => {
                for e in a.iter() {
                    value(e, out);
                }
                out.push(raw(Some(a.trailing())));
            }
            Value::InlineTable(t) => {
                for (k, e) in t.iter() {
                    if let Some(key) = t.key(k) {
                        decor(key.leaf_decor(), out);
                        decor(key.dotted_decor(), out);
                    }
                    value(e, out);
                }
            }
            _ => {}
        }
    }
    fn table(t: &Table, out: &mut Vec<String>) {
        decor(t.decor(), out);
        for (k, i) in t.iter() {
            if let Some(key) = t.key(k) {
                decor(key.leaf_decor(), out);
                decor(key.dotted_decor(), out);
            }
            match i {
                Item::Value(v) => value(v, out),
                Item::Table(c) => table(c, out),
                Item::ArrayOfTables(a) => a.iter().for_each(|c| table(c, out)),
                Item::None => {}
            }
        }
    }
    let mut out = Vec::new();
    table(doc.as_table(), &mut out);
    out.push(raw(Some(doc.trailing())));
    out
}

fn model_rewrite(v: &RVal, kind: u8, n: &mut usize) -> RVal {
    match v {
        RVal::Int(i) if kind == 0 => {
            *n += 1;
            RVal::Int(i.wrapping_add(1))
        }
        RVal::Str(s) if kind == 1 => {
            *n += 1;
            RVal::Str(format!("{s}!"))
        }
        RVal::Float(b) if kind == 2 => {
            *n += 1;
            RVal::Float((-f64::from_bits(*b)).to_bits())
        }
        RVal::Bool(b) if kind == 3 => {
            *n += 1;
            RVal::Bool(!b)
        }
        RVal::Dt(d) if kind == 4 => {
            *n += 1;
            let mut d = d.clone();
            if let Some(t) = d.time.as_mut() {
                t.nanos = 7;
            }
            if let Some(x) = d.date.as_mut() {
                x.day = 1;
            }
            RVal::Dt(d)
        }
        RVal::Array(a) => RVal::Array(a.iter().map(|x| model_rewrite(x, kind, n)).collect()),
        RVal::Table(t) => RVal::Table(RTable { entries: t.entries.iter().map(|(k, x)| (k.clone(), model_rewrite(x, kind, n))).collect(), alt: None, dotted: t.dotted }),
        other => other.clone(),
    }
}

fn first_diff(a: &[Ev], b: &[Ev]) -> String {
    for (i, (x, y)) in a.iter().zip(b.iter()).enumerate() {
        if x != y {
            return format!("event {i}: expected {}({:?}) got {}({:?}); expected {} events, got {}", x.0, x.2, y.0, y.2, a.len(), b.len());
        }
    }
    let i = a.len().min(b.len());
    format!("sequences agree on the first {i} events; expected {} events (next {:?}), got {} (next {:?})", a.len(), a.get(i).map(|e| e.0), b.len(), b.get(i).map(|e| e.0))
}

/// turn one table / array of tables somewhere below the root into a value, in place
fn convert_somewhere(doc: &mut DocumentMut, rng: &mut Rng) -> Option<&'static str> {
    fn collect(t: &Table, here: &mut Vec<String>, out: &mut Vec<Vec<String>>) {
        for (k, v) in t.iter() {
            here.push(k.to_string());
            match v {
                Item::Table(c) => {
                    out.push(here.clone());
                    collect(c, here, out);
                }
                Item::ArrayOfTables(_) => out.push(here.clone()),
                _ => {}
            }
            here.pop();
        }
    }
    let mut paths = Vec::new();
    collect(doc.as_table(), &mut Vec::new(), &mut paths);
    if paths.is_empty() {
        return None;
    }
    let path = paths[rng.below(paths.len())].clone();
    let mut cur: &mut Item = doc.as_item_mut();
    for k in &path {
        cur = cur.get_mut(k.as_str())?;
    }
    let is_table = cur.is_table();
    match rng.below(3) {
        0 => {
            cur.make_value();
            Some(if is_table { "Item::make_value(table)" } else { "Item::make_value(array of tables)" })
        }
        1 => {
            let taken = std::mem::take(cur);
            *cur = match taken {
                Item::Table(t) => Item::Value(Value::InlineTable(t.into_inline_table())),
                Item::ArrayOfTables(a) => Item::Value(Value::Array(a.into_array())),
                other => other,
            };
            Some(if is_table { "Table::into_inline_table" } else { "ArrayOfTables::into_array" })
        }
        _ => {
            let taken = std::mem::take(cur);
            *cur = match taken.into_value() {
                Ok(v) => Item::Value(v),
                Err(back) => back,
            };
            Some(if is_table { "Item::into_value(table)" } else { "Item::into_value(array of tables)" })
        }
    }
}

impl C20 {
    /// the data the read-only visitor is shown == the data the document prints
    fn visible_is_printed(&mut self, ctx: &mut Ctx, doc: &DocumentMut, how: &str) -> bool {
        let r = guarded(|| {
            let mut b = Build::default();
            b.visit_document(doc);
            (b.result, b.orphans, doc.to_string())
        });
        match r {
            Err((loc, msg)) => {
                ctx.violation(&format!("panic:{}", crate::short_loc(&loc)), format!("visiting / printing after {how} panicked at {loc}: {msg}"));
                false
            }
            Ok((Some(tree), 0, printed)) => {
                let d = refmodel::decode::decode(&printed);
                if d.verdict != refmodel::decode::Verdict::Valid {
                    // what the conversion printed is C06's and C08's business
                    ctx.count("converted-first/print-not-judged");
                    return true;
                }
                ctx.count("visible-is-printed-checks");
                let ok = [d.tree.as_ref(), d.tree_nl.as_ref()].into_iter().flatten().any(|t| t.diff(&tree, KeyOrder::Any).is_none());
                if !ok {
                    let diff = d.tree.as_ref().unwrap().diff(&tree, KeyOrder::Any).unwrap_or_default();
                    ctx.violation("visited-data-differs-from-print", format!("after {how}: the visitor is shown data the document does not print (or the reverse): {diff}; printed {printed:?}"));
                    return false;
                }
                true
            }
            Ok((t, orphans, _)) => {
                ctx.violation("visit-callbacks-out-of-structure", format!("after {how}: a value callback arrived outside any key/value pair ({orphans} times) or no table was visited (root seen: {})", t.is_some()));
                false
            }
        }
    }

    fn judge(&mut self, ctx: &mut Ctx, mut doc: DocumentMut, rng: &mut Rng, source: Option<&str>) {
        if let Some(text) = source {
            // document order: the data the visitor meets, in the order it meets it, against R
            let d = refmodel::decode::decode(text);
            if d.verdict == refmodel::decode::Verdict::Valid && d.tree_nl.is_none() {
                let built = guarded(|| {
                    let mut b = Build::default();
                    b.visit_document(&doc);
                    (b.result, b.orphans)
                });
                match built {
                    Err((loc, msg)) => ctx.violation(&format!("panic:{}", crate::short_loc(&loc)), format!("visiting panicked at {loc}: {msg}")),
                    Ok((Some(tree), 0)) => {
                        ctx.count("document-order-checks");
                        if let Some(diff) = d.tree.as_ref().unwrap().diff(&tree, KeyOrder::ExactOrAlt) {
                            let sig = if diff.contains("key order") { "visit-order-differs-from-document" } else { "visited-data-differs-from-document" };
                            ctx.violation(sig, format!("the data met by the read-only visitor, in the order it is met, against the source text: {diff}"));
                        }
                    }
                    Ok((t, orphans)) => ctx.violation("visit-callbacks-out-of-structure", format!("a value callback arrived outside any key/value pair ({orphans} times) or no table was visited (root seen: {})", t.is_some())),
                }
            }
        }
        let r = guarded(|| {
            let expected = walk_document(&doc);
            let mut rec = Rec::default();
            rec.visit_document(&doc);
            let mut recm = RecMut::default();
            recm.visit_document_mut(&mut doc);
            let before = obs::edit_table_to_r(doc.as_table());
            // first a visitor that only re-spells scalars: same data, and not one piece of trivia
            // (comments, blank lines, indentation) may change
            let trivia_before = all_trivia(&doc);
            let mut rs = Respell { touched: 0 };
            rs.visit_document_mut(&mut doc);
            let trivia_after = all_trivia(&doc);
            let respelled = obs::edit_table_to_r(doc.as_table());
            let respell = (rs.touched, trivia_before == trivia_after, before.diff(&respelled, KeyOrder::Exact), trivia_before.iter().zip(trivia_after.iter()).find(|(a, b)| a != b).map(|(a, b)| format!("{a:?} became {b:?}")));
            let kind = rng.below(5) as u8;
            let mut rw = Rewrite { kind, touched: 0 };
            rw.visit_document_mut(&mut doc);
            let after = obs::edit_table_to_r(doc.as_table());
            let printed = doc.to_string();
            let reparsed = DocumentMut::from_str(&printed).map(|d| obs::edit_table_to_r(d.as_table())).map_err(|e| e.to_string());
            (expected, rec.log, recm.log, before, after, kind, rw.touched, reparsed, printed, respell)
        });
        let (expected, log, logm, before, after, kind, touched, reparsed, printed, respell) = match r {
            Ok(x) => x,
            Err((loc, msg)) => {
                ctx.violation(&format!("panic:{}", crate::short_loc(&loc)), format!("visiting panicked at {loc}: {msg}"));
                return;
            }
        };
        for e in &expected {
            ctx.count(&format!("callbacks/{}", e.0));
        }
        ctx.add("events-compared", 2 * expected.len() as u64);
        if expected.len() >= 8 {
            ctx.nontrivial(hash_bytes(printed.as_bytes()));
        }
        if log != expected {
            // classify: which method is missing or duplicated
            let mut sig = "visit-sequence-differs".to_string();
            for name in ["document", "table", "table_like", "kv", "item", "value", "array", "inline_table", "array_of_tables", "string", "integer", "float", "boolean", "datetime"] {
                let a = expected.iter().filter(|e| e.0 == name).count();
                let b = log.iter().filter(|e| e.0 == name).count();
                if a != b {
                    sig = format!("visit-count-differs:{name}");
                    break;
                }
            }
            ctx.violation(&sig, format!("Visit: {}", first_diff(&expected, &log)));
        }
        if logm != expected {
            let mut sig = "visit_mut-sequence-differs".to_string();
            for name in ["document", "table", "table_like", "kv", "item", "value", "array", "inline_table", "array_of_tables", "string", "integer", "float", "boolean", "datetime"] {
                let a = expected.iter().filter(|e| e.0 == name).count();
                let b = logm.iter().filter(|e| e.0 == name).count();
                if a != b {
                    sig = format!("visit_mut-count-differs:{name}");
                    break;
                }
            }
            ctx.violation(&sig, format!("VisitMut: {}", first_diff(&expected, &logm)));
        }
        {
            let (respelled, trivia_same, data_diff, first) = respell;
            ctx.add("respelled-scalars", respelled as u64);
            if let Some(diff) = data_diff {
                ctx.violation("respelling-changes-data", format!("a visitor calling fmt() on every scalar changed the data: {diff}"));
            }
            if !trivia_same {
                ctx.violation("respelling-changes-trivia", format!("a visitor calling fmt() on every scalar changed text around them: {}", first.unwrap_or_else(|| "the number of pieces differs".into())));
            }
        }
        let mut n = 0;
        let want = model_rewrite(&before, kind, &mut n);
        let kind_name = ["integer", "string", "float", "boolean", "datetime"][kind as usize];
        ctx.count(&format!("rewrites/{kind_name}"));
        ctx.add("rewritten-scalars", n as u64);
        if touched != n {
            ctx.violation(&format!("rewrite-misses-scalars:{kind_name}"), format!("the rewriting visitor was called for {touched} {kind_name} scalars, the document holds {n}"));
        }
        if let Some(diff) = want.diff(&after, KeyOrder::Exact) {
            ctx.violation(&format!("rewrite-result-differs:{kind_name}"), format!("after rewriting every {kind_name}: {diff}"));
        }
        match reparsed {
            Ok(t) => {
                if let Some(diff) = want.diff(&t, KeyOrder::Any) {
                    ctx.violation(&format!("rewrite-result-differs:{kind_name}"), format!("printed and re-parsed after rewriting every {kind_name}: {diff}; printed {printed:?}"));
                }
            }
            Err(e) => {
                // a rewritten document deeper than the parser limit is not judged here
                if !e.contains("recursion limit") {
                    ctx.violation("rewrite-print-invalid", format!("the rewritten document prints as {printed:?}, refused: {e}"));
                }
            }
        }
        let mut depth = 0usize;
        let mut cur = 0usize;
        for e in &expected {
            match e.0 {
                "table" | "inline_table" | "array" | "array_of_tables" => {
                    cur += 1;
                    depth = depth.max(cur);
                }
                _ => {}
            }
        }
        ctx.max("deepest-container-callbacks-in-one-document", depth as u64);
    }
}

impl Check for C20 {
    fn id(&self) -> &'static str {
        "C20"
    }
    fn workloads(&mut self, tier: Tier, _seed: u64) -> Vec<(String, u64)> {
        let k = if tier == Tier::Quick { 10 } else { 80 };
        vec![("corpus".into(), docs::corpus().len() as u64), ("render".into(), 60_000 * k), ("built".into(), 40_000 * k)]
    }
    fn run(&mut self, ctx: &mut Ctx, workload: &str, index: u64, rng: &mut Rng) {
        ctx.eval();
        let doc = match workload {
            "corpus" => {
                let f = &docs::corpus()[index as usize];
                match std::str::from_utf8(&f.bytes).ok().and_then(|t| DocumentMut::from_str(t).ok()) {
                    Some(d) => {
                        ctx.set_input_bytes(&f.bytes);
                        d
                    }
                    None => return,
                }
            }
            "render" => {
                let d = docs::rendered(rng);
                ctx.set_input(&d.text);
                match DocumentMut::from_str(&d.text) {
                    Ok(x) => x,
                    Err(_) => return,
                }
            }
            "built" => {
                let mut budget = *rng.pick(&[6, 15, 40]);
                let tree = gen::gen_tree(rng, &mut budget, 0);
                ctx.set_input(&RVal::Table(tree.clone()).show());
                let built = guarded(|| {
                    let mut b = crate::c06::Builder { rng, routes: Vec::new() };
                    let (t, _) = b.table(&tree, 0);
                    let d: DocumentMut = t.into();
                    d
                });
                match built {
                    Ok(d) => d,
                    Err((loc, msg)) => {
                        ctx.violation(&format!("panic:{}", crate::short_loc(&loc)), format!("building panicked at {loc}: {msg}"));
                        return;
                    }
                }
            }
            other => {
                ctx.inconclusive(format!("unknown workload {other}"));
                return;
            }
        };
        let mut doc = doc;
        let mut source: Option<String> = match workload {
            "corpus" | "render" => ctx.cur_input.clone(),
            _ => None,
        };
        // one document in four is edited first: some table or array of tables is turned into a value
        // in place. What the visitors are shown afterwards must be what the document prints.
        if workload != "corpus" && rng.chance(1, 4) {
            match guarded(|| {
                let how = convert_somewhere(&mut doc, rng);
                (how, doc)
            }) {
                Ok((how, d)) => {
                    doc = d;
                    if let Some(how) = how {
                        ctx.count(&format!("converted-first/{how}"));
                        source = None;
                        if !self.visible_is_printed(ctx, &doc, how) {
                            return;
                        }
                    }
                }
                Err((loc, msg)) => {
                    ctx.violation(&format!("panic:{}", crate::short_loc(&loc)), format!("converting a table in place panicked at {loc}: {msg}"));
                    return;
                }
            }
        }
        self.judge(ctx, doc, rng, source.as_deref());
    }
}
