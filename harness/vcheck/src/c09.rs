//! C09 — no key or table definition is ever silently overwritten or merged.
//! Exhaustive enumeration of short statement sequences, judged by R's definition-rule model.

use crate::c01::{reason_class, record_r_coverage};
use crate::ctx::{guarded, Ctx, Tier};
use crate::obs;
use crate::Check;
use refmodel::decode::{decode, Verdict, U1};
use refmodel::rng::{hash_bytes, Rng};
use refmodel::rval::KeyOrder;
use std::str::FromStr;

pub struct C09 {
    full: Vec<(Vec<&'static str>, u8)>,
    core: Vec<(Vec<&'static str>, u8)>,
}

const KINDS_FULL: u8 = 7;
const INLINE_ENTRY_KINDS: u64 = 14 * 4;

fn paths(alpha: &[&'static str], maxlen: usize) -> Vec<Vec<&'static str>> {
    let mut out: Vec<Vec<&'static str>> = Vec::new();
    let mut cur: Vec<Vec<&'static str>> = vec![vec![]];
    for _ in 0..maxlen {
        let mut next = Vec::new();
        for p in &cur {
            for a in alpha {
                let mut q = p.clone();
                q.push(*a);
                next.push(q);
            }
        }
        out.extend(next.iter().cloned());
        cur = next;
    }
    out
}

fn spell(rng: &mut Rng, seg: &str, variant: u8) -> String {
    match variant {
        0 => seg.to_string(),
        1 => format!("\"{seg}\""),
        2 => format!("'{seg}'"),
        // long names (beyond any fixed-size prefix a hash or comparison might look at): the same
        // name every time, sharing a long prefix or a long suffix with the other names
        // names that cannot be written bare: the quotes are part of the spelling, never of the name
        6 => {
            let name = match seg {
                "a" => String::new(),
                "b" => "b c".to_string(),
                "c" => "é".to_string(),
                "t" => "t.u".to_string(),
                other => format!("{other}(x)"),
            };
            if rng.coin() {
                format!("\"{name}\"")
            } else {
                format!("'{name}'")
            }
        }
        4 => format!("{}{seg}", "k".repeat(40)),
        5 => {
            let long = format!("{seg}{}", "-tail".repeat(9));
            if rng.coin() {
                long
            } else {
                format!("'{long}'")
            }
        }
        _ => match rng.below(4) {
            0 => format!("\"{seg}\""),
            1 => format!("'{seg}'"),
            2 => format!("\"\\u{:04x}\"", seg.chars().next().unwrap() as u32),
            _ => seg.to_string(),
        },
    }
}

fn stmt_text(rng: &mut Rng, path: &[&str], kind: u8, variant: u8) -> String {
    let p: Vec<String> = path.iter().map(|s| spell(rng, s, variant)).collect();
    let p = p.join(if variant == 3 && rng.coin() { " . " } else { "." });
    match kind {
        0 => format!("[{p}]"),
        1 => format!("[[{p}]]"),
        2 => format!("{p} = 1"),
        3 => format!("{p} = {{a.b = 1, a.c = 2}}"),
        4 => format!("{p} = {{b = {{}}}}"),
        5 => format!("{p} = []"),
        _ => format!("{p} = [{{a = 1}}]"),
    }
}

impl C09 {
    pub fn new() -> Self {
        let p2 = paths(&["a", "b"], 3);
        let mut full = Vec::new();
        for p in &p2 {
            for k in 0..KINDS_FULL {
                full.push((p.clone(), k));
            }
        }
        let mut core = Vec::new();
        for p in &p2 {
            for k in 0..4u8 {
                core.push((p.clone(), k));
            }
        }
        C09 { full, core }
    }

    fn judge(&mut self, ctx: &mut Ctx, text: &str, nstmts: usize) {
        ctx.eval();
        ctx.set_input(text);
        let d = decode(text);
        let r = guarded(|| {
            let e = toml_edit::DocumentMut::from_str(text).map(|d| obs::edit_table_to_r(d.as_table())).map_err(|e| e.to_string());
            let t = toml::from_str::<toml::Table>(text).map(|t| obs::toml_table_to_r(&t)).map_err(|e| e.to_string());
            // targets that throw the content away must still see the refusal
            let ign = [
                ("toml::from_str::<IgnoredAny>", toml::from_str::<serde::de::IgnoredAny>(text).is_ok()),
                ("toml_edit::de::from_str::<IgnoredAny>", toml_edit::de::from_str::<serde::de::IgnoredAny>(text).is_ok()),
                ("toml::Value::from_str", toml::Value::from_str(text).is_ok()),
                ("toml_edit::Value::from_str(inline)", true),
            ];
            (e, t, ign)
        });
        let (e, t, ign) = match r {
            Ok(x) => x,
            Err((loc, msg)) => {
                ctx.violation(&format!("panic:{}", crate::short_loc(&loc)), format!("parser panicked at {loc}: {msg}"));
                return;
            }
        };
        if e.is_ok() != t.is_ok() {
            ctx.violation("entry-points-disagree", format!("DocumentMut: {:?}, toml::Table: {:?}", e.as_ref().map(|_| "ok"), t.as_ref().map(|_| "ok")));
            return;
        }
        for (name, ok) in ign.iter().take(3) {
            if *ok != e.is_ok() {
                ctx.violation("entry-points-disagree", format!("DocumentMut: {:?}, {name}: {}", e.as_ref().map(|_| "ok"), if *ok { "ok" } else { "refused" }));
                return;
            }
        }
        if nstmts >= 2 {
            ctx.nontrivial(hash_bytes(text.as_bytes()));
        }
        record_r_coverage(ctx, &d);
        match &d.verdict {
            Verdict::Valid => {
                ctx.count("model/accepts");
                match (&e, &t) {
                    (Ok(et), Ok(tt)) => {
                        let exp = d.tree.as_ref().unwrap();
                        if let Some(diff) = exp.diff(et, KeyOrder::ExactOrAlt) {
                            ctx.violation("merged-tree-differs", format!("DocumentMut: {diff}"));
                        }
                        let order = if obs::PRESERVE_ORDER { KeyOrder::ExactOrAlt } else { KeyOrder::Any };
                        if let Some(diff) = exp.diff(tt, order) {
                            ctx.violation("merged-tree-differs", format!("toml::Table: {diff}"));
                        }
                    }
                    _ => ctx.violation("permitted-combination-rejected", format!("the definition model accepts, the parser refuses: {}", e.as_ref().err().cloned().unwrap_or_default().lines().last().unwrap_or(""))),
                }
            }
            Verdict::Invalid(reason) => {
                ctx.count("model/rejects");
                let rc = reason_class(reason);
                ctx.count(&format!("reject/{rc}"));
                if e.is_ok() {
                    ctx.violation(&format!("forbidden-definition-accepted:{rc}"), format!("the definition model rejects ({reason}), the parser accepts and yields {}", e.as_ref().unwrap().show()));
                }
            }
            Verdict::Undecided(U1::B) => ctx.count("model/U1-b-skipped"),
            other => ctx.count(&format!("model/other-{other:?}")),
        }
    }
}

impl Check for C09 {
    fn id(&self) -> &'static str {
        "C09"
    }
    fn workloads(&mut self, tier: Tier, _seed: u64) -> Vec<(String, u64)> {
        let n = self.full.len() as u64;
        let c = self.core.len() as u64;
        let mut w = vec![("seq1".to_string(), n), ("seq2".to_string(), n * n), ("seq3".to_string(), n * n * n), ("random-long".to_string(), if tier == Tier::Quick { 300_000 } else { 8_000_000 })];
        if tier == Tier::Thorough {
            w.push(("core-seq4".to_string(), c * c * c * c));
        }
        // definitions inside one inline table: 56 entry kinds (14 paths x 4 values), every table of
        // up to three entries; and random deeper ones, with a statement after them half of the time
        let e = INLINE_ENTRY_KINDS;
        w.push(("inline-exhaustive".to_string(), e + e * e + e * e * e));
        w.push(("inline-random".to_string(), if tier == Tier::Quick { 300_000 } else { 8_000_000 }));
        w
    }
    fn run(&mut self, ctx: &mut Ctx, workload: &str, index: u64, rng: &mut Rng) {
        // 0 bare, 1 basic, 2 literal, 3 mixed (most), 4 / 5 long names
        let variant = match rng.below(11) {
            v @ 0..=2 => v as u8,
            8 => 4,
            9 => 5,
            10 => 6,
            _ => 3,
        };
        let mut text = String::new();
        let nst;
        match workload {
            "seq1" | "seq2" | "seq3" | "core-seq4" => {
                let (set, len) = match workload {
                    "seq1" => (&self.full, 1),
                    "seq2" => (&self.full, 2),
                    "seq3" => (&self.full, 3),
                    _ => (&self.core, 4),
                };
                let n = set.len() as u64;
                let mut i = index;
                let mut picks = Vec::new();
                for _ in 0..len {
                    picks.push((i % n) as usize);
                    i /= n;
                }
                for &k in picks.iter().rev() {
                    let (p, kind) = &set[k];
                    text.push_str(&stmt_text(rng, p, *kind, variant));
                    text.push('\n');
                }
                nst = len;
                ctx.count(&format!("exhaustive/{workload}"));
            }
            "random-long" => {
                let alpha = ["a", "b", "c"];
                let len = 4 + rng.below(5);
                for _ in 0..len {
                    let pl = 1 + rng.below(3);
                    let p: Vec<&str> = (0..pl).map(|_| *rng.pick(&alpha)).collect();
                    let kind = rng.below(KINDS_FULL as usize) as u8;
                    let kind = if rng.chance(1, 2) { kind.min(2) } else { kind };
                    text.push_str(&stmt_text(rng, &p, kind, variant));
                    text.push('\n');
                }
                nst = len;
            }
            "inline-exhaustive" => {
                let e = INLINE_ENTRY_KINDS;
                let (len, mut i) = if index < e {
                    (1, index)
                } else if index < e + e * e {
                    (2, index - e)
                } else {
                    (3, index - e - e * e)
                };
                let p2 = paths(&["a", "b"], 3);
                let mut entries = Vec::new();
                for _ in 0..len {
                    let k = (i % e) as usize;
                    i /= e;
                    let path: Vec<String> = p2[k / 4].iter().map(|s| spell(rng, s, variant)).collect();
                    let val = ["1", "{}", "{a = 1}", "{a.b = 1}"][k % 4];
                    entries.push(format!("{} = {val}", path.join(".")));
                }
                entries.reverse();
                text = format!("t = {{ {} }}\n", entries.join(", "));
                nst = len;
                ctx.count("exhaustive/inline");
            }
            "inline-random" => {
                fn table(rng: &mut Rng, depth: usize, variant: u8) -> String {
                    // one table in eight is wide: many entries, mostly plain keys, over a larger
                    // alphabet (a table's size must not change how its keys are checked)
                    let wide = rng.chance(1, 8);
                    let alpha: &[&str] = if wide { &["a", "b", "c", "d", "e", "f", "g", "h", "i", "j", "k", "l", "m", "n"] } else { &["a", "b", "c"] };
                    let n = if wide { 6 + rng.below(14) } else { 1 + rng.below(4) };
                    let mut es = Vec::new();
                    for _ in 0..n {
                        let pl = if wide && !rng.chance(1, 6) { 1 } else { 1 + rng.below(4) };
                        let mut p: Vec<String> = Vec::new();
                        for _ in 0..pl {
                            let seg = *rng.pick(alpha);
                            p.push(spell(rng, seg, variant));
                        }
                        let v = match rng.below(8) {
                            0 | 1 if depth < 3 => table(rng, depth + 1, variant),
                            2 => "{}".to_string(),
                            3 => "[]".to_string(),
                            4 if depth < 3 => format!("[{}]", table(rng, depth + 1, variant)),
                            _ => "1".to_string(),
                        };
                        es.push(format!("{} = {v}", p.join(if variant == 3 && rng.coin() { " . " } else { "." })));
                    }
                    format!("{{ {} }}", es.join(", "))
                }
                let head = match rng.below(4) {
                    0 => "t".to_string(),
                    1 => "t.a".to_string(),
                    2 => "a".to_string(),
                    _ => "t".to_string(),
                };
                if rng.chance(1, 4) {
                    text.push_str("[x]\n");
                }
                text.push_str(&format!("{head} = {}\n", table(rng, 0, variant)));
                nst = 2;
                if rng.coin() {
                    // a later statement that touches the (frozen) inline table or a neighbour
                    let alpha = ["a", "b", "c", "t"];
                    let pl = 1 + rng.below(3);
                    let p: Vec<&str> = (0..pl).map(|_| *rng.pick(&alpha)).collect();
                    let kind = rng.below(3) as u8;
                    let mut full = vec![if rng.coin() { "t" } else { "a" }];
                    full.extend(p);
                    text.push_str(&stmt_text(rng, &full, kind, variant));
                    text.push('\n');
                }
            }
            other => {
                ctx.inconclusive(format!("unknown workload {other}"));
                return;
            }
        }
        if index % 100_003 == 0 {
            ctx.sample(workload, || text.clone());
        }
        self.judge(ctx, &text, nst);
    }
}
