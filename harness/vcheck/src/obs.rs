//! Observers: turn what the code under test returns into plain `RVal` trees, through public
//! accessors only.

use refmodel::rval::*;

pub fn dt_to_r(d: &toml_datetime::Datetime) -> RDatetime {
    RDatetime {
        date: d.date.map(|x| RDate { year: x.year, month: x.month, day: x.day }),
        time: d.time.map(|t| RTime { hour: t.hour, minute: t.minute, second: t.second, nanos: t.nanosecond }),
        offset: d.offset.map(|o| match o {
            toml_datetime::Offset::Z => ROffset::Z,
            toml_datetime::Offset::Custom { minutes } => ROffset::Minutes(minutes),
        }),
    }
}

pub fn r_to_dt(d: &RDatetime) -> toml_datetime::Datetime {
    toml_datetime::Datetime {
        date: d.date.as_ref().map(|x| toml_datetime::Date { year: x.year, month: x.month, day: x.day }),
        time: d.time.as_ref().map(|t| toml_datetime::Time { hour: t.hour, minute: t.minute, second: t.second, nanosecond: t.nanos }),
        offset: d.offset.as_ref().map(|o| match o {
            ROffset::Z => toml_datetime::Offset::Z,
            ROffset::Minutes(m) => toml_datetime::Offset::Custom { minutes: *m },
        }),
    }
}

pub fn edit_value_to_r(v: &toml_edit::Value) -> RVal {
    use toml_edit::Value as V;
    match v {
        V::String(_) => RVal::Str(v.as_str().expect("as_str on String").to_string()),
        V::Integer(_) => RVal::Int(v.as_integer().expect("as_integer")),
        V::Float(_) => RVal::Float(v.as_float().expect("as_float").to_bits()),
        V::Boolean(_) => RVal::Bool(v.as_bool().expect("as_bool")),
        V::Datetime(_) => RVal::Dt(dt_to_r(v.as_datetime().expect("as_datetime"))),
        V::Array(a) => RVal::Array(a.iter().map(edit_value_to_r).collect()),
        V::InlineTable(t) => RVal::table(t.iter().map(|(k, v)| (k.to_string(), edit_value_to_r(v))).collect()),
    }
}

pub fn edit_table_to_r(t: &toml_edit::Table) -> RVal {
    RVal::table(t.iter().map(|(k, v)| (k.to_string(), edit_item_to_r(v))).collect())
}

pub fn edit_item_to_r(i: &toml_edit::Item) -> RVal {
    use toml_edit::Item as I;
    match i {
        I::None => RVal::Str("<Item::None>".into()),
        I::Value(v) => edit_value_to_r(v),
        I::Table(t) => edit_table_to_r(t),
        I::ArrayOfTables(a) => RVal::Array(a.iter().map(edit_table_to_r).collect()),
    }
}

pub fn toml_value_to_r(v: &toml::Value) -> RVal {
    use toml::Value as V;
    match v {
        V::String(s) => RVal::Str(s.clone()),
        V::Integer(i) => RVal::Int(*i),
        V::Float(f) => RVal::Float(f.to_bits()),
        V::Boolean(b) => RVal::Bool(*b),
        V::Datetime(d) => RVal::Dt(dt_to_r(d)),
        V::Array(a) => RVal::Array(a.iter().map(toml_value_to_r).collect()),
        V::Table(t) => toml_table_to_r(t),
    }
}

pub fn toml_table_to_r(t: &toml::Table) -> RVal {
    RVal::table(t.iter().map(|(k, v)| (k.clone(), toml_value_to_r(v))).collect())
}

/// true when toml::Table keeps insertion order in this build
pub const PRESERVE_ORDER: bool = cfg!(feature = "po");

// ------------------------------------------------------------------ the same data through other accessors

/// the tree read through `Item`'s own accessors and lookups (`is_*`, `as_*`, `get`, `get_key_value`,
/// `contains_*`, indexing) instead of matching on the enums; any disagreement between those
/// accessors shows up as a marker string in the tree
pub fn edit_table_to_r_by_accessors(t: &toml_edit::Table) -> RVal {
    let mut entries = Vec::new();
    for (k, item) in t.iter() {
        let looked_up = t.get(k).map(|i| std::ptr::eq(i, item)).unwrap_or(false) && t.get_key_value(k).map_or(false, |(key, _)| key.get() == k) && t.contains_key(k);
        let v = if looked_up { edit_item_by_accessors(item) } else { RVal::Str(format!("<lookup of {k:?} does not find the iterated entry>")) };
        entries.push((k.to_string(), v));
    }
    if t.len() != entries.len() || t.is_empty() != entries.is_empty() {
        entries.push(("<len() / is_empty() disagree with iteration>".into(), RVal::Bool(false)));
    }
    RVal::table(entries)
}

fn edit_item_by_accessors(i: &toml_edit::Item) -> RVal {
    let kinds = [i.is_integer(), i.is_float(), i.is_bool(), i.is_str(), i.is_datetime(), i.is_array(), i.is_inline_table(), i.is_table(), i.is_array_of_tables(), i.is_none()];
    if kinds.iter().filter(|b| **b).count() != 1 {
        return RVal::Str(format!("<Item::is_* accessors are not exclusive: {kinds:?} for a {}>", i.type_name()));
    }
    if i.is_value() != i.as_value().is_some() || i.is_table_like() != (i.is_table() || i.is_inline_table()) {
        return RVal::Str("<is_value / is_table_like disagree with the other accessors>".into());
    }
    if let Some(x) = i.as_integer() {
        return RVal::Int(x);
    }
    if let Some(x) = i.as_float() {
        return RVal::Float(x.to_bits());
    }
    if let Some(x) = i.as_bool() {
        return RVal::Bool(x);
    }
    if let Some(x) = i.as_str() {
        return RVal::Str(x.to_string());
    }
    if let Some(x) = i.as_datetime() {
        return RVal::Dt(dt_to_r(x));
    }
    if let Some(a) = i.as_array() {
        let mut out = Vec::new();
        for idx in 0..a.len() {
            match a.get(idx) {
                Some(v) => out.push(edit_value_by_accessors(v)),
                None => out.push(RVal::Str("<Array::get misses an index below len()>".into())),
            }
        }
        return RVal::Array(out);
    }
    if let Some(t) = i.as_inline_table() {
        return inline_by_accessors(t);
    }
    if let Some(t) = i.as_table() {
        return edit_table_to_r_by_accessors(t);
    }
    if let Some(a) = i.as_array_of_tables() {
        return RVal::Array((0..a.len()).map(|idx| a.get(idx).map(edit_table_to_r_by_accessors).unwrap_or_else(|| RVal::Str("<ArrayOfTables::get misses>".into()))).collect());
    }
    RVal::Str("<no accessor answers>".into())
}

fn inline_by_accessors(t: &toml_edit::InlineTable) -> RVal {
    let mut entries = Vec::new();
    for (k, v) in t.iter() {
        let ok = t.get(k).map_or(false, |x| std::ptr::eq(x, v)) && t.contains_key(k);
        entries.push((k.to_string(), if ok { edit_value_by_accessors(v) } else { RVal::Str(format!("<lookup of {k:?} does not find the iterated entry>")) }));
    }
    if t.len() != entries.len() || t.is_empty() != entries.is_empty() {
        entries.push(("<len() / is_empty() disagree with iteration>".into(), RVal::Bool(false)));
    }
    RVal::table(entries)
}

fn edit_value_by_accessors(v: &toml_edit::Value) -> RVal {
    let kinds = [v.is_integer(), v.is_float(), v.is_bool(), v.is_str(), v.is_datetime(), v.is_array(), v.is_inline_table()];
    if kinds.iter().filter(|b| **b).count() != 1 {
        return RVal::Str(format!("<Value::is_* accessors are not exclusive: {kinds:?} for a {}>", v.type_name()));
    }
    if let Some(x) = v.as_integer() {
        return RVal::Int(x);
    }
    if let Some(x) = v.as_float() {
        return RVal::Float(x.to_bits());
    }
    if let Some(x) = v.as_bool() {
        return RVal::Bool(x);
    }
    if let Some(x) = v.as_str() {
        return RVal::Str(x.to_string());
    }
    if let Some(x) = v.as_datetime() {
        return RVal::Dt(dt_to_r(x));
    }
    if let Some(a) = v.as_array() {
        return RVal::Array(a.iter().map(edit_value_by_accessors).collect());
    }
    if let Some(t) = v.as_inline_table() {
        return inline_by_accessors(t);
    }
    RVal::Str("<no accessor answers>".into())
}

/// toml::Value read through `as_*` / `is_*` / `get` and every iterator the map offers, forwards and
/// backwards
pub fn toml_value_by_accessors(v: &toml::Value) -> RVal {
    let kinds = [v.is_integer(), v.is_float(), v.is_bool(), v.is_str(), v.is_datetime(), v.is_array(), v.is_table()];
    if kinds.iter().filter(|b| **b).count() != 1 {
        return RVal::Str(format!("<toml::Value::is_* accessors are not exclusive: {kinds:?} for a {}>", v.type_str()));
    }
    if let Some(x) = v.as_integer() {
        return RVal::Int(x);
    }
    if let Some(x) = v.as_float() {
        return RVal::Float(x.to_bits());
    }
    if let Some(x) = v.as_bool() {
        return RVal::Bool(x);
    }
    if let Some(x) = v.as_str() {
        return RVal::Str(x.to_string());
    }
    if let Some(x) = v.as_datetime() {
        return RVal::Dt(dt_to_r(x));
    }
    if let Some(a) = v.as_array() {
        return RVal::Array((0..a.len()).map(|i| v.get(i).map(toml_value_by_accessors).unwrap_or_else(|| RVal::Str("<get(index) misses>".into()))).collect());
    }
    if let Some(t) = v.as_table() {
        return toml_table_by_accessors(t);
    }
    RVal::Str("<no accessor answers>".into())
}

pub fn toml_table_by_accessors(t: &toml::Table) -> RVal {
    let fwd: Vec<&String> = t.keys().collect();
    let mut back: Vec<&String> = t.keys().rev().collect();
    back.reverse();
    let mut back2: Vec<&String> = t.iter().rev().map(|(k, _)| k).collect();
    back2.reverse();
    let vals: Vec<*const toml::Value> = t.values().map(|v| v as *const _).collect();
    let mut vals_back: Vec<*const toml::Value> = t.values().rev().map(|v| v as *const _).collect();
    vals_back.reverse();
    let mut last_first: Vec<&String> = Vec::new();
    let mut it = t.iter();
    while let Some((k, _)) = it.next_back() {
        last_first.push(k);
    }
    last_first.reverse();
    let mut entries = Vec::new();
    if fwd != back || fwd != back2 || fwd != last_first || vals != vals_back || t.len() != fwd.len() || t.iter().len() != fwd.len() || t.is_empty() != fwd.is_empty() {
        entries.push(("<forward and backward iteration of toml::Table disagree>".to_string(), RVal::Bool(false)));
    }
    for (i, k) in fwd.iter().enumerate() {
        let v = match (t.get(k.as_str()), t.get_key_value(k.as_str())) {
            (Some(v), Some((k2, v2))) if std::ptr::eq(v, v2) && k2 == *k && std::ptr::eq(v as *const _, vals[i]) && t.contains_key(k.as_str()) => toml_value_by_accessors(v),
            _ => RVal::Str(format!("<lookup of {k:?} does not find the iterated entry>")),
        };
        entries.push(((*k).clone(), v));
    }
    RVal::table(entries)
}
