//! Observers: turn what the code under test returns into plain `RVal` trees, through public
//! accessors only.

use refmodel::rval::*;

pub fn dt_to_r(d: &toml_datetime::Datetime) -> RDatetime {
    RDatetime {
        date: d.date.map(|x| RDate { year: x.year, month: x.month, day: x.day }),
        time: d.time.map(|t| RTime { hour: t.hour, minute: t.minute, second: t.second, nanos: t.nanosecond }),
        offset: d.offset.map(|o| match o {
            toml_datetime::Offset::Z => ROffset::Z,
            toml_datetime::Offset::Custom { minutes } => ROffset::Minutes(minutes),
        }),
    }
}

pub fn r_to_dt(d: &RDatetime) -> toml_datetime::Datetime {
    toml_datetime::Datetime {
        date: d.date.as_ref().map(|x| toml_datetime::Date { year: x.year, month: x.month, day: x.day }),
        time: d.time.as_ref().map(|t| toml_datetime::Time { hour: t.hour, minute: t.minute, second: t.second, nanosecond: t.nanos }),
        offset: d.offset.as_ref().map(|o| match o {
            ROffset::Z => toml_datetime::Offset::Z,
            ROffset::Minutes(m) => toml_datetime::Offset::Custom { minutes: *m },
        }),
    }
}

pub fn edit_value_to_r(v: &toml_edit::Value) -> RVal {
    use toml_edit::Value as V;
    match v {
        V::String(_) => RVal::Str(v.as_str().expect("as_str on String").to_string()),
        V::Integer(_) => RVal::Int(v.as_integer().expect("as_integer")),
        V::Float(_) => RVal::Float(v.as_float().expect("as_float").to_bits()),
        V::Boolean(_) => RVal::Bool(v.as_bool().expect("as_bool")),
        V::Datetime(_) => RVal::Dt(dt_to_r(v.as_datetime().expect("as_datetime"))),
        V::Array(a) => RVal::Array(a.iter().map(edit_value_to_r).collect()),
        V::InlineTable(t) => RVal::table(t.iter().map(|(k, v)| (k.to_string(), edit_value_to_r(v))).collect()),
    }
}

pub fn edit_table_to_r(t: &toml_edit::Table) -> RVal {
    RVal::table(t.iter().map(|(k, v)| (k.to_string(), edit_item_to_r(v))).collect())
}

pub fn edit_item_to_r(i: &toml_edit::Item) -> RVal {
    use toml_edit::Item as I;
    match i {
        I::None => RVal::Str("<Item::None>".into()),
        I::Value(v) => edit_value_to_r(v),
        I::Table(t) => edit_table_to_r(t),
        I::ArrayOfTables(a) => RVal::Array(a.iter().map(edit_table_to_r).collect()),
    }
}

pub fn toml_value_to_r(v: &toml::Value) -> RVal {
    use toml::Value as V;
    match v {
        V::String(s) => RVal::Str(s.clone()),
        V::Integer(i) => RVal::Int(*i),
        V::Float(f) => RVal::Float(f.to_bits()),
        V::Boolean(b) => RVal::Bool(*b),
        V::Datetime(d) => RVal::Dt(dt_to_r(d)),
        V::Array(a) => RVal::Array(a.iter().map(toml_value_to_r).collect()),
        V::Table(t) => toml_table_to_r(t),
    }
}

pub fn toml_table_to_r(t: &toml::Table) -> RVal {
    RVal::table(t.iter().map(|(k, v)| (k.clone(), toml_value_to_r(v))).collect())
}

/// true when toml::Table keeps insertion order in this build
pub const PRESERVE_ORDER: bool = cfg!(feature = "po");
