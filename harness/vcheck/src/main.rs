//! vcheck: one binary, one sub-command per property (worker and replay modes).

mod c01;
mod c02;
mod c03;
mod c04;
mod c05;
mod c06;
mod c07;
mod c08;
mod c09;
mod c10;
mod c11;
mod c12;
mod c13;
mod c14;
mod c15;
mod c16;
mod c17;
mod c20;
mod ctx;
mod docs;
mod gdyn;
mod obs;

use ctx::{Ctx, Tier};
use refmodel::rng::{hash_str_id, mix, Rng};
use std::os::unix::fs::FileExt;

pub trait Check {
    fn id(&self) -> &'static str;
    /// (workload name, number of cases) for the tier
    fn workloads(&mut self, tier: Tier, seed: u64) -> Vec<(String, u64)>;
    fn run(&mut self, ctx: &mut Ctx, workload: &str, index: u64, rng: &mut Rng);
    /// called once per shard after all cases (self-checks that need the whole run)
    fn finish(&mut self, _ctx: &mut Ctx) {}
}

fn registry(id: &str) -> Option<Box<dyn Check>> {
    match id {
        "C01" => Some(Box::new(c01::C01::new())),
        "C02" => Some(Box::new(c02::C02)),
        "C03" => Some(Box::new(c03::C03)),
        "C04" => Some(Box::new(c04::C04::new())),
        "C05" => Some(Box::new(c05::C05::new())),
        "C06" => Some(Box::new(c06::C06)),
        "C07" => Some(Box::new(c07::C07)),
        "C08" => Some(Box::new(c08::C08)),
        "C09" => Some(Box::new(c09::C09::new())),
        "C10" => Some(Box::new(c10::C10)),
        "C11" => Some(Box::new(c11::C11)),
        "C12" => Some(Box::new(c12::C12)),
        "C13" => Some(Box::new(c13::C13)),
        "C14" => Some(Box::new(c14::C14)),
        "C15" => Some(Box::new(c15::C15)),
        "C16" => Some(Box::new(c16::C16)),
        "C17" => Some(Box::new(c17::C17)),
        "C20" => Some(Box::new(c20::C20)),
        _ => None,
    }
}

fn arg_after(args: &[String], flag: &str) -> Option<String> {
    args.iter().position(|a| a == flag).and_then(|i| args.get(i + 1).cloned())
}

fn case_rng(seed: u64, id: &str, wl: &str, idx: u64) -> Rng {
    Rng::new(mix(&[seed, hash_str_id(id), hash_str_id(wl), idx]))
}

fn run_case(check: &mut dyn Check, ctx: &mut Ctx, wl: &str, idx: u64) {
    let mut rng = case_rng(ctx.seed, check.id(), wl, idx);
    ctx.cur_workload.clear();
    ctx.cur_workload.push_str(wl);
    ctx.cur_index = idx;
    ctx.cur_input = None;
    let r = ctx::guarded(|| check.run(ctx, wl, idx, &mut rng));
    if let Err((loc, msg)) = r {
        if ctx::is_harness_location(&loc) {
            ctx.inconclusive(format!("harness panic at {loc}: {msg}"));
        } else {
            // a panic that escaped an un-guarded call into the code under test
            let sig = format!("panic:{}", short_loc(&loc));
            ctx.violation(&sig, format!("panic at {loc}: {msg}"));
        }
    }
}

pub fn short_loc(loc: &str) -> String {
    match loc.find("crates/") {
        Some(i) => loc[i + 7..].to_string(),
        None => loc.to_string(),
    }
}

fn main() {
    let args: Vec<String> = std::env::args().collect();
    if args.len() >= 2 && args[1] == "scale-families" {
        for f in c04::SCALE_FAMILIES {
            println!("{f}");
        }
        return;
    }
    if args.len() < 3 {
        eprintln!("usage: vcheck <Cxx> worker|replay|list ...");
        std::process::exit(2);
    }
    if args[1] == "merge-hashes" {
        let mut set = std::collections::HashSet::new();
        for f in &args[2..] {
            let b = std::fs::read(f).unwrap_or_default();
            for c in b.chunks_exact(8) {
                set.insert(u64::from_le_bytes(c.try_into().unwrap()));
            }
        }
        println!("{}", set.len());
        return;
    }
    if args[1] == "refdump" {
        // vcheck refdump <seed> <first> <n> <outfile>: what the reference decoder says about n
        // generated / mutated / near-miss texts, one JSON object per line (oracle cross-check)
        use refmodel::decode::{decode, LimitKind, Verdict, U1};
        use refmodel::json::escape;
        use refmodel::rval::{show_dt, RVal};
        use std::io::Write;
        fn tagged(v: &RVal, out: &mut String) {
            match v {
                RVal::Str(s) => out.push_str(&format!("{{\"type\":\"string\",\"value\":{}}}", escape(s))),
                RVal::Int(i) => out.push_str(&format!("{{\"type\":\"integer\",\"value\":\"{i}\"}}")),
                RVal::Float(b) => out.push_str(&format!("{{\"type\":\"float\",\"value\":\"{b:016x}\"}}")),
                RVal::Bool(b) => out.push_str(&format!("{{\"type\":\"bool\",\"value\":\"{b}\"}}")),
                RVal::Dt(d) => {
                    let t = match (d.date.is_some(), d.time.is_some(), d.offset.is_some()) {
                        (true, true, true) => "datetime",
                        (true, true, false) => "datetime-local",
                        (true, false, _) => "date-local",
                        _ => "time-local",
                    };
                    let sec60 = d.time.as_ref().map_or(false, |t| t.second == 60);
                    let year0 = d.date.as_ref().map_or(false, |x| x.year == 0);
                    out.push_str(&format!("{{\"type\":\"{t}\",\"value\":\"{}\",\"sec60\":{sec60},\"year0\":{year0}}}", show_dt(d)));
                }
                RVal::Array(a) => {
                    out.push('[');
                    for (i, x) in a.iter().enumerate() {
                        if i > 0 {
                            out.push(',');
                        }
                        tagged(x, out);
                    }
                    out.push(']');
                }
                RVal::Table(t) => {
                    out.push('{');
                    for (i, (k, x)) in t.entries.iter().enumerate() {
                        if i > 0 {
                            out.push(',');
                        }
                        out.push_str(&escape(k));
                        out.push(':');
                        tagged(x, out);
                    }
                    out.push('}');
                }
            }
        }
        let seed: u64 = args[2].parse().unwrap();
        let first: u64 = args[3].parse().unwrap();
        let n: u64 = args[4].parse().unwrap();
        let mut f = std::io::BufWriter::new(std::fs::File::create(&args[5]).unwrap());
        for i in first..first + n {
            let mut rng = Rng::new(mix(&[seed, 0x7011, i]));
            let bytes: Vec<u8> = match i % 6 {
                0 => docs::rendered(&mut rng).text.into_bytes(),
                1 | 2 => docs::mutated(&mut rng, false).0,
                3 => docs::mutated(&mut rng, true).0,
                4 => docs::near_miss_doc(&mut rng).into_bytes(),
                _ => docs::rendered(&mut rng).text.into_bytes(),
            };
            let text = match String::from_utf8(bytes) {
                Ok(t) => t,
                Err(_) => continue,
            };
            let d = decode(&text);
            let (verdict, reason) = match &d.verdict {
                Verdict::Valid => ("valid", String::new()),
                Verdict::Invalid(r) => ("invalid", r.clone()),
                Verdict::Limit(LimitKind::Int) => ("limit-int", String::new()),
                Verdict::Limit(LimitKind::Float) => ("limit-float", String::new()),
                Verdict::Limit(LimitKind::Depth) => ("limit-depth", String::new()),
                Verdict::Undecided(U1::A) => ("u1-a", String::new()),
                Verdict::Undecided(U1::B) => ("u1-b", String::new()),
                Verdict::Undecided(U1::C) => ("u1-c", String::new()),
            };
            let mut line = format!("{{\"i\":{i},\"text\":{},\"verdict\":\"{verdict}\",\"reason\":{}", escape(&text), escape(&reason));
            if let (Verdict::Valid, Some(t)) = (&d.verdict, &d.tree) {
                line.push_str(",\"tree\":");
                tagged(t, &mut line);
                if let Some(t2) = &d.tree_nl {
                    line.push_str(",\"tree_nl\":");
                    tagged(t2, &mut line);
                }
            }
            line.push_str("}\n");
            f.write_all(line.as_bytes()).unwrap();
        }
        return;
    }
    if args[1] == "dump-corpus" {
        // vcheck dump-corpus <dir> <seed> <n>: seed inputs for the coverage-guided phase
        let dir = std::path::PathBuf::from(&args[2]);
        let seed: u64 = args[3].parse().unwrap();
        let n: u64 = args[4].parse().unwrap();
        std::fs::create_dir_all(&dir).unwrap();
        let mut k = 0;
        for f in docs::corpus() {
            if f.bytes.len() <= 4096 {
                std::fs::write(dir.join(format!("corpus-{k:05}")), &f.bytes).unwrap();
                k += 1;
            }
        }
        for i in 0..n {
            let mut rng = Rng::new(mix(&[seed, 0xF022, i]));
            let bytes = if i % 3 == 0 { docs::mutated(&mut rng, true).0 } else { docs::rendered(&mut rng).text.into_bytes() };
            if bytes.len() <= 4096 {
                std::fs::write(dir.join(format!("gen-{i:05}")), &bytes).unwrap();
                k += 1;
            }
        }
        println!("{k}");
        return;
    }
    if args[1] == "file" {
        // vcheck file <C01|C04> <path>: judge the bytes of one file
        let bytes = std::fs::read(&args[3]).expect("readable file");
        ctx::install_panic_hook();
        let mut ctx = Ctx::new(Tier::Quick, 0);
        ctx.replay = true;
        ctx.cur_workload = "file".into();
        match args[2].as_str() {
            "C01" => c01::C01::new().judge(&mut ctx, &bytes, true),
            _ => c04::C04::new().exercise(&mut ctx, &bytes),
        }
        for v in &ctx.violations {
            println!("REPLAY-VIOLATION sig={} {}", v.sig, v.detail);
        }
        if ctx.violations.is_empty() {
            println!("REPLAY-OK no violation on this input");
        }
        std::process::exit(if ctx.violations.is_empty() { 0 } else { 1 });
    }
    if args[1] == "macrogen" {
        // vcheck macrogen <seed> <n_programs> <docs_per_program> <outdir>: write the C19 programs
        let seed: u64 = args[2].parse().unwrap();
        let n_prog: u64 = args[3].parse().unwrap();
        let per: u64 = args[4].parse().unwrap();
        let out = std::path::PathBuf::from(&args[5]);
        std::fs::create_dir_all(out.join("src/bin")).unwrap();
        std::fs::write(
            out.join("Cargo.toml"),
            "[package]\nname = \"macroprog\"\nversion = \"0.0.0\"\nedition = \"2021\"\npublish = false\n\n[workspace]\n\n[dependencies]\ntoml = { path = \"/repo/crates/toml\" }\n\n[features]\npo = [\"toml/preserve_order\"]\n\n[profile.dev]\nopt-level = 0\ndebug = 0\n",
        )
        .unwrap();
        for p in 0..n_prog {
            let mut src = String::new();
            src.push_str("// generated by vcheck macrogen: toml!{ D } against D.parse::<toml::Table>()\n#![allow(clippy::all, unused)]\n");
            src.push_str("fn same(a: &toml::Value, b: &toml::Value) -> bool {\n    use toml::Value::*;\n    match (a, b) {\n        (Float(x), Float(y)) => x.to_bits() == y.to_bits(),\n        (Array(x), Array(y)) => x.len() == y.len() && x.iter().zip(y).all(|(p, q)| same(p, q)),\n        (Table(x), Table(y)) => x.len() == y.len() && x.iter().all(|(k, v)| y.get(k).map_or(false, |w| same(v, w))),\n        _ => a == b,\n    }\n}\n");
            src.push_str("fn report(i: usize, m: toml::Table, text: &str) -> bool {\n    match text.parse::<toml::Table>() {\n        Ok(p) => {\n            let ok = same(&toml::Value::Table(m.clone()), &toml::Value::Table(p.clone()));\n            if !ok {\n                println!(\"MISMATCH {i} macro={:?} parsed={:?}\", m, p);\n            } else if !format!(\"{m:?}\").contains(\"NaN\") && m != p {\n                println!(\"LIBEQ-MISMATCH {i} the tables hold the same data but `==` says they differ: macro={:?} parsed={:?}\", m, p);\n                return false;\n            }\n            ok\n        }\n        Err(e) => {\n            println!(\"PARSE-ERROR {i} {}\", e.to_string().replace('\\n', \" | \"));\n            false\n        }\n    }\n}\n");
            let mut calls = String::new();
            for d in 0..per {
                let idx = p * per + d;
                let mut rng = Rng::new(mix(&[seed, 0xAC20, idx]));
                let doc = refmodel::macrodoc::gen_macro_doc(&mut rng);
                // the raw string that carries the document must not be closed by the document itself
                let mut nh = 3;
                while doc.contains(&format!("\"{}", "#".repeat(nh))) {
                    nh += 1;
                }
                let hashes = "#".repeat(nh);
                src.push_str(&format!("// DOC {idx}\nfn doc_{idx}() -> bool {{\n    let m = toml::toml! {{\n{}\n    }};\n    report({idx}, m, r{hashes}\"{}\"{hashes})\n}}\n", doc.lines().map(|l| format!("        {l}")).collect::<Vec<_>>().join("\n"), doc));
                calls.push_str(&format!("    if !doc_{idx}() {{ bad += 1; }}\n"));
            }
            src.push_str(&format!("fn main() {{\n    let mut bad = 0;\n{calls}    println!(\"DONE docs={per} mismatches={{bad}}\");\n}}\n"));
            std::fs::write(out.join(format!("src/bin/p{p}.rs")), src).unwrap();
        }
        return;
    }
    if args[1] == "macrodoc" {
        // print one generated document (replay / inspection)
        let seed: u64 = args[2].parse().unwrap();
        let idx: u64 = args[3].parse().unwrap();
        let mut rng = Rng::new(mix(&[seed, 0xAC20, idx]));
        print!("{}", refmodel::macrodoc::gen_macro_doc(&mut rng));
        return;
    }
    if args[1] == "c05-child" {
        std::process::exit(c05::child_main(&args[2]));
    }
    if args[1] == "scale" {
        // vcheck scale <family> <n>: run every entry point once on one scaling-family document
        // (measured from outside by callgrind); prints the input length
        let n: usize = args[3].parse().unwrap();
        let doc = c04::scale_doc(&args[2], n).expect("known family");
        ctx::install_panic_hook();
        let mut ctx = Ctx::new(Tier::Quick, 0);
        let mut c = c04::C04::new();
        c.exercise(&mut ctx, &doc);
        println!("len={} violations={}", doc.len(), ctx.violations.len());
        for v in &ctx.violations {
            println!("SCALE-VIOLATION {} {}", v.sig, v.detail);
        }
        return;
    }
    if args[1] == "scale-families" {
        for f in c04::SCALE_FAMILIES {
            println!("{f}");
        }
        return;
    }
    let id = args[1].clone();
    let mut check = match registry(&id) {
        Some(c) => c,
        None => {
            eprintln!("unknown property {id}");
            std::process::exit(2);
        }
    };
    let tier = match arg_after(&args, "--tier").as_deref() {
        Some("thorough") => Tier::Thorough,
        _ => Tier::Quick,
    };
    let seed: u64 = arg_after(&args, "--seed").and_then(|s| s.parse().ok()).unwrap_or(0);
    ctx::install_panic_hook();
    let mut ctx = Ctx::new(tier, seed);
    match args[2].as_str() {
        "list" => {
            for (w, n) in check.workloads(tier, seed) {
                println!("{w} {n}");
            }
        }
        "worker" => {
            let shard = arg_after(&args, "--shard").unwrap_or_else(|| "0/1".into());
            let (si, sn) = shard.split_once('/').expect("--shard i/N");
            let (si, sn): (u64, u64) = (si.parse().unwrap(), sn.parse().unwrap());
            let out = std::path::PathBuf::from(arg_after(&args, "--out").expect("--out DIR"));
            let only = arg_after(&args, "--only");
            let frac: u64 = arg_after(&args, "--frac").and_then(|s| s.parse().ok()).unwrap_or(1);
            // at most this many cases per workload in this shard (slow interpreters)
            let limit: u64 = arg_after(&args, "--limit").and_then(|s| s.parse().ok()).unwrap_or(u64::MAX);
            std::fs::create_dir_all(&out).unwrap();
            let progress = std::fs::File::create(out.join(format!("shard-{si}.progress"))).unwrap();
            // per-case watchdog: a case normally takes milliseconds; one that is still running after
            // CASE_LIMIT seconds ends the shard with status 124. The driver then re-runs the in-flight
            // case alone under its own time limit: only if it is stuck there too is it a hang.
            static CASE_START: std::sync::atomic::AtomicU64 = std::sync::atomic::AtomicU64::new(0);
            if !cfg!(miri) {
                let limit_s: u64 = std::env::var("VCHECK_CASE_LIMIT").ok().and_then(|s| s.parse().ok()).unwrap_or(90);
                let t0 = std::time::Instant::now();
                std::thread::spawn(move || loop {
                    std::thread::sleep(std::time::Duration::from_millis(500));
                    let started = CASE_START.load(std::sync::atomic::Ordering::Relaxed);
                    let now = t0.elapsed().as_millis() as u64 + 1;
                    if started != 0 && now.saturating_sub(started) > limit_s * 1000 {
                        eprintln!("vcheck watchdog: the case in flight has been running for more than {limit_s} s");
                        std::process::exit(124);
                    }
                });
            }
            let wd_t0 = std::time::Instant::now();
            let wls = check.workloads(tier, seed);
            for (wl, n) in wls {
                if let Some(o) = &only {
                    if &wl != o {
                        continue;
                    }
                }
                let mut idx = si;
                // sub-sampling (slow builds): every `frac`-th case of this shard, never fewer than all
                // cases of small workloads
                let step = if n < 5000 { sn } else { sn * frac };
                let mut done = 0u64;
                while idx < n && done < limit {
                    done += 1;
                    if !cfg!(miri) {
                        let line = format!("{wl} {idx}\n{:40}", "");
                        let _ = progress.write_at(&line.as_bytes()[..line.len().min(64)], 0);
                        CASE_START.store(wd_t0.elapsed().as_millis() as u64 + 1, std::sync::atomic::Ordering::Relaxed);
                    }
                    run_case(check.as_mut(), &mut ctx, &wl, idx);
                    idx += step;
                }
            }
            let _ = progress.write_at(format!("done 0\n{:40}", "").as_bytes(), 0);
            CASE_START.store(0, std::sync::atomic::Ordering::Relaxed);
            check.finish(&mut ctx);
            ctx.write_json(&out.join(format!("shard-{si}.json"))).unwrap();
            ctx.write_hashes(&out.join(format!("shard-{si}.hashes"))).unwrap();
        }
        "replay" => {
            let wl = arg_after(&args, "--workload").expect("--workload");
            let idx: u64 = arg_after(&args, "--index").expect("--index").parse().unwrap();
            ctx.replay = true;
            let _ = check.workloads(tier, seed);
            run_case(check.as_mut(), &mut ctx, &wl, idx);
            for v in &ctx.violations {
                println!("REPLAY-VIOLATION sig={} {}", v.sig, v.detail);
                if let Some(i) = &v.input {
                    println!("input: {i:?}");
                }
            }
            for i in &ctx.inconclusive {
                println!("REPLAY-INCONCLUSIVE {i}");
            }
            if ctx.violations.is_empty() && ctx.inconclusive.is_empty() {
                println!("REPLAY-OK no violation on this case");
            }
            std::process::exit(if !ctx.violations.is_empty() { 1 } else if !ctx.inconclusive.is_empty() { 2 } else { 0 });
        }
        other => {
            eprintln!("unknown mode {other}");
            std::process::exit(2);
        }
    }
}
