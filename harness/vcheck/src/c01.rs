//! C01 — the parser accepts exactly the valid TOML 1.0.0 documents.

use crate::ctx::{guarded, Ctx, Tier};
use crate::docs;
use crate::Check;
use refmodel::decode::{decode_bytes, Decoded, Verdict, PRODS, U1};
use refmodel::rng::{hash_bytes, Rng};
use std::str::FromStr;

pub struct C01 {
    self_checked: bool,
}

impl C01 {
    pub fn new() -> Self {
        C01 { self_checked: false }
    }
}

pub fn reason_class(r: &str) -> String {
    match r.find(" at byte") {
        Some(i) => r[..i].to_string(),
        None => {
            // model errors carry names: keep the shape only
            let mut s = String::new();
            let mut in_tick = false;
            for c in r.chars() {
                if c == '`' {
                    in_tick = !in_tick;
                    if in_tick {
                        s.push_str("`_`");
                    }
                } else if !in_tick {
                    s.push(c);
                }
            }
            s
        }
    }
}

/// verdicts of the document entry points; Err(panic) if any of them panicked
pub fn entry_verdicts(bytes: &[u8]) -> Result<Vec<(&'static str, Option<bool>)>, (String, String)> {
    let text = std::str::from_utf8(bytes).ok();
    guarded(|| {
        let mut v: Vec<(&'static str, Option<bool>)> = Vec::new();
        v.push(("DocumentMut::from_str", text.map(|t| toml_edit::DocumentMut::from_str(t).is_ok())));
        v.push(("ImDocument::parse", text.map(|t| toml_edit::ImDocument::parse(t).is_ok())));
        v.push(("toml::from_str::<Table>", text.map(|t| toml::from_str::<toml::Table>(t).is_ok())));
        v.push(("toml_edit::de::from_str::<Table>", text.map(|t| toml_edit::de::from_str::<toml::Table>(t).is_ok())));
        v.push(("toml_edit::de::from_slice::<Table>", Some(toml_edit::de::from_slice::<toml::Table>(bytes).is_ok())));
        // the same verdict through the other doors: FromStr of toml's own types, a deserializer built
        // by FromStr, and targets that throw the content away
        v.push(("toml::Value::from_str", text.map(|t| toml::Value::from_str(t).is_ok())));
        v.push(("toml::Table::from_str", text.map(|t| toml::Table::from_str(t).is_ok())));
        v.push(("toml::from_str::<Value>", text.map(|t| toml::from_str::<toml::Value>(t).is_ok())));
        v.push(("toml::from_str::<IgnoredAny>", text.map(|t| toml::from_str::<serde::de::IgnoredAny>(t).is_ok())));
        v.push(("toml_edit::de::from_str::<IgnoredAny>", text.map(|t| toml_edit::de::from_str::<serde::de::IgnoredAny>(t).is_ok())));
        v.push((
            "str::parse::<toml_edit::de::Deserializer>",
            text.map(|t| t.parse::<toml_edit::de::Deserializer>().map_err(|_| ()).and_then(|d| <toml::Table as serde::Deserialize>::deserialize(d).map_err(|_| ())).is_ok()),
        ));
        v.push(("toml_edit::de::Deserializer::parse", text.map(|t| toml_edit::de::Deserializer::parse(t).map_err(|_| ()).and_then(|d| <toml::Table as serde::Deserialize>::deserialize(d).map_err(|_| ())).is_ok())));
        v
    })
}

pub fn record_r_coverage(ctx: &mut Ctx, d: &Decoded) {
    for (i, p) in PRODS.iter().enumerate() {
        if d.prods >> i & 1 == 1 {
            ctx.count(&format!("prod/{p}"));
        }
    }
    for c in &d.cells {
        ctx.count(&format!("cell/{c}"));
    }
}

impl C01 {
    pub fn judge(&mut self, ctx: &mut Ctx, bytes: &[u8], mutated: bool) {
        ctx.eval();
        ctx.set_input_bytes(bytes);
        let d = decode_bytes(bytes);
        let verdicts = match entry_verdicts(bytes) {
            Ok(v) => v,
            Err((loc, msg)) => {
                ctx.violation(&format!("panic:{}", crate::short_loc(&loc)), format!("an entry point panicked at {loc}: {msg}"));
                return;
            }
        };
        // 1. the entry points agree among themselves (every text, U1 included)
        let known: Vec<(&str, bool)> = verdicts.iter().filter_map(|(n, v)| v.map(|b| (*n, b))).collect();
        let first = known[0].1;
        if known.iter().any(|(_, b)| *b != first) {
            ctx.violation("entry-points-disagree", format!("verdicts differ: {known:?}"));
            return;
        }
        let accepted = first;
        ctx.count(if accepted { "impl/accepted" } else { "impl/rejected" });
        // 2. against R
        match &d.verdict {
            Verdict::Valid => {
                ctx.count("R/valid");
                record_r_coverage(ctx, &d);
                if !accepted {
                    ctx.violation("valid-rejected", format!("R judges the text valid, every entry point refuses it"));
                }
                if d.stmts.len() >= 2 || d.prods.count_ones() >= 4 {
                    ctx.nontrivial(hash_bytes(bytes));
                }
            }
            Verdict::Invalid(reason) => {
                ctx.count("R/invalid");
                let rc = reason_class(reason);
                ctx.count(&format!("reject/{rc}"));
                if accepted {
                    ctx.violation(&format!("invalid-accepted:{rc}"), format!("R judges the text invalid ({reason}), the entry points accept it"));
                }
                if mutated {
                    ctx.nontrivial(hash_bytes(bytes));
                }
            }
            Verdict::Limit(k) => {
                ctx.count(&format!("R/limit-{k:?}"));
            }
            Verdict::Undecided(u) => {
                ctx.count(match u {
                    U1::A => "R/U1-a-skipped",
                    U1::B => "R/U1-b-skipped",
                    U1::C => "R/U1-c-skipped",
                });
            }
        }
    }
}

impl Check for C01 {
    fn id(&self) -> &'static str {
        "C01"
    }
    fn workloads(&mut self, tier: Tier, _seed: u64) -> Vec<(String, u64)> {
        let k = if tier == Tier::Quick { 3 } else { 48 };
        vec![
            ("corpus".into(), docs::corpus().len() as u64),
            ("sweep".into(), docs::sweep_count()),
            ("render".into(), 60_000 * k),
            ("render-mut".into(), 90_000 * k),
            ("corpus-mut".into(), 90_000 * k),
            ("nearmiss".into(), 60_000 * k),
            ("nesting".into(), 6_000 * k),
            ("marker-key".into(), docs::marker_docs().len() as u64),
        ]
    }
    fn run(&mut self, ctx: &mut Ctx, workload: &str, index: u64, rng: &mut Rng) {
        if !self.self_checked {
            self.self_checked = true;
            let (n, problems) = refmodel::corpus::self_check(docs::corpus());
            ctx.add("R-self-check/files", n as u64);
            for p in problems {
                ctx.inconclusive(format!("reference model self-check: {p}"));
            }
        }
        match workload {
            "corpus" => {
                let f = &docs::corpus()[index as usize];
                self.judge(ctx, &f.bytes, false);
            }
            "marker-key" => {
                let d = &docs::marker_docs()[index as usize];
                self.judge(ctx, d.as_bytes(), false);
            }
            "sweep" => {
                let (slot, doc) = docs::sweep_doc(index);
                ctx.count(&format!("sweep-slot/{slot}"));
                self.judge(ctx, &doc, true);
            }
            "render" => {
                let d = docs::rendered(rng);
                ctx.sample("render", || d.text.clone());
                self.judge(ctx, d.text.as_bytes(), false);
            }
            "render-mut" => {
                let (t, _) = docs::mutated(rng, false);
                self.judge(ctx, &t, true);
            }
            "corpus-mut" => {
                let (t, _) = docs::mutated(rng, true);
                ctx.sample("corpus-mut", || String::from_utf8_lossy(&t).into_owned());
                self.judge(ctx, &t, true);
            }
            "nesting" => {
                // every construct nested to a random depth, alone and combined, mostly below the limit
                let pick = |rng: &mut Rng| -> usize { *rng.pick(&[1usize, 2, 5, 13, 20, 26, 27, 30, 39, 40, 41, 60, 70, 76, 77, 79, 80, 90]) };
                let r = loop {
                    let header = match rng.below(4) {
                        0 => Some((false, pick(rng))),
                        1 => Some((true, pick(rng))),
                        _ => None,
                    };
                    let key = if rng.chance(2, 3) { 1 } else { pick(rng) };
                    let layers: Vec<crate::c05::Layer> = (0..rng.below(3))
                        .map(|_| match rng.below(9) {
                            0 => crate::c05::Layer::Array(pick(rng)),
                            1 => crate::c05::Layer::Inline(pick(rng), 1),
                            2 => crate::c05::Layer::Inline(pick(rng).min(30), 1 + rng.below(3)),
                            3 => crate::c05::Layer::Mixed(pick(rng)),
                            // breadth instead of depth: must not count against the limit
                            4 => crate::c05::Layer::WideArray(rng.below(8), *rng.pick(&[3usize, 40, 85, 200])),
                            5 => crate::c05::Layer::WideInline(*rng.pick(&[2usize, 30, 79, 81, 150]), 1 + rng.below(3)),
                            6 => crate::c05::Layer::Pre(rng.below(8), *rng.pick(&[3usize, 60, 85, 120])),
                            7 => crate::c05::Layer::Inline(1, pick(rng)),
                            _ => crate::c05::Layer::LedArray(rng.below(4), pick(rng)),
                        })
                        .collect();
                    let r = crate::c05::Recipe { header, key, layers };
                    if r.text_len() < 4096 {
                        break r;
                    }
                };
                ctx.count("nesting-recipes");
                ctx.sample("nesting", || r.encode());
                self.judge(ctx, r.text().as_bytes(), false);
            }
            "nearmiss" => {
                let t = docs::near_miss_doc(rng);
                ctx.sample("nearmiss", || t.clone());
                self.judge(ctx, t.as_bytes(), true);
            }
            other => ctx.inconclusive(format!("unknown workload {other}")),
        }
    }
}
