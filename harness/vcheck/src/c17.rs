//! C17 — serialization is deterministic, canonical and insensitive to map order.

use crate::ctx::{guarded, Ctx, Tier};
use crate::gdyn::{self, Ser};
use crate::obs;
use crate::Check;
use refmodel::decode::{decode, Stmt, Verdict};
use refmodel::gen;
use refmodel::rng::{hash_bytes, Rng};
use refmodel::rval::*;
use serde::de::DeserializeSeed;

pub struct C17;

fn to_toml_value(v: &RVal) -> toml::Value {
    match v {
        RVal::Str(s) => toml::Value::from(s.as_str()),
        RVal::Int(i) => toml::Value::from(*i),
        RVal::Float(b) => toml::Value::from(f64::from_bits(*b)),
        RVal::Bool(b) => toml::Value::from(*b),
        RVal::Dt(d) => toml::Value::Datetime(obs::r_to_dt(d)),
        RVal::Array(a) => toml::Value::Array(a.iter().map(to_toml_value).collect()),
        RVal::Table(t) => {
            let mut m = toml::Table::new();
            for (k, x) in &t.entries {
                m.insert(k.clone(), to_toml_value(x));
            }
            toml::Value::Table(m)
        }
    }
}

/// a tree whose keys make sorted order and insertion order interleave scalars, arrays, arrays of
/// tables, mixed arrays and tables at every level
fn interleaved_tree(rng: &mut Rng, depth: usize, budget: &mut i32) -> RTable {
    let mut t = RTable::new();
    let n = if depth == 0 { 2 + rng.below(6) } else { rng.below(5) };
    let names = ["a", "m", "z", "B", "0", "k", "_", "b", "y", "aa"];
    let mut order: Vec<&str> = names.to_vec();
    rng.shuffle(&mut order);
    for k in order.into_iter().take(n) {
        if *budget <= 0 {
            break;
        }
        *budget -= 1;
        let v = match rng.below(9) {
            0 | 1 => gen::gen_scalar(rng),
            2 => RVal::Array((0..rng.below(3)).map(|_| gen::gen_scalar(rng)).collect()),
            3 if depth < 4 => RVal::Array((0..1 + rng.below(3)).map(|_| RVal::Table(interleaved_tree(rng, depth + 1, budget))).collect()),
            4 if depth < 4 => {
                // mixed array: scalar, table, array
                RVal::Array(vec![gen::gen_scalar(rng), RVal::Table(interleaved_tree(rng, depth + 1, budget)), RVal::Array(vec![])])
            }
            5 | 6 if depth < 4 => RVal::Table(interleaved_tree(rng, depth + 1, budget)),
            7 => RVal::Table(RTable::new()),
            _ => gen::gen_scalar(rng),
        };
        t.entries.push((k.to_string(), v));
    }
    t
}

/// in the token stream, no key/value of a table may follow a header of one of its sub-tables
fn values_before_subtables(text: &str) -> Result<(), String> {
    let d = decode(text);
    let mut open: Vec<Vec<String>> = Vec::new(); // headers seen so far
    let mut cur: Vec<String> = Vec::new();
    for s in &d.stmts {
        match s {
            Stmt::Header { path, array, .. } => {
                cur = path.iter().map(|k| k.name.clone()).collect();
                if *array {
                    // a new element: headers seen below the previous element are out of reach
                    open.retain(|h| !(h.len() >= cur.len() && h[..cur.len()] == cur[..]));
                }
                open.push(cur.clone());
            }
            Stmt::KeyVal { .. } => {
                // a key/value belongs to `cur`; fine. A table whose header comes after a deeper one
                // of its own is the "super-table after sub-table" spelling, which a canonical
                // serializer never emits
                if open.iter().any(|h| h.len() > cur.len() && h[..cur.len()] == cur[..] && open.iter().position(|x| x == h) < open.iter().position(|x| *x == cur)) {
                    return Err(format!("key/value of table {cur:?} follows the header of one of its sub-tables"));
                }
            }
        }
    }
    Ok(())
}

impl C17 {
    fn judge_value(&mut self, ctx: &mut Ctx, tree: &RVal) {
        ctx.eval();
        ctx.set_input(&tree.show());
        ctx.nontrivial(hash_bytes(tree.show().as_bytes()));
        let v = to_toml_value(tree);
        let r = guarded(|| {
            let table = match &v {
                toml::Value::Table(t) => t.clone(),
                _ => unreachable!(),
            };
            let mut outs: Vec<(&'static str, Result<String, String>, Result<String, String>)> = Vec::new();
            // (printer, generation 1, generation 2)
            let g1 = toml::to_string(&v).map_err(|e| e.to_string());
            let g2 = g1.clone().and_then(|t| toml::from_str::<toml::Value>(&t).map_err(|e| e.to_string())).and_then(|x| toml::to_string(&x).map_err(|e| e.to_string()));
            outs.push(("toml::to_string", g1, g2));
            let g1 = toml::to_string_pretty(&v).map_err(|e| e.to_string());
            let g2 = g1.clone().and_then(|t| toml::from_str::<toml::Value>(&t).map_err(|e| e.to_string())).and_then(|x| toml::to_string_pretty(&x).map_err(|e| e.to_string()));
            outs.push(("toml::to_string_pretty", g1, g2));
            let g1: Result<String, String> = Ok(table.to_string());
            let g2 = g1.clone().and_then(|t| t.parse::<toml::Table>().map_err(|e| e.to_string())).map(|x| x.to_string());
            outs.push(("Table::to_string", g1, g2));
            let g1 = toml_edit::ser::to_string(&v).map_err(|e| e.to_string());
            let g2 = g1.clone().and_then(|t| toml::from_str::<toml::Value>(&t).map_err(|e| e.to_string())).and_then(|x| toml_edit::ser::to_string(&x).map_err(|e| e.to_string()));
            outs.push(("toml_edit::ser::to_string", g1, g2));
            let g1 = toml_edit::ser::to_string_pretty(&v).map_err(|e| e.to_string());
            let g2 = g1.clone().and_then(|t| toml::from_str::<toml::Value>(&t).map_err(|e| e.to_string())).and_then(|x| toml_edit::ser::to_string_pretty(&x).map_err(|e| e.to_string()));
            outs.push(("toml_edit::ser::to_string_pretty", g1, g2));
            let twice = (table.to_string(), table.to_string());
            // the serializer object writes the same text as to_string, after what the buffer holds
            let into_buffer: Vec<(&'static str, String, Option<String>)> = [false, true]
                .into_iter()
                .map(|pretty| {
                    let mut buf = String::from("# written earlier\n");
                    let r = if pretty { serde::Serialize::serialize(&v, toml::Serializer::pretty(&mut buf)) } else { serde::Serialize::serialize(&v, toml::Serializer::new(&mut buf)) };
                    let want = if pretty { toml::to_string_pretty(&v) } else { toml::to_string(&v) };
                    (if pretty { "toml::Serializer::pretty" } else { "toml::Serializer::new" }, buf, r.ok().and(want.ok()).map(|w| format!("# written earlier\n{w}")))
                })
                .collect();
            // the library's own equality: the decoded value is the value, whatever order the map kept
            let eq = if format!("{v:?}").contains("NaN") {
                None
            } else {
                Some(toml::to_string(&v).ok().and_then(|t| toml::from_str::<toml::Value>(&t).ok()).map(|back| (back == v, table.to_string().parse::<toml::Table>().map(|b| b == table).unwrap_or(false))))
            };
            (outs, twice, eq, into_buffer)
        });
        let (outs, twice, eq, into_buffer) = match r {
            Ok(x) => x,
            Err((loc, msg)) => {
                ctx.violation(&format!("panic:{}", crate::short_loc(&loc)), format!("serializing panicked at {loc}: {msg}"));
                return;
            }
        };
        if let Some(Some((a, b))) = eq {
            ctx.count("library-equality-checks");
            if !a || !b {
                ctx.violation("decoded-value-not-equal", format!("`from_str(to_string(v)) == v` is {a}, `table.to_string().parse() == table` is {b} (toml::Value / toml::Table PartialEq) although the decoded data is the same"));
            }
        }
        for (what, got, want) in into_buffer {
            if let Some(want) = want {
                ctx.count("serializer-into-buffer-checks");
                if got != want {
                    ctx.violation(&format!("serializer-into-buffer-differs:{what}"), format!("{what} into a buffer that already holds a comment line leaves {got:?}; the comment followed by the to_string text is {want:?}"));
                }
            }
        }
        if twice.0 != twice.1 {
            ctx.violation("print-twice-differs", format!("Table printed twice: {:?} vs {:?}", twice.0, twice.1));
        }
        let mut decoded: Vec<(&str, RVal)> = Vec::new();
        for (name, g1, g2) in &outs {
            let t1 = match g1 {
                Ok(t) => t,
                Err(e) => {
                    ctx.violation(&format!("value-not-serializable:{name}"), format!("{name} refuses a toml::Value: {e}"));
                    continue;
                }
            };
            ctx.count(&format!("fixed-point-checks/{name}"));
            let d = decode(t1);
            match &d.verdict {
                Verdict::Valid => {}
                Verdict::Limit(_) => continue,
                v => {
                    ctx.violation(&format!("output-invalid:{name}"), format!("{name} wrote text that is {v:?}: {t1:?}"));
                    continue;
                }
            }
            if let Some(diff) = tree.diff(d.tree.as_ref().unwrap(), KeyOrder::Any) {
                ctx.violation(&format!("output-decodes-differently:{name}"), format!("{name}: {diff}; text {t1:?}"));
                continue;
            }
            if let Err(e) = values_before_subtables(t1) {
                ctx.violation(&format!("values-after-subtables:{name}"), format!("{name}: {e}; text {t1:?}"));
            }
            decoded.push((name, d.tree.clone().unwrap()));
            match g2 {
                Ok(t2) if t2 == t1 => {}
                Ok(t2) => ctx.violation(&format!("not-a-fixed-point:{name}"), format!("{name}: first generation {t1:?}, second generation {t2:?}")),
                Err(e) => ctx.violation(&format!("not-a-fixed-point:{name}"), format!("{name}: first generation {t1:?} cannot be read / written again: {e}")),
            }
        }
        // plain and pretty decode to equal values
        for w in decoded.windows(2) {
            if let Some(diff) = w[0].1.diff(&w[1].1, KeyOrder::Any) {
                ctx.violation("plain-and-pretty-differ", format!("{} vs {}: {diff}", w[0].0, w[1].0));
            }
        }
    }

    fn judge_dyn(&mut self, ctx: &mut Ctx, rng: &mut Rng) {
        ctx.eval();
        let shape = gdyn::gen_root_shape_wrapped(rng);
        let v = gdyn::gen_value(rng, &shape);
        ctx.set_input(&format!("shape: {shape:?}\nvalue: {v:?}"));
        let r = guarded(|| {
            let mut outs: Vec<(&'static str, Result<String, String>, Result<String, String>)> = Vec::new();
            macro_rules! gen2 {
                ($name:expr, $ser:expr) => {{
                    let g1: Result<String, String> = $ser(&Ser(&shape, &v)).map_err(|e| e.to_string());
                    let g2 = g1.clone().and_then(|t| (&shape).deserialize(toml::de::Deserializer::new(&t)).map_err(|e| e.to_string())).and_then(|x| $ser(&Ser(&shape, &x)).map_err(|e| e.to_string()));
                    outs.push(($name, g1, g2));
                }};
            }
            gen2!("toml::to_string", toml::to_string);
            gen2!("toml::to_string_pretty", toml::to_string_pretty);
            gen2!("toml_edit::ser::to_string", toml_edit::ser::to_string);
            gen2!("toml_edit::ser::to_string_pretty", toml_edit::ser::to_string_pretty);
            outs
        });
        let outs = match r {
            Ok(x) => x,
            Err((loc, msg)) => {
                ctx.violation(&format!("panic:{}", crate::short_loc(&loc)), format!("serializing panicked at {loc}: {msg}"));
                return;
            }
        };
        let mut trees: Vec<(&str, RVal)> = Vec::new();
        for (name, g1, g2) in &outs {
            let t1 = match g1 {
                Ok(t) => t,
                Err(_) => {
                    ctx.count("dyn/not-serializable");
                    continue;
                }
            };
            ctx.nontrivial(hash_bytes(t1.as_bytes()));
            ctx.count(&format!("fixed-point-checks/{name}(dyn)"));
            match g2 {
                Ok(t2) if t2 == t1 => {}
                Ok(t2) => ctx.violation(&format!("not-a-fixed-point:{name}"), format!("{name} (typed): first generation {t1:?}, second generation {t2:?}")),
                Err(e) => ctx.violation(&format!("not-a-fixed-point:{name}"), format!("{name} (typed): first generation {t1:?} cannot be read / written again: {e}")),
            }
            let d = decode(t1);
            if let (Verdict::Valid, Some(t)) = (&d.verdict, &d.tree) {
                trees.push((name, t.clone()));
            }
        }
        for w in trees.windows(2) {
            if let Some(diff) = w[0].1.diff(&w[1].1, KeyOrder::Any) {
                ctx.violation("plain-and-pretty-differ", format!("{} vs {}: {diff}", w[0].0, w[1].0));
            }
        }
    }
}

impl Check for C17 {
    fn id(&self) -> &'static str {
        "C17"
    }
    fn workloads(&mut self, tier: Tier, _seed: u64) -> Vec<(String, u64)> {
        let k = if tier == Tier::Quick { 3 } else { 100 };
        vec![("interleaved-values".into(), 40_000 * k), ("random-values".into(), 20_000 * k), ("dyn".into(), 25_000 * k)]
    }
    fn run(&mut self, ctx: &mut Ctx, workload: &str, index: u64, rng: &mut Rng) {
        match workload {
            "interleaved-values" => {
                let mut budget = *rng.pick(&[6, 12, 30]);
                let t = interleaved_tree(rng, 0, &mut budget);
                let kinds: Vec<&str> = t
                    .entries
                    .iter()
                    .map(|(_, v)| match v {
                        RVal::Table(_) => "T",
                        RVal::Array(a) if a.iter().any(|x| matches!(x, RVal::Table(_))) => "A",
                        RVal::Array(_) => "a",
                        _ => "s",
                    })
                    .collect();
                ctx.count(&format!("root-pattern/{}", kinds.join("")));
                if index % 9973 == 0 {
                    ctx.sample("interleaved-values", || RVal::Table(t.clone()).show());
                }
                self.judge_value(ctx, &RVal::Table(t));
            }
            "random-values" => {
                let mut budget = *rng.pick(&[6, 12, 30]);
                let t = gen::gen_tree(rng, &mut budget, 0);
                self.judge_value(ctx, &RVal::Table(t));
            }
            "dyn" => self.judge_dyn(ctx, rng),
            other => ctx.inconclusive(format!("unknown workload {other}")),
        }
    }
}
