//! C07 — serde serialization never loses data: it round-trips or returns an error.

use crate::ctx::{guarded, Ctx, Tier};
use crate::gdyn::{self, Dyn, Ser, Shape};
use crate::Check;
use refmodel::decode::{decode, Verdict};
use refmodel::rng::{hash_bytes, Rng};
use serde::de::DeserializeSeed;
use serde::{Deserialize, Serialize};
use std::collections::BTreeMap;

pub struct C07;

pub const TEXT_ROUTES: [&str; 7] = [
    "toml::to_string",
    "toml::to_string_pretty",
    "toml_edit::ser::to_string",
    "toml_edit::ser::to_string_pretty",
    "toml_edit::ser::to_document",
    "toml::Serializer::new (buffer in use)",
    "toml::Serializer::pretty (buffer in use)",
];

/// what the caller had already written into the buffer handed to `toml::Serializer`
const EARLIER: &str = "# written earlier\n";

/// `toml::Serializer` appends to the caller's buffer: what was there must still be there, and an
/// error must leave it alone
fn into_used_buffer(pretty: bool, s: &Ser) -> Result<String, String> {
    let mut out = String::from(EARLIER);
    let r = if pretty { serde::Serialize::serialize(s, toml::Serializer::pretty(&mut out)) } else { serde::Serialize::serialize(s, toml::Serializer::new(&mut out)) };
    match r {
        Ok(()) if out.starts_with(EARLIER) => Ok(out),
        Ok(()) => Ok(format!("<the buffer's earlier content {EARLIER:?} is gone> {out}")),
        Err(e) if out == EARLIER => Err(e.to_string()),
        Err(e) => Ok(format!("<the serializer failed ({e}) and left the buffer changed> {out}")),
    }
}

pub fn serialize_text(route: &str, shape: &Shape, v: &Dyn) -> Result<String, String> {
    let s = Ser(shape, v);
    match route {
        "toml::to_string" => toml::to_string(&s).map_err(|e| e.to_string()),
        "toml::to_string_pretty" => toml::to_string_pretty(&s).map_err(|e| e.to_string()),
        "toml_edit::ser::to_string" => toml_edit::ser::to_string(&s).map_err(|e| e.to_string()),
        "toml_edit::ser::to_string_pretty" => toml_edit::ser::to_string_pretty(&s).map_err(|e| e.to_string()),
        "toml_edit::ser::to_document" => toml_edit::ser::to_document(&s).map(|d| d.to_string()).map_err(|e| e.to_string()),
        "toml::Serializer::new (buffer in use)" => into_used_buffer(false, &s),
        "toml::Serializer::pretty (buffer in use)" => into_used_buffer(true, &s),
        _ => unreachable!(),
    }
}

pub fn deserialize_text(shape: &Shape, text: &str) -> Vec<(&'static str, Result<Dyn, String>)> {
    vec![
        ("toml::de::Deserializer", shape.deserialize(toml::de::Deserializer::new(text)).map_err(|e| e.to_string())),
        ("toml_edit::de::Deserializer", text.parse::<toml_edit::de::Deserializer>().map_err(|e| e.to_string()).and_then(|d| shape.deserialize(d).map_err(|e| e.to_string()))),
    ]
}

fn err_class(e: &str) -> String {
    let first = e.lines().last().unwrap_or(e);
    first.chars().filter(|c| !c.is_ascii_digit()).take(48).collect()
}

// ---------------------------------------------------------------- real derived types

#[derive(Serialize, Deserialize, PartialEq, Debug, Clone)]
enum E1 {
    Unit,
    New(i64),
    Tup(i64, String),
    Str { a: bool, b: Option<i8> },
}

#[derive(Serialize, Deserialize, PartialEq, Debug, Clone)]
#[serde(untagged)]
enum Untagged {
    I(i64),
    S(String),
    T { x: i64 },
}

#[derive(Serialize, Deserialize, PartialEq, Debug, Clone)]
#[serde(tag = "t")]
enum Tagged {
    A { x: i64 },
    B,
}

#[derive(Serialize, Deserialize, PartialEq, Debug, Clone)]
struct Inner {
    p: u16,
    q: Option<String>,
    r: Vec<E1>,
}

#[derive(Serialize, Deserialize, PartialEq, Debug, Clone)]
struct Derived {
    a: i32,
    b: Option<String>,
    c: Vec<E1>,
    d: BTreeMap<String, f64>,
    e: (i8, String),
    f: Vec<Inner>,
    g: Option<Inner>,
    h: Vec<Vec<i64>>,
    i: Vec<(i64, E1)>,
    k: toml_datetime::Datetime,
    l: char,
    m: Vec<Untagged>,
    n: Vec<Tagged>,
    o: BTreeMap<String, Inner>,
    #[serde(flatten)]
    rest: BTreeMap<String, i64>,
}

fn gen_e1(rng: &mut Rng) -> E1 {
    match rng.below(4) {
        0 => E1::Unit,
        1 => E1::New(refmodel::gen::gen_int(rng)),
        2 => E1::Tup(rng.range(-5, 5), refmodel::gen::gen_string(rng)),
        _ => E1::Str { a: rng.coin(), b: if rng.coin() { Some(rng.range(-128, 127) as i8) } else { None } },
    }
}

fn gen_inner(rng: &mut Rng) -> Inner {
    Inner { p: rng.below(65536) as u16, q: if rng.coin() { Some(refmodel::gen::gen_string(rng)) } else { None }, r: (0..rng.below(3)).map(|_| gen_e1(rng)).collect() }
}

fn gen_derived(rng: &mut Rng) -> Derived {
    let finite = |rng: &mut Rng| loop {
        let f = f64::from_bits(refmodel::gen::gen_float_bits(rng));
        if f.is_finite() {
            break f;
        }
    };
    Derived {
        a: rng.range(i32::MIN as i64, i32::MAX as i64) as i32,
        b: if rng.coin() { Some(refmodel::gen::gen_string(rng)) } else { None },
        c: (0..rng.below(4)).map(|_| gen_e1(rng)).collect(),
        d: (0..rng.below(3)).map(|_| (refmodel::gen::gen_key(rng), finite(rng))).collect(),
        e: (rng.range(-128, 127) as i8, refmodel::gen::gen_string(rng)),
        f: (0..rng.below(3)).map(|_| gen_inner(rng)).collect(),
        g: if rng.coin() { Some(gen_inner(rng)) } else { None },
        h: (0..rng.below(3)).map(|_| (0..rng.below(3)).map(|_| refmodel::gen::gen_int(rng)).collect()).collect(),
        i: (0..rng.below(3)).map(|_| (rng.range(-9, 9), gen_e1(rng))).collect(),
        k: crate::obs::r_to_dt(&refmodel::gen::gen_datetime(rng)),
        l: refmodel::gen::gen_char(rng),
        m: (0..rng.below(3))
            .map(|_| match rng.below(3) {
                0 => Untagged::I(rng.range(-9, 9)),
                1 => Untagged::S(refmodel::gen::gen_string(rng)),
                _ => Untagged::T { x: rng.range(-9, 9) },
            })
            .collect(),
        n: (0..rng.below(3)).map(|_| if rng.coin() { Tagged::A { x: rng.range(-9, 9) } } else { Tagged::B }).collect(),
        o: (0..rng.below(3)).map(|_| (refmodel::gen::gen_key(rng), gen_inner(rng))).collect(),
        rest: (0..rng.below(3)).map(|i| (format!("zz{i}"), rng.range(-9, 9))).collect(),
    }
}

impl C07 {
    fn judge_dyn(&mut self, ctx: &mut Ctx, shape: &Shape, v: &Dyn) {
        ctx.eval();
        ctx.set_input(&format!("shape: {shape:?}\nvalue: {v:?}"));
        ctx.nontrivial(hash_bytes(format!("{shape:?}{v:?}").as_bytes()));
        let mut nest = Vec::new();
        shape.nestings(&mut nest);
        nest.sort();
        nest.dedup();
        for (p, c) in nest {
            ctx.count(&format!("nesting/{p}>{c}"));
        }
        ctx.count(&format!("root/{}", shape.name()));
        let u = gdyn::unsupported(shape, v);
        for route in TEXT_ROUTES {
            let r = guarded(|| serialize_text(route, shape, v));
            let r = match r {
                Ok(r) => r,
                Err((loc, msg)) => {
                    ctx.violation(&format!("panic:{}", crate::short_loc(&loc)), format!("{route} panicked at {loc}: {msg}"));
                    continue;
                }
            };
            match r {
                Err(e) => {
                    ctx.count(&format!("outcome/{route}/err"));
                    ctx.count(&format!("error-kind/{}", err_class(&e)));
                    let toml_route = route.starts_with("toml::");
                    let documented = u.none_in_seq || u.none_nested || u.unit_in_seq || u.int_beyond_i64 || u.non_table_root || ((u.struct_variant_at_root || u.tuple_variant_at_root) && toml_route);
                    if !documented {
                        if u.wide_int_in_range && e.contains("128") {
                            ctx.violation("in-range-128-bit-integer-refused", format!("{route} refuses a value whose i128/u128 fields all fit i64: {e}"));
                        } else {
                            ctx.violation(&format!("supported-shape-refused:{route}"), format!("{route} returns an error for a value without any documented unsupported shape: {e}"));
                        }
                    }
                }
                Ok(text) => {
                    ctx.count(&format!("outcome/{route}/ok"));
                    let d = decode(&text);
                    if !matches!(d.verdict, Verdict::Valid | Verdict::Limit(_)) {
                        ctx.violation(&format!("serialized-text-invalid:{route}"), format!("{route} wrote text that is {:?}: {text:?}", d.verdict));
                        continue;
                    }
                    let back = guarded(|| deserialize_text(shape, &text));
                    match back {
                        Err((loc, msg)) => ctx.violation(&format!("panic:{}", crate::short_loc(&loc)), format!("deserializing {route} output panicked at {loc}: {msg}")),
                        Ok(list) => {
                            for (de, res) in list {
                                match res {
                                    Ok(x) if x == *v => {}
                                    Ok(x) => {
                                        ctx.violation(&format!("round-trip-differs:{route}"), format!("{route} wrote {text:?}; {de} reads {x:?}, the value was {v:?}"));
                                        break;
                                    }
                                    Err(e) => {
                                        if u.wide_int_in_range && e.contains("128") {
                                            ctx.violation("in-range-128-bit-integer-refused", format!("{de} cannot read back an i128/u128 field that fits i64: {}", e.lines().last().unwrap_or("")));
                                        } else {
                                            ctx.violation(&format!("round-trip-fails:{route}"), format!("{route} wrote {text:?}; {de} cannot read it back as the same type: {}", e.lines().last().unwrap_or("")));
                                        }
                                        break;
                                    }
                                }
                            }
                        }
                    }
                }
            }
        }
        // toml::ser::ValueSerializer: any value, written as one TOML value. (Not one of the routes the
        // property names. A tuple or struct variant *at the root* of this serializer is written as a
        // bare sequence resp. refused - observation D22 in DESIGN.md - and is not judged.)
        if !(u.tuple_variant_at_root || u.struct_variant_at_root) {
            let r = guarded(|| {
                let mut out = String::new();
                serde::Serialize::serialize(&Ser(shape, v), toml::ser::ValueSerializer::new(&mut out)).map(|_| out).map_err(|e| e.to_string())
            });
            match r {
                Err((loc, msg)) => ctx.violation(&format!("panic:{}", crate::short_loc(&loc)), format!("toml::ser::ValueSerializer panicked at {loc}: {msg}")),
                Ok(Err(e)) => {
                    ctx.count("outcome/toml::ser::ValueSerializer/err");
                    let documented = u.none_in_seq || u.none_nested || u.unit_in_seq || u.int_beyond_i64;
                    if !documented {
                        if u.wide_int_in_range && e.contains("128") {
                            ctx.violation("in-range-128-bit-integer-refused", format!("toml::ser::ValueSerializer refuses a value whose i128/u128 fields all fit i64: {e}"));
                        } else {
                            ctx.violation("supported-shape-refused:toml::ser::ValueSerializer", format!("toml::ser::ValueSerializer returns an error for a value without any documented unsupported shape: {e}"));
                        }
                    }
                }
                Ok(Ok(text)) => {
                    ctx.count("outcome/toml::ser::ValueSerializer/ok");
                    match refmodel::decode::decode_value(&text) {
                        Err(e) if e != "limit" => ctx.violation("serialized-text-invalid:toml::ser::ValueSerializer", format!("toml::ser::ValueSerializer wrote {text:?}, not a TOML value: {e}")),
                        _ => {
                            let back = guarded(|| {
                                vec![
                                    ("toml::de::ValueDeserializer", shape.deserialize(toml::de::ValueDeserializer::new(&text)).map_err(|e| e.to_string())),
                                    ("toml_edit::de::ValueDeserializer", text.parse::<toml_edit::de::ValueDeserializer>().map_err(|e| e.to_string()).and_then(|d| shape.deserialize(d).map_err(|e| e.to_string()))),
                                ]
                            });
                            match back {
                                Err((loc, msg)) => ctx.violation(&format!("panic:{}", crate::short_loc(&loc)), format!("value deserializer panicked at {loc}: {msg}")),
                                Ok(list) => {
                                    for (de, res) in list {
                                        match res {
                                            Ok(x) if x == *v => {}
                                            Ok(x) => {
                                                ctx.violation("round-trip-differs:toml::ser::ValueSerializer", format!("ValueSerializer wrote {text:?}; {de} reads {x:?}, the value was {v:?}"));
                                                break;
                                            }
                                            Err(e) => {
                                                if u.wide_int_in_range && e.contains("128") {
                                                    ctx.violation("in-range-128-bit-integer-refused", format!("{de} cannot read back an i128/u128 that fits i64: {}", e.lines().last().unwrap_or("")));
                                                } else {
                                                    ctx.violation("round-trip-fails:toml::ser::ValueSerializer", format!("ValueSerializer wrote {text:?}; {de} cannot read it back as the same type: {}", e.lines().last().unwrap_or("")));
                                                }
                                                break;
                                            }
                                        }
                                    }
                                }
                            }
                        }
                    }
                }
            }
        }
        // try_from routes
        let r = guarded(|| {
            let a = toml::Value::try_from(Ser(shape, v)).map_err(|e| e.to_string());
            let b = toml::Table::try_from(Ser(shape, v)).map_err(|e| e.to_string());
            (a, b)
        });
        match r {
            Err((loc, msg)) => ctx.violation(&format!("panic:{}", crate::short_loc(&loc)), format!("try_from panicked at {loc}: {msg}")),
            Ok((a, b)) => {
                for (route, res, needs_table) in [("toml::Value::try_from", a.map(|v| v), false), ("toml::Table::try_from", b.map(toml::Value::Table), true)] {
                    match res {
                        Err(e) => {
                            ctx.count(&format!("outcome/{route}/err"));
                            let documented = u.none_in_seq || u.none_nested || u.unit_in_seq || u.int_beyond_i64 || (needs_table && (u.non_table_root || u.struct_variant_at_root || u.tuple_variant_at_root));
                            if !documented {
                                if u.wide_int_in_range && e.contains("128") {
                                    ctx.violation("in-range-128-bit-integer-refused", format!("{route} refuses a value whose i128/u128 fields all fit i64: {e}"));
                                } else {
                                    ctx.violation(&format!("supported-shape-refused:{route}"), format!("{route} returns an error for a value without any documented unsupported shape: {e}"));
                                }
                            }
                        }
                        Ok(val) => {
                            ctx.count(&format!("outcome/{route}/ok"));
                            match guarded(|| shape.deserialize(val.clone()).map_err(|e| e.to_string())) {
                                Err((loc, msg)) => ctx.violation(&format!("panic:{}", crate::short_loc(&loc)), format!("deserializing from a Value panicked at {loc}: {msg}")),
                                Ok(Ok(x)) if x == *v => {}
                                Ok(Ok(x)) => ctx.violation(&format!("round-trip-differs:{route}"), format!("{route} gives {val:?}; reading it back gives {x:?}, the value was {v:?}")),
                                Ok(Err(e)) => {
                                    if u.wide_int_in_range && e.contains("128") {
                                        ctx.violation("in-range-128-bit-integer-refused", format!("a toml::Value cannot be read back into an i128/u128 field that fits i64: {e}"));
                                    } else {
                                        ctx.violation(&format!("round-trip-fails:{route}"), format!("{route} gives {val:?}; it cannot be read back as the same type: {e}"))
                                    }
                                }
                            }
                        }
                    }
                }
            }
        }
    }

    fn judge_derived(&mut self, ctx: &mut Ctx, v: &Derived) {
        ctx.eval();
        ctx.set_input(&format!("{v:?}"));
        ctx.nontrivial(hash_bytes(format!("{v:?}").as_bytes()));
        let r = guarded(|| {
            vec![
                ("toml::to_string", toml::to_string(v).map_err(|e| e.to_string())),
                ("toml::to_string_pretty", toml::to_string_pretty(v).map_err(|e| e.to_string())),
                ("toml_edit::ser::to_string", toml_edit::ser::to_string(v).map_err(|e| e.to_string())),
                ("toml_edit::ser::to_string_pretty", toml_edit::ser::to_string_pretty(v).map_err(|e| e.to_string())),
                ("toml::Table::try_from", toml::Table::try_from(v.clone()).map(|t| t.to_string()).map_err(|e| e.to_string())),
            ]
        });
        match r {
            Err((loc, msg)) => ctx.violation(&format!("panic:{}", crate::short_loc(&loc)), format!("serializing a derived type panicked at {loc}: {msg}")),
            Ok(list) => {
                for (route, res) in list {
                    match res {
                        Err(e) => ctx.violation(&format!("supported-shape-refused:{route}"), format!("{route} refuses a derived struct without unsupported shapes: {e}")),
                        Ok(text) => {
                            ctx.count(&format!("derived/{route}"));
                            if decode(&text).verdict != Verdict::Valid {
                                ctx.violation(&format!("serialized-text-invalid:{route}"), format!("{route} wrote invalid text {text:?}"));
                                continue;
                            }
                            let a = toml::from_str::<Derived>(&text);
                            let b = toml_edit::de::from_str::<Derived>(&text);
                            for (de, res) in [("toml::from_str", a.map_err(|e| e.to_string())), ("toml_edit::de::from_str", b.map_err(|e| e.to_string()))] {
                                match res {
                                    Ok(x) if x == *v => {}
                                    Ok(x) => ctx.violation(&format!("round-trip-differs:{route}"), format!("derived type: {route} wrote {text:?}; {de} reads {x:?}, the value was {v:?}")),
                                    Err(e) => ctx.violation(&format!("round-trip-fails:{route}"), format!("derived type: {route} wrote {text:?}; {de}: {}", e.lines().last().unwrap_or(""))),
                                }
                            }
                        }
                    }
                }
            }
        }
    }
}

impl Check for C07 {
    fn id(&self) -> &'static str {
        "C07"
    }
    fn workloads(&mut self, tier: Tier, _seed: u64) -> Vec<(String, u64)> {
        let k = if tier == Tier::Quick { 10 } else { 100 };
        vec![("dyn-table-root".into(), 50_000 * k), ("dyn-any-root".into(), 8_000 * k), ("derived".into(), 8_000 * k)]
    }
    fn run(&mut self, ctx: &mut Ctx, workload: &str, index: u64, rng: &mut Rng) {
        match workload {
            "dyn-table-root" | "dyn-any-root" => {
                let shape = if workload == "dyn-table-root" { gdyn::gen_root_shape_wrapped(rng) } else { gdyn::gen_any_root_shape(rng) };
                let v = gdyn::gen_value(rng, &shape);
                if index % 9973 == 0 {
                    ctx.sample(workload, || format!("{shape:?} = {v:?}"));
                }
                self.judge_dyn(ctx, &shape, &v);
            }
            "derived" => {
                let v = gen_derived(rng);
                self.judge_derived(ctx, &v);
            }
            other => ctx.inconclusive(format!("unknown workload {other}")),
        }
    }
}
