//! C06 — anything built through the API encodes to valid TOML that decodes back.

use crate::ctx::{guarded, Ctx, Tier};
use crate::obs;
use crate::Check;
use refmodel::decode::{decode, Verdict};
use refmodel::gen;
use refmodel::rng::{hash_bytes, Rng};
use refmodel::rval::*;
use std::str::FromStr;
use toml_edit::{Array, ArrayOfTables, InlineTable, Item, Key, Table, Value};

pub struct C06;

pub struct Builder<'a> {
    pub rng: &'a mut Rng,
    pub routes: Vec<&'static str>,
}

impl<'a> Builder<'a> {
    fn route(&mut self, r: &'static str) {
        self.routes.push(r);
    }

    fn scalar(&mut self, v: &RVal) -> Value {
        match v {
            RVal::Str(s) => match self.rng.below(3) {
                0 => {
                    self.route("Value::from(&str)");
                    Value::from(s.as_str())
                }
                1 => {
                    self.route("Value::from(String)");
                    Value::from(s.clone())
                }
                _ => {
                    self.route("Value::from(&String)");
                    Value::from(s)
                }
            },
            RVal::Int(i) => {
                self.route("Value::from(i64)");
                Value::from(*i)
            }
            RVal::Float(b) => {
                self.route("Value::from(f64)");
                Value::from(f64::from_bits(*b))
            }
            RVal::Bool(b) => {
                self.route("Value::from(bool)");
                Value::from(*b)
            }
            RVal::Dt(d) => {
                let dt = obs::r_to_dt(d);
                match (dt.date, dt.time, dt.offset) {
                    (Some(date), None, None) if self.rng.coin() => {
                        self.route("Value::from(Date)");
                        Value::from(date)
                    }
                    (None, Some(time), None) if self.rng.coin() => {
                        self.route("Value::from(Time)");
                        Value::from(time)
                    }
                    _ => {
                        self.route("Value::from(Datetime)");
                        Value::from(dt)
                    }
                }
            }
            _ => unreachable!(),
        }
    }

    /// a value (scalar, array, inline table) and its expected tree
    fn value(&mut self, v: &RVal) -> (Value, RVal) {
        match v {
            RVal::Array(a) => {
                let mut arr = Array::new();
                let mut exp: Vec<RVal> = Vec::new();
                let from_iter = self.rng.chance(1, 4);
                if from_iter {
                    self.route("Array::from_iter");
                    let mut vals = Vec::new();
                    for x in a {
                        let (xv, xe) = self.value(x);
                        vals.push(xv);
                        exp.push(xe);
                    }
                    arr = vals.into_iter().collect();
                } else {
                    for x in a {
                        let (mut xv, xe) = self.value(x);
                        let pick = self.rng.below(4);
                        if (pick == 1 || pick == 3) && self.rng.chance(1, 3) {
                            // a value that comes from somewhere else and still carries the trivia
                            // of that place: `push` / `insert` apply default formatting, so none of
                            // it may show (a comment before `,` or `]` would swallow them)
                            self.route("Array::push / insert of a value carrying a comment from elsewhere");
                            *xv.decor_mut() = toml_edit::Decor::new("\n  # was here\n  ", " # and here");
                        }
                        match pick {
                            0 => {
                                self.route("Array::push_formatted");
                                arr.push_formatted(xv);
                                exp.push(xe);
                            }
                            1 if !arr.is_empty() => {
                                self.route("Array::insert");
                                let i = self.rng.below(arr.len() + 1);
                                arr.insert(i, xv);
                                exp.insert(i, xe);
                            }
                            2 => {
                                self.route("Array::extend");
                                arr.extend([xv]);
                                exp.push(xe);
                            }
                            _ => {
                                self.route("Array::push");
                                arr.push(xv);
                                exp.push(xe);
                            }
                        }
                    }
                }
                (Value::Array(arr), RVal::Array(exp))
            }
            RVal::Table(t) => {
                let mut it = InlineTable::new();
                let mut exp = RTable::new();
                for (k, x) in &t.entries {
                    let (xv, xe) = self.value(x);
                    if self.rng.chance(1, 6) {
                        // look at a key that is not there, through mutable indexing, and leave it:
                        // the placeholder this creates must never show
                        let ghost = format!("ghost-{}", self.rng.below(3));
                        if t.get(&ghost).is_none() {
                            self.route("IndexMut on a missing key of an inline table (left unassigned)");
                            let mut item = Item::Value(Value::InlineTable(std::mem::take(&mut it)));
                            let _ = item[ghost.as_str()].as_value_mut();
                            if let Item::Value(Value::InlineTable(back)) = item {
                                it = back;
                            }
                        }
                    }
                    let pick = if xv.is_inline_table() || xv.is_array() { self.rng.below(6) } else { self.rng.below(4) };
                    match pick {
                        4 | 5 => {
                            // through the TableLike view, handing over an item that is not a value yet:
                            // a table / array of tables has to arrive as an inline table / array
                            let item = match xv {
                                Value::InlineTable(inner) => Item::Table(inner.into_table()),
                                Value::Array(a) if !a.is_empty() && a.iter().all(|e| e.is_inline_table()) => {
                                    let mut aot = ArrayOfTables::new();
                                    for e in a.iter() {
                                        aot.push(e.as_inline_table().unwrap().clone().into_table());
                                    }
                                    Item::ArrayOfTables(aot)
                                }
                                other => Item::Value(other),
                            };
                            self.route(match &item {
                                Item::Table(_) => "dyn TableLike::insert(Item::Table) on an inline table",
                                Item::ArrayOfTables(_) => "dyn TableLike::insert(Item::ArrayOfTables) on an inline table",
                                _ => "dyn TableLike::insert(Item::Value) on an inline table",
                            });
                            let tl: &mut dyn toml_edit::TableLike = &mut it;
                            tl.insert(k.as_str(), item);
                        }
                        0 => {
                            self.route("InlineTable::get_or_insert");
                            it.get_or_insert(k.as_str(), xv);
                        }
                        1 => {
                            self.route("InlineTable::insert_formatted");
                            it.insert_formatted(&Key::new(k.as_str()), xv);
                        }
                        2 => {
                            self.route("InlineTable::entry.or_insert");
                            it.entry(k.as_str()).or_insert(xv);
                        }
                        _ => {
                            self.route("InlineTable::insert");
                            it.insert(k.as_str(), xv);
                        }
                    }
                    exp.entries.push((k.clone(), xe));
                }
                (Value::InlineTable(it), RVal::Table(exp))
            }
            s => (self.scalar(s), s.clone()),
        }
    }

    /// a standard table; expected tree lists values first, then tables / arrays of tables
    pub fn table(&mut self, t: &RTable, depth: usize) -> (Table, RVal) {
        let mut tb = Table::new();
        let mut vals: Vec<(String, RVal)> = Vec::new();
        let mut tabs: Vec<(String, RVal)> = Vec::new();
        for (k, x) in &t.entries {
            let is_aot = matches!(x, RVal::Array(a) if !a.is_empty() && a.iter().all(|e| matches!(e, RVal::Table(_))));
            let (item, exp, is_table_like) = match x {
                RVal::Table(sub) if depth < 6 && self.rng.chance(2, 3) => {
                    let (st, se) = self.table(sub, depth + 1);
                    self.route("Item::Table");
                    (Item::Table(st), se, true)
                }
                RVal::Array(a) if is_aot && depth < 6 && self.rng.chance(2, 3) => {
                    let mut aot = ArrayOfTables::new();
                    let mut exp = Vec::new();
                    for e in a {
                        if let RVal::Table(sub) = e {
                            let (st, se) = self.table(sub, depth + 1);
                            aot.push(st);
                            exp.push(se);
                        }
                    }
                    self.route("ArrayOfTables::push");
                    (Item::ArrayOfTables(aot), RVal::Array(exp), true)
                }
                other => {
                    let (v, e) = self.value(other);
                    if self.rng.coin() {
                        self.route("value()");
                        (toml_edit::value(v), e, false)
                    } else {
                        self.route("Item::Value");
                        (Item::Value(v), e, false)
                    }
                }
            };
            if self.rng.chance(1, 8) {
                let ghost = format!("ghost-{}", self.rng.below(3));
                if t.get(&ghost).is_none() {
                    if self.rng.coin() {
                        self.route("IndexMut on a missing key of a table (left unassigned)");
                        let _ = tb[ghost.as_str()].as_value_mut();
                    } else {
                        self.route("IndexMut on a missing key through Item (left unassigned)");
                        let mut wrapped = Item::Table(std::mem::take(&mut tb));
                        let _ = wrapped[ghost.as_str()].as_table_mut();
                        if let Item::Table(back) = wrapped {
                            tb = back;
                        }
                    }
                }
            }
            match self.rng.below(6) {
                0 => {
                    self.route("Table::insert_formatted");
                    tb.insert_formatted(&Key::new(k.as_str()), item);
                }
                1 => {
                    self.route("Table::entry.or_insert");
                    tb.entry(k.as_str()).or_insert(item);
                }
                2 => {
                    self.route("Table IndexMut assignment");
                    tb[k.as_str()] = item;
                }
                3 if !is_table_like => {
                    self.route("Table::extend");
                    if let Item::Value(v) = item {
                        tb.extend([(k.as_str(), v)]);
                    }
                }
                _ => {
                    self.route("Table::insert");
                    tb.insert(k.as_str(), item);
                }
            }
            if is_table_like {
                tabs.push((k.clone(), exp));
            } else {
                vals.push((k.clone(), exp));
            }
        }
        vals.extend(tabs);
        (tb, RVal::table(vals))
    }
}

// ------------------------------------------------------------------ structure setters

/// does this table make its own path exist in the printed document?
fn shows(t: &Table) -> bool {
    let child_shows = |t: &Table| {
        t.iter().any(|(_, i)| match i {
            Item::Table(c) => shows(c),
            Item::ArrayOfTables(a) => !a.is_empty(),
            Item::Value(_) => true,
            Item::None => false,
        })
    };
    if t.is_dotted() || t.is_implicit() {
        child_shows(t)
    } else {
        true
    }
}

/// Setters that change how a tree is laid out but not what it says: implicit / dotted / position
/// of tables, whitespace around keys, trailing commas and trailing trivia of arrays. A flag that
/// would make an empty table vanish (documented for implicit and dotted tables) is taken back.
fn apply_setters(rng: &mut Rng, t: &mut Table, routes: &mut Vec<&'static str>, next_pos: &mut usize) {
    let keys: Vec<String> = t.iter().map(|(k, _)| k.to_string()).collect();
    for k in keys {
        if rng.chance(1, 6) {
            if let Some(mut km) = t.key_mut(&k) {
                routes.push("KeyMut::leaf_decor_mut / dotted_decor_mut (blanks)");
                km.leaf_decor_mut().set_prefix(*rng.pick(&["", " ", "\t", "  "]));
                km.leaf_decor_mut().set_suffix(*rng.pick(&["", " ", "\t "]));
                km.dotted_decor_mut().set_prefix(*rng.pick(&["", " "]));
                km.dotted_decor_mut().set_suffix(*rng.pick(&["", " ", "\t"]));
            }
        }
        let Some(item) = t.get_mut(&k) else { continue };
        match item {
            Item::Table(sub) => {
                // positions in the order the tables would be printed anyway, with gaps (any other
                // numbering can put a sub-table of an array-of-tables element under the wrong
                // element: the caller's responsibility, not judged here)
                *next_pos += 1 + rng.below(3);
                if rng.chance(1, 2) {
                    routes.push("Table::set_position");
                    sub.set_position(*next_pos);
                }
                apply_setters(rng, sub, routes, next_pos);
                match rng.below(8) {
                    0 | 1 => {
                        sub.set_implicit(true);
                        if shows(sub) {
                            routes.push("Table::set_implicit(true)");
                        } else {
                            sub.set_implicit(false);
                        }
                    }
                    2 | 3 => {
                        sub.set_dotted(true);
                        if shows(sub) {
                            routes.push("Table::set_dotted(true)");
                        } else {
                            sub.set_dotted(false);
                        }
                    }
                    _ => {}
                }
            }
            Item::ArrayOfTables(a) => {
                for e in a.iter_mut() {
                    *next_pos += 1 + rng.below(3);
                    if rng.chance(1, 2) {
                        routes.push("Table::set_position (array-of-tables element)");
                        e.set_position(*next_pos);
                    }
                    apply_setters(rng, e, routes, next_pos);
                }
            }
            Item::Value(v) => setters_in_value(rng, v, routes),
            Item::None => {}
        }
    }
}

fn setters_in_value(rng: &mut Rng, v: &mut Value, routes: &mut Vec<&'static str>) {
    match v {
        Value::Array(a) => {
            for e in a.iter_mut() {
                setters_in_value(rng, e, routes);
            }
            if rng.chance(1, 3) {
                routes.push("Array::set_trailing_comma");
                a.set_trailing_comma(rng.coin());
            }
            if rng.chance(1, 3) {
                routes.push("Array::set_trailing");
                a.set_trailing(*rng.pick(&["", " ", "\n", " # last\n", "\n  # last\n\t"]));
            }
        }
        Value::InlineTable(t) => {
            let keys: Vec<String> = t.iter().map(|(k, _)| k.to_string()).collect();
            for k in keys {
                if rng.chance(1, 6) {
                    if let Some(mut km) = t.key_mut(&k) {
                        routes.push("KeyMut on an inline table key (blanks)");
                        km.leaf_decor_mut().set_prefix(*rng.pick(&["", " ", "\t"]));
                        km.leaf_decor_mut().set_suffix(*rng.pick(&["", " "]));
                    }
                }
                if let Some(e) = t.get_mut(&k) {
                    setters_in_value(rng, e, routes);
                    if let Value::InlineTable(sub) = e {
                        if !sub.is_empty() && rng.chance(1, 4) {
                            routes.push("InlineTable::set_dotted(true)");
                            sub.set_dotted(true);
                        }
                    }
                }
            }
        }
        _ => {}
    }
}

/// the key/value pairs of a table's own section, dotted tables flattened: what `get_values` promises
fn expected_values(t: &Table, prefix: &mut Vec<String>, out: &mut Vec<(Vec<String>, String)>) {
    for (k, i) in t.iter() {
        prefix.push(k.to_string());
        match i {
            Item::Table(c) if c.is_dotted() => expected_values(c, prefix, out),
            Item::Value(Value::InlineTable(c)) if c.is_dotted() => expected_inline_values(c, prefix, out),
            Item::Value(v) => out.push((prefix.clone(), v.to_string().trim().to_string())),
            _ => {}
        }
        prefix.pop();
    }
}

fn expected_inline_values(t: &InlineTable, prefix: &mut Vec<String>, out: &mut Vec<(Vec<String>, String)>) {
    for (k, v) in t.iter() {
        prefix.push(k.to_string());
        match v {
            Value::InlineTable(c) if c.is_dotted() => expected_inline_values(c, prefix, out),
            v => out.push((prefix.clone(), v.to_string().trim().to_string())),
        }
        prefix.pop();
    }
}

fn to_toml_value(v: &RVal) -> toml::Value {
    match v {
        RVal::Str(s) => toml::Value::from(s.as_str()),
        RVal::Int(i) => toml::Value::from(*i),
        RVal::Float(b) => toml::Value::from(f64::from_bits(*b)),
        RVal::Bool(b) => toml::Value::from(*b),
        RVal::Dt(d) => toml::Value::Datetime(obs::r_to_dt(d)),
        RVal::Array(a) => toml::Value::Array(a.iter().map(to_toml_value).collect()),
        RVal::Table(t) => {
            let mut m = toml::Table::new();
            for (k, x) in &t.entries {
                m.insert(k.clone(), to_toml_value(x));
            }
            toml::Value::Table(m)
        }
    }
}

fn leaf_classes(ctx: &mut Ctx, v: &RVal) {
    match v {
        RVal::Array(a) => {
            if a.is_empty() {
                ctx.count("leaf/empty-array");
            }
            a.iter().for_each(|x| leaf_classes(ctx, x))
        }
        RVal::Table(t) => {
            if t.entries.is_empty() {
                ctx.count("leaf/empty-table");
            }
            for (k, x) in &t.entries {
                if k.is_empty() {
                    ctx.count("leaf/empty-key");
                } else if k.chars().any(|c| (c as u32) < 0x20 || c == '\u{7f}') {
                    ctx.count("leaf/control-char-in-key");
                }
                leaf_classes(ctx, x);
            }
        }
        RVal::Str(s) => {
            if s.chars().any(|c| (c as u32) < 0x20 || c == '\u{7f}') {
                ctx.count("leaf/control-char-in-string");
            }
            if s.contains("\"\"\"") || s.contains("'''") {
                ctx.count("leaf/quote-run");
            }
        }
        RVal::Float(b) => {
            let f = f64::from_bits(*b);
            if f.is_nan() {
                ctx.count("leaf/nan");
            } else if f == 0.0 && f.is_sign_negative() {
                ctx.count("leaf/negative-zero");
            } else if f.is_infinite() {
                ctx.count("leaf/inf");
            }
        }
        RVal::Int(i) => {
            if *i == i64::MIN || *i == i64::MAX {
                ctx.count("leaf/i64-edge");
            }
        }
        RVal::Dt(d) => ctx.count(match (d.date.is_some(), d.time.is_some(), d.offset.is_some()) {
            (true, true, true) => "leaf/offset-date-time",
            (true, true, false) => "leaf/local-date-time",
            (true, false, _) => "leaf/local-date",
            _ => "leaf/local-time",
        }),
        RVal::Bool(_) => {}
    }
}

impl C06 {
    fn check_print(&mut self, ctx: &mut Ctx, what: &str, printed: &str, expected: &RVal, order: KeyOrder) {
        let d = decode(printed);
        match &d.verdict {
            Verdict::Valid => {}
            // a built tree can be deeper than the parser's recursion limit: then only validity of
            // the text for R is demanded
            Verdict::Limit(_) => {
                ctx.count("print/beyond-parser-limit");
                return;
            }
            v => {
                ctx.violation(&format!("built-print-invalid:{what}"), format!("{what}: the printed text is judged {v:?}: {printed:?}"));
                return;
            }
        }
        if let Some(diff) = expected.diff(d.tree.as_ref().unwrap(), order) {
            ctx.violation(&format!("built-print-decodes-differently:{what}"), format!("{what}: {diff}; printed: {printed:?}"));
            return;
        }
        // the real parser reads it back too
        match guarded(|| toml_edit::DocumentMut::from_str(printed).map(|d| obs::edit_table_to_r(d.as_table())).map_err(|e| e.to_string())) {
            Err((loc, msg)) => ctx.violation(&format!("panic:{}", crate::short_loc(&loc)), format!("re-parsing a print panicked at {loc}: {msg}")),
            Ok(Err(e)) => ctx.violation(&format!("built-print-refused:{what}"), format!("{what}: the parser refuses the printed text: {e}")),
            Ok(Ok(tree)) => {
                if let Some(diff) = expected.diff(&tree, order) {
                    ctx.violation(&format!("built-print-decodes-differently:{what}"), format!("{what} (real parser): {diff}; printed: {printed:?}"));
                }
            }
        }
        ctx.count(&format!("prints-checked/{what}"));
    }
}

impl Check for C06 {
    fn id(&self) -> &'static str {
        "C06"
    }
    fn workloads(&mut self, tier: Tier, _seed: u64) -> Vec<(String, u64)> {
        let k = if tier == Tier::Quick { 10 } else { 80 };
        vec![("edit-built".into(), 150_000 * k), ("toml-built".into(), 60_000 * k), ("fragments".into(), 40_000 * k), ("conversions".into(), 40_000 * k), ("setters".into(), 60_000 * k)]
    }
    fn run(&mut self, ctx: &mut Ctx, workload: &str, index: u64, rng: &mut Rng) {
        ctx.eval();
        let mut budget = *rng.pick(&[4, 8, 15, 30, 60]);
        let tree = gen::gen_tree(rng, &mut budget, 0);
        let tree_v = RVal::Table(tree.clone());
        ctx.set_input(&tree_v.show());
        ctx.nontrivial(hash_bytes(tree_v.show().as_bytes()));
        if index % 4 == 0 {
            leaf_classes(ctx, &tree_v);
        }
        match workload {
            "edit-built" => {
                let r = guarded(|| {
                    let mut b = Builder { rng, routes: Vec::new() };
                    let (t, exp) = b.table(&tree, 0);
                    let routes = b.routes;
                    let doc: toml_edit::DocumentMut = t.into();
                    let p1 = doc.to_string();
                    let p2 = doc.to_string();
                    let p3 = doc.clone().to_string();
                    (p1, p2, p3, exp, routes)
                });
                match r {
                    Err((loc, msg)) => ctx.violation(&format!("panic:{}", crate::short_loc(&loc)), format!("building or printing panicked at {loc}: {msg}")),
                    Ok((p1, p2, p3, exp, routes)) => {
                        for r in routes {
                            ctx.count(&format!("route/{r}"));
                        }
                        if index % 20_011 == 0 {
                            ctx.sample("edit-built", || p1.clone());
                        }
                        if p1 != p2 || p1 != p3 {
                            ctx.violation("print-not-pure", format!("printing twice / printing a clone differ: {p1:?} vs {p2:?} vs {p3:?}"));
                        }
                        self.check_print(ctx, "DocumentMut", &p1, &exp, KeyOrder::Exact);
                    }
                }
            }
            "setters" => {
                let r = guarded(|| {
                    let mut b = Builder { rng, routes: Vec::new() };
                    let (mut t, exp) = b.table(&tree, 0);
                    let mut routes = Vec::new();
                    apply_setters(b.rng, &mut t, &mut routes, &mut 0);
                    if b.rng.chance(1, 3) {
                        // the root has no header: wherever it is told to stand, its pairs come first
                        // (a table taken out of a parsed document remembers where it stood there)
                        routes.push("Table::set_position (root)");
                        t.set_position(b.rng.below(60));
                    }
                    // what get_values lists for the root section, against a walk of the same tree
                    let mut want = Vec::new();
                    expected_values(&t, &mut Vec::new(), &mut want);
                    let got: Vec<(Vec<String>, String)> = t.get_values().into_iter().map(|(path, v)| (path.iter().map(|k| k.get().to_string()).collect(), v.to_string().trim().to_string())).collect();
                    let mut doc: toml_edit::DocumentMut = t.into();
                    if b.rng.chance(1, 3) {
                        routes.push("DocumentMut::set_trailing");
                        doc.set_trailing(*b.rng.pick(&["\n", "  ", "# the end", "\n# the end\n\n"]));
                    }
                    let p1 = doc.to_string();
                    let p2 = doc.clone().to_string();
                    (p1, p2, exp, routes, want, got)
                });
                match r {
                    Err((loc, msg)) => ctx.violation(&format!("panic:{}", crate::short_loc(&loc)), format!("building, setting or printing panicked at {loc}: {msg}")),
                    Ok((p1, p2, exp, routes, want, got)) => {
                        for r in &routes {
                            ctx.count(&format!("route/{r}"));
                        }
                        if index % 20_011 == 0 {
                            ctx.sample("setters", || p1.clone());
                        }
                        if p1 != p2 {
                            ctx.violation("print-not-pure", format!("printing a clone differs: {p1:?} vs {p2:?}"));
                        }
                        if want != got {
                            ctx.violation("get-values-differs", format!("Table::get_values lists {got:?}; the section's own key/value pairs are {want:?}"));
                        }
                        self.check_print(ctx, "DocumentMut after layout setters", &p1, &exp, KeyOrder::Any);
                    }
                }
            }
            "toml-built" => {
                let r = guarded(|| {
                    let v = to_toml_value(&tree_v);
                    let t = match &v {
                        toml::Value::Table(t) => t.clone(),
                        _ => unreachable!(),
                    };
                    let p1 = t.to_string();
                    let p2 = t.to_string();
                    let inline = v.to_string();
                    let ser = toml::to_string(&v).map_err(|e| e.to_string());
                    (p1, p2, inline, ser)
                });
                match r {
                    Err((loc, msg)) => ctx.violation(&format!("panic:{}", crate::short_loc(&loc)), format!("toml::Table printing panicked at {loc}: {msg}")),
                    Ok((p1, p2, inline, ser)) => {
                        if index % 20_011 == 0 {
                            ctx.sample("toml-built", || p1.clone());
                        }
                        if p1 != p2 {
                            ctx.violation("print-not-pure", format!("toml::Table printed twice differs: {p1:?} vs {p2:?}"));
                        }
                        self.check_print(ctx, "toml::Table Display", &p1, &tree_v, KeyOrder::Any);
                        // Value Display prints one inline value: valid as a value, same data
                        match refmodel::decode::decode_value(&inline) {
                            Ok(v) => {
                                if let Some(diff) = tree_v.diff(&v, KeyOrder::Any) {
                                    ctx.violation("built-print-decodes-differently:toml::Value Display", format!("{diff}; printed {inline:?}"));
                                }
                                ctx.count("prints-checked/toml::Value Display");
                            }
                            Err(e) if e == "limit" => {}
                            Err(e) => ctx.violation("built-print-invalid:toml::Value Display", format!("toml::Value Display printed {inline:?}, not a TOML value: {e}")),
                        }
                        match ser {
                            Ok(s) => self.check_print(ctx, "toml::to_string(Value)", &s, &tree_v, KeyOrder::Any),
                            Err(e) => ctx.violation("built-value-not-serializable", format!("toml::to_string refuses a Value built from TOML types: {e}")),
                        }
                    }
                }
            }
            "fragments" => {
                // single values and keys printed on their own
                let mut b2 = 6;
                let v = gen::gen_value(rng, 0, &mut b2);
                let k = gen::gen_key(rng);
                let r = guarded(|| {
                    let mut b = Builder { rng, routes: Vec::new() };
                    let (val, exp) = b.value(&v);
                    (val.to_string(), exp, Key::new(k.as_str()).to_string())
                });
                match r {
                    Err((loc, msg)) => ctx.violation(&format!("panic:{}", crate::short_loc(&loc)), format!("printing a value/key panicked at {loc}: {msg}")),
                    Ok((vt, exp, kt)) => {
                        match refmodel::decode::decode_value(vt.trim()) {
                            Ok(x) => {
                                if let Some(diff) = exp.diff(&x, KeyOrder::Exact) {
                                    ctx.violation("built-print-decodes-differently:Value Display", format!("{diff}; printed {vt:?}"));
                                }
                            }
                            Err(e) if e == "limit" => {}
                            Err(e) => ctx.violation("built-print-invalid:Value Display", format!("Value printed {vt:?}: {e}")),
                        }
                        match refmodel::decode::decode_key(&kt) {
                            Ok(ks) if ks.len() == 1 && ks[0] == k => {}
                            other => ctx.violation("built-print-invalid:Key Display", format!("Key::new({k:?}) printed {kt:?}, which reads as {other:?}")),
                        }
                        ctx.count("prints-checked/Value+Key Display");
                    }
                }
            }
            "conversions" => {
                // the same built tables turned into values: Table::into_inline_table,
                // Item::into_value / make_value, ArrayOfTables Display / into_array at every level
                let r = guarded(|| {
                    let mut b = Builder { rng, routes: Vec::new() };
                    let (t, exp) = b.table(&tree, 0);
                    let mut outs: Vec<(&'static str, String, RVal)> = Vec::new();
                    outs.push(("Table::into_inline_table", t.clone().into_inline_table().to_string(), exp.clone()));
                    outs.push(("Item::into_value", toml_edit::Item::Table(t.clone()).into_value().map(|v| v.to_string()).unwrap_or_else(|_| "<refused>".into()), exp.clone()));
                    let mut it = toml_edit::Item::Table(t.clone());
                    it.make_value();
                    outs.push(("Item::make_value", it.to_string(), exp.clone()));
                    fn walk(t: &toml_edit::Table, exp: &RVal, outs: &mut Vec<(&'static str, String, RVal)>) {
                        for (k, item) in t.iter() {
                            let e = match exp.as_table().and_then(|x| x.get(k)) {
                                Some(e) => e,
                                None => continue,
                            };
                            match item {
                                toml_edit::Item::ArrayOfTables(a) => {
                                    outs.push(("ArrayOfTables Display", a.to_string(), e.clone()));
                                    outs.push(("ArrayOfTables::into_array", toml_edit::Value::Array(a.clone().into_array()).to_string(), e.clone()));
                                    outs.push(("Item::into_value(array of tables)", toml_edit::Item::ArrayOfTables(a.clone()).into_value().map(|v| v.to_string()).unwrap_or_else(|_| "<refused>".into()), e.clone()));
                                    if let RVal::Array(es) = e {
                                        for (el, ee) in a.iter().zip(es.iter()) {
                                            walk(el, ee, outs);
                                        }
                                    }
                                }
                                toml_edit::Item::Table(s) => {
                                    outs.push(("Item::into_value(sub-table)", toml_edit::Item::Table(s.clone()).into_value().map(|v| v.to_string()).unwrap_or_else(|_| "<refused>".into()), e.clone()));
                                    walk(s, e, outs)
                                }
                                _ => {}
                            }
                        }
                    }
                    walk(&t, &exp, &mut outs);
                    outs
                });
                match r {
                    Err((loc, msg)) => ctx.violation(&format!("panic:{}", crate::short_loc(&loc)), format!("converting a built table panicked at {loc}: {msg}")),
                    Ok(outs) => {
                        for (route, text, exp) in outs {
                            match refmodel::decode::decode_value(text.trim()) {
                                Ok(x) => {
                                    if let Some(diff) = exp.diff(&x, KeyOrder::Any) {
                                        ctx.violation(&format!("built-print-decodes-differently:{route}"), format!("{diff}; printed {text:?}"));
                                        return;
                                    }
                                    ctx.count(&format!("prints-checked/{route}"));
                                }
                                Err(e) if e == "limit" => {}
                                Err(e) => {
                                    ctx.violation(&format!("built-print-invalid:{route}"), format!("{route} printed {text:?}: {e}"));
                                    return;
                                }
                            }
                        }
                    }
                }
            }
            other => ctx.inconclusive(format!("unknown workload {other}")),
        }
    }
}
