//! C08 — edits change exactly what was asked and keep everything else verbatim.
//! Model-based: R's kind-annotated tree of the start document, the same operation applied to it by
//! plain ordered-map code, compared after every step with the decoded print; plus a chunk-level
//! verbatim monitor for everything outside the operation's touched set.

use crate::ctx::{guarded, Ctx, Tier};
use crate::docs;
use crate::Check;
use refmodel::decode::{decode, kind_tree, Decoded, KKind, KNode, KTable, PKind, PVal, Stmt, Verdict};
use refmodel::rng::{hash_bytes, Rng};
use refmodel::rval::*;
use std::str::FromStr;
use toml_edit::{Array, ArrayOfTables, DocumentMut, InlineTable, Item, Key, Table, Value};

pub struct C08;

#[derive(Clone, Debug, PartialEq)]
enum Step {
    Key(String),
    Idx(usize),
}

type Path = Vec<Step>;

#[derive(Clone, Debug)]
enum ArrOp {
    Push(i64),
    Insert(usize, i64),
    Replace(usize, i64),
    Remove(usize),
    RetainInts,
    Clear,
    Fmt,
    /// push `n` integers starting at a base value
    PushMany(usize, i64),
    /// stable sort by a coarse key (integers modulo m, everything else first)
    SortByKeyMod(i64),
    SortByMod(i64),
}

#[derive(Clone, Debug)]
enum InlOp {
    /// extend with pairs, some of which may name keys that are already there (they are overwritten)
    Extend(Vec<(String, i64)>),
    Insert(String, i64),
    Remove(String),
    GetOrInsert(String, i64),
    Sort,
    Clear,
    Fmt,
}

#[derive(Clone, Debug)]
enum Op {
    InsertVal { tp: Path, key: String, val: RVal, how: u8 },
    Remove { tp: Path, key: String, how: u8 },
    InsertTable { tp: Path, key: String, inner: String, val: i64 },
    AotPush { tp: Path, key: String, val: i64 },
    AotRemove { tp: Path, key: String, idx: usize },
    AotClear { tp: Path, key: String },
    Retain { tp: Path, drop: String },
    Sort { tp: Path },
    Clear { tp: Path },
    Fmt { tp: Path },
    MakeValue { tp: Path, key: String },
    IntoTable { tp: Path, key: String, via_insert: bool },
    IntoAot { tp: Path, key: String },
    Arr { tp: Path, key: String, op: ArrOp },
    Inl { tp: Path, key: String, op: InlOp },
    NestedAssign { tp: Path, key: String, key2: String, val: i64 },
}

fn op_name(op: &Op) -> &'static str {
    match op {
        Op::InsertVal { how, .. } => ["Table::insert", "Table::insert_formatted", "Table::entry.or_insert", "IndexMut assign"][*how as usize % 4],
        Op::Remove { how, .. } => ["Table::remove", "Table::remove_entry", "Table::entry Occupied::remove", "TableLike::entry Occupied::remove"][*how as usize % 4],
        Op::InsertTable { .. } => "insert new table",
        Op::AotPush { .. } => "ArrayOfTables::push",
        Op::AotRemove { .. } => "ArrayOfTables::remove",
        Op::AotClear { .. } => "ArrayOfTables::clear",
        Op::Retain { .. } => "Table::retain",
        Op::Sort { .. } => "Table::sort_values",
        Op::Clear { .. } => "Table::clear",
        Op::Fmt { .. } => "Table::fmt",
        Op::MakeValue { .. } => "Item::make_value",
        Op::IntoTable { via_insert: false, .. } => "in-place into_table",
        Op::IntoTable { via_insert: true, .. } => "re-insert into_table",
        Op::IntoAot { .. } => "in-place into_array_of_tables",
        Op::Arr { op, .. } => match op {
            ArrOp::Push(_) => "Array::push",
            ArrOp::Insert(..) => "Array::insert",
            ArrOp::Replace(..) => "Array::replace",
            ArrOp::Remove(_) => "Array::remove",
            ArrOp::RetainInts => "Array::retain",
            ArrOp::Clear => "Array::clear",
            ArrOp::Fmt => "Array::fmt",
            ArrOp::PushMany(..) => "Array::push (many)",
            ArrOp::SortByKeyMod(_) => "Array::sort_by_key",
            ArrOp::SortByMod(_) => "Array::sort_by",
        },
        Op::Inl { op, .. } => match op {
            InlOp::Insert(..) => "InlineTable::insert",
            InlOp::Remove(_) => "InlineTable::remove",
            InlOp::GetOrInsert(..) => "InlineTable::get_or_insert",
            InlOp::Sort => "InlineTable::sort_values",
            InlOp::Clear => "InlineTable::clear",
            InlOp::Fmt => "InlineTable::fmt",
            InlOp::Extend(_) => "InlineTable::extend",
        },
        Op::NestedAssign { .. } => "IndexMut nested assign",
    }
}

// ---------------------------------------------------------------- model

fn ktable_mut<'a>(root: &'a mut KTable, path: &[Step]) -> Option<&'a mut KTable> {
    let mut t = root;
    let mut i = 0;
    while i < path.len() {
        let k = match &path[i] {
            Step::Key(k) => k,
            Step::Idx(_) => return None,
        };
        let pos = t.entries.iter().position(|(n, _)| n == k)?;
        t = match &mut t.entries[pos].1 {
            KNode::Table(x) => x,
            KNode::Aot(v) => {
                i += 1;
                match path.get(i) {
                    Some(Step::Idx(j)) => v.get_mut(*j)?,
                    _ => return None,
                }
            }
            KNode::Val(_) => return None,
        };
        i += 1;
    }
    Some(t)
}

fn all_tables(t: &KTable, path: &mut Path, out: &mut Vec<Path>) {
    out.push(path.clone());
    for (k, n) in &t.entries {
        match n {
            KNode::Table(x) => {
                path.push(Step::Key(k.clone()));
                all_tables(x, path, out);
                path.pop();
            }
            KNode::Aot(v) => {
                for (i, x) in v.iter().enumerate() {
                    path.push(Step::Key(k.clone()));
                    path.push(Step::Idx(i));
                    all_tables(x, path, out);
                    path.pop();
                    path.pop();
                }
            }
            KNode::Val(_) => {}
        }
    }
}

/// unpruned conversion (what make_value produces)
fn k_to_rval(n: &KNode) -> RVal {
    match n {
        KNode::Val(v) => v.clone(),
        // a child table is converted (Table::into_inline_table builds a plain inline table); a
        // child that already is a value is left alone, so an inline table that was spelled
        // through dotted keys keeps that flag (and prints nothing once it is empty)
        KNode::Table(t) => RVal::table(
            t.entries
                .iter()
                .map(|(k, x)| {
                    (
                        k.clone(),
                        match x {
                            KNode::Val(v) => v.clone(),
                            other => undot(k_to_rval(other)),
                        },
                    )
                })
                .collect(),
        ),
        KNode::Aot(v) => RVal::Array(v.iter().map(|t| k_to_rval(&KNode::Table(t.clone()))).collect()),
    }
}

/// a dotted inline table with nothing visible in it prints nothing
fn val_visible(v: &RVal) -> bool {
    match v {
        RVal::Table(t) if t.dotted => t.entries.iter().any(|(_, x)| val_visible(x)),
        _ => true,
    }
}

/// the value as it shows in the print
fn val_pruned(v: &RVal) -> RVal {
    match v {
        RVal::Table(t) => RVal::Table(RTable { entries: t.entries.iter().filter(|(_, x)| val_visible(x)).map(|(k, x)| (k.clone(), val_pruned(x))).collect(), alt: None, dotted: t.dotted }),
        RVal::Array(a) => RVal::Array(a.iter().map(val_pruned).collect()),
        x => x.clone(),
    }
}

fn sort_val(t: &mut RTable) {
    t.entries.sort_by(|a, b| a.0.cmp(&b.0));
    for (_, x) in t.entries.iter_mut() {
        if let RVal::Table(sub) = x {
            if sub.dotted {
                sort_val(sub);
            }
        }
    }
}

/// make_value / into_inline_table: the result is a plain (non-dotted) inline table; children keep
/// their own flag
fn undot(v: RVal) -> RVal {
    match v {
        RVal::Table(mut t) => {
            t.dotted = false;
            RVal::Table(t)
        }
        x => x,
    }
}

/// does this node print anything?
fn visible(n: &KNode) -> bool {
    match n {
        KNode::Val(v) => val_visible(v),
        KNode::Aot(v) => !v.is_empty(),
        KNode::Table(t) => match t.kind {
            KKind::Implicit | KKind::Dotted => t.entries.iter().any(|(_, x)| visible(x)),
            _ => true,
        },
    }
}

/// printed as key/value lines of the enclosing section
fn value_like(n: &KNode) -> bool {
    match n {
        KNode::Val(_) => true,
        KNode::Table(t) if t.kind == KKind::Dotted => t.entries.iter().any(|(_, x)| visible(x) && value_like(x)),
        _ => false,
    }
}

/// compare the decoded print with the model: data exact, array order exact, relative order of
/// value-like keys exact, position of tables / arrays of tables free
fn diff_model(exp: &KTable, act: &RVal, path: &mut String) -> Option<String> {
    let at = match act {
        RVal::Table(t) => t,
        other => return Some(format!("at `{path}`: table expected, print has {}", other.type_name())),
    };
    let vis: Vec<&(String, KNode)> = exp.entries.iter().filter(|(_, n)| visible(n)).collect();
    let mut ek: Vec<&str> = vis.iter().map(|(k, _)| k.as_str()).collect();
    let mut ak: Vec<&str> = at.keys();
    let ev: Vec<&str> = vis.iter().filter(|(_, n)| value_like(n)).map(|(k, _)| k.as_str()).collect();
    let av: Vec<&str> = at.keys().into_iter().filter(|k| ev.contains(k)).collect();
    ek.sort();
    ak.sort();
    if ek != ak {
        return Some(format!("at `{path}`: the model holds keys {ek:?}, the print {ak:?}"));
    }
    if ev != av {
        return Some(format!("at `{path}`: key/value order in the model {ev:?}, in the print {av:?}"));
    }
    for (k, n) in vis {
        let a = at.get(k).unwrap();
        let l = path.len();
        if !path.is_empty() {
            path.push('.');
        }
        path.push_str(&format!("{k:?}"));
        let d = match n {
            KNode::Val(v) => val_pruned(v).diff(a, KeyOrder::Exact).map(|d| format!("under `{path}`: {d}")),
            KNode::Table(t) => diff_model(t, a, path),
            KNode::Aot(v) => match a {
                RVal::Array(arr) if arr.len() == v.len() => {
                    let mut r = None;
                    for (i, (x, y)) in v.iter().zip(arr.iter()).enumerate() {
                        let l2 = path.len();
                        path.push_str(&format!("[{i}]"));
                        r = diff_model(x, y, path);
                        path.truncate(l2);
                        if r.is_some() {
                            break;
                        }
                    }
                    r
                }
                other => Some(format!("at `{path}`: array of {} tables expected, print has {}", v.len(), other.show().chars().take(60).collect::<String>())),
            },
        };
        path.truncate(l);
        if d.is_some() {
            return d;
        }
    }
    None
}

fn put(t: &mut KTable, key: &str, n: KNode) {
    match t.entries.iter().position(|(k, _)| k == key) {
        Some(i) => t.entries[i].1 = n,
        None => t.entries.push((key.to_string(), n)),
    }
}

fn sort_rec(t: &mut KTable) {
    t.entries.sort_by(|a, b| a.0.cmp(&b.0));
    for (_, n) in t.entries.iter_mut() {
        match n {
            KNode::Table(x) if x.kind == KKind::Dotted => sort_rec(x),
            _ => {}
        }
    }
}

/// returns false when the operation does not apply to the current state (skipped on both sides)
fn apply_model(root: &mut KTable, op: &Op) -> bool {
    match op {
        Op::InsertVal { tp, key, val, how } => {
            let t = match ktable_mut(root, tp) {
                Some(t) => t,
                None => return false,
            };
            if *how % 4 == 2 && t.entries.iter().any(|(k, _)| k == key) {
                return true; // or_insert on an existing key: nothing happens
            }
            put(t, key, KNode::Val(val.clone()));
            true
        }
        Op::Remove { tp, key, .. } | Op::Retain { tp, drop: key } => {
            let t = match ktable_mut(root, tp) {
                Some(t) => t,
                None => return false,
            };
            t.entries.retain(|(k, _)| k != key);
            true
        }
        Op::InsertTable { tp, key, inner, val } => {
            let t = match ktable_mut(root, tp) {
                Some(t) => t,
                None => return false,
            };
            put(t, key, KNode::Table(KTable { kind: KKind::Defined, entries: vec![(inner.clone(), KNode::Val(RVal::Int(*val)))] }));
            true
        }
        Op::AotPush { tp, key, val } => {
            let t = match ktable_mut(root, tp) {
                Some(t) => t,
                None => return false,
            };
            let el = KTable { kind: KKind::Element, entries: vec![("id".to_string(), KNode::Val(RVal::Int(*val)))] };
            match t.entries.iter().position(|(k, _)| k == key) {
                Some(i) => match &mut t.entries[i].1 {
                    KNode::Aot(v) => v.push(el),
                    other => *other = KNode::Aot(vec![el]),
                },
                None => t.entries.push((key.clone(), KNode::Aot(vec![el]))),
            }
            true
        }
        Op::AotRemove { tp, key, idx } => match ktable_mut(root, tp).and_then(|t| t.entries.iter_mut().find(|(k, _)| k == key)) {
            Some((_, KNode::Aot(v))) if *idx < v.len() => {
                v.remove(*idx);
                true
            }
            _ => false,
        },
        Op::AotClear { tp, key } => match ktable_mut(root, tp).and_then(|t| t.entries.iter_mut().find(|(k, _)| k == key)) {
            Some((_, KNode::Aot(v))) => {
                v.clear();
                true
            }
            _ => false,
        },
        Op::Sort { tp } => match ktable_mut(root, tp) {
            Some(t) => {
                sort_rec(t);
                true
            }
            None => false,
        },
        Op::Clear { tp } => match ktable_mut(root, tp) {
            Some(t) => {
                t.entries.clear();
                true
            }
            None => false,
        },
        Op::Fmt { tp } => ktable_mut(root, tp).is_some(),
        Op::MakeValue { tp, key } => match ktable_mut(root, tp).and_then(|t| t.entries.iter_mut().find(|(k, _)| k == key)) {
            Some((_, n)) if !matches!(n, KNode::Val(_)) => {
                *n = KNode::Val(k_to_rval(n));
                true
            }
            _ => false,
        },
        Op::IntoTable { tp, key, via_insert } => {
            let t = match ktable_mut(root, tp) {
                Some(t) => t,
                None => return false,
            };
            let pos = match t.entries.iter().position(|(k, _)| k == key) {
                Some(p) => p,
                None => return false,
            };
            let new = match &t.entries[pos].1 {
                KNode::Val(RVal::Table(rt)) => KNode::Table(KTable { kind: KKind::Defined, entries: rt.entries.iter().map(|(k, v)| (k.clone(), KNode::Val(v.clone()))).collect() }),
                _ => return false,
            };
            if *via_insert {
                t.entries.remove(pos);
                t.entries.push((key.clone(), new));
            } else {
                t.entries[pos].1 = new;
            }
            true
        }
        Op::IntoAot { tp, key } => match ktable_mut(root, tp).and_then(|t| t.entries.iter_mut().find(|(k, _)| k == key)) {
            Some((_, n)) => {
                let new = match n {
                    KNode::Val(RVal::Array(a)) if !a.is_empty() && a.iter().all(|x| matches!(x, RVal::Table(_))) => KNode::Aot(
                        a.iter()
                            .map(|x| KTable { kind: KKind::Element, entries: x.as_table().unwrap().entries.iter().map(|(k, v)| (k.clone(), KNode::Val(v.clone()))).collect() })
                            .collect(),
                    ),
                    _ => return false,
                };
                *n = new;
                true
            }
            None => false,
        },
        Op::Arr { tp, key, op } => match ktable_mut(root, tp).and_then(|t| t.entries.iter_mut().find(|(k, _)| k == key)) {
            Some((_, KNode::Val(RVal::Array(a)))) => {
                match op {
                    ArrOp::Push(v) => a.push(RVal::Int(*v)),
                    ArrOp::Insert(i, v) => {
                        if *i > a.len() {
                            return false;
                        }
                        a.insert(*i, RVal::Int(*v))
                    }
                    ArrOp::Replace(i, v) => {
                        if *i >= a.len() {
                            return false;
                        }
                        a[*i] = RVal::Int(*v)
                    }
                    ArrOp::Remove(i) => {
                        if *i >= a.len() {
                            return false;
                        }
                        a.remove(*i);
                    }
                    ArrOp::RetainInts => a.retain(|x| matches!(x, RVal::Int(_))),
                    ArrOp::Clear => a.clear(),
                    ArrOp::Fmt => {}
                    ArrOp::PushMany(n, base) => {
                        for i in 0..*n {
                            a.push(RVal::Int(base + i as i64));
                        }
                    }
                    ArrOp::SortByKeyMod(m) | ArrOp::SortByMod(m) => {
                        let m = *m;
                        a.sort_by_key(|x| match x {
                            RVal::Int(i) => i.rem_euclid(m),
                            _ => -1,
                        });
                    }
                }
                true
            }
            _ => false,
        },
        Op::Inl { tp, key, op } => match ktable_mut(root, tp).and_then(|t| t.entries.iter_mut().find(|(k, _)| k == key)) {
            Some((_, KNode::Val(RVal::Table(t)))) => {
                match op {
                    InlOp::Insert(k, v) => {
                        t.insert(k, RVal::Int(*v));
                    }
                    InlOp::Remove(k) => {
                        t.remove(k);
                    }
                    InlOp::GetOrInsert(k, v) => {
                        if t.get(k).is_none() {
                            t.insert(k, RVal::Int(*v));
                        }
                    }
                    InlOp::Sort => sort_val(t),
                    InlOp::Clear => t.entries.clear(),
                    InlOp::Fmt => {}
                    InlOp::Extend(pairs) => {
                        for (k, v) in pairs {
                            t.insert(k, RVal::Int(*v));
                        }
                    }
                }
                true
            }
            _ => false,
        },
        Op::NestedAssign { tp, key, key2, val } => {
            let t = match ktable_mut(root, tp) {
                Some(t) => t,
                None => return false,
            };
            match t.entries.iter_mut().find(|(k, _)| k == key) {
                None => {
                    t.entries.push((key.clone(), KNode::Val(RVal::table(vec![(key2.clone(), RVal::Int(*val))]))));
                    true
                }
                Some((_, KNode::Val(RVal::Table(rt)))) => {
                    rt.insert(key2, RVal::Int(*val));
                    true
                }
                Some((_, KNode::Table(sub))) => {
                    put(sub, key2, KNode::Val(RVal::Int(*val)));
                    true
                }
                _ => false,
            }
        }
    }
}

// ---------------------------------------------------------------- the real document

fn table_mut<'a>(root: &'a mut Table, path: &[Step]) -> Option<&'a mut Table> {
    let mut t = root;
    let mut i = 0;
    while i < path.len() {
        let k = match &path[i] {
            Step::Key(k) => k,
            Step::Idx(_) => return None,
        };
        t = match t.get_mut(k)? {
            Item::Table(x) => x,
            Item::ArrayOfTables(a) => {
                i += 1;
                match path.get(i) {
                    Some(Step::Idx(j)) => a.get_mut(*j)?,
                    _ => return None,
                }
            }
            _ => return None,
        };
        i += 1;
    }
    Some(t)
}

fn rval_to_value(v: &RVal) -> Value {
    match v {
        RVal::Str(s) => Value::from(s.as_str()),
        RVal::Int(i) => Value::from(*i),
        RVal::Float(b) => Value::from(f64::from_bits(*b)),
        RVal::Bool(b) => Value::from(*b),
        RVal::Dt(d) => Value::from(crate::obs::r_to_dt(d)),
        RVal::Array(a) => Value::Array(a.iter().map(rval_to_value).collect()),
        RVal::Table(t) => {
            let mut it = InlineTable::new();
            for (k, x) in &t.entries {
                it.insert(k.as_str(), rval_to_value(x));
            }
            Value::InlineTable(it)
        }
    }
}

/// Err(reason) = the real structure does not allow the operation although the model did
fn apply_real(doc: &mut DocumentMut, op: &Op) -> Result<(), String> {
    let root = doc.as_table_mut();
    let miss = |what: &str| format!("the document has no {what} where the model has one");
    match op {
        Op::InsertVal { tp, key, val, how } => {
            let t = table_mut(root, tp).ok_or_else(|| miss("table"))?;
            let item = Item::Value(rval_to_value(val));
            match how % 4 {
                0 => {
                    t.insert(key, item);
                }
                1 => {
                    t.insert_formatted(&Key::new(key.as_str()), item);
                }
                2 => {
                    t.entry(key).or_insert(item);
                }
                _ => t[key.as_str()] = item,
            }
        }
        Op::Remove { tp, key, how } => {
            let t = table_mut(root, tp).ok_or_else(|| miss("table"))?;
            match how % 4 {
                0 => {
                    t.remove(key);
                }
                1 => {
                    t.remove_entry(key);
                }
                2 => {
                    if let toml_edit::Entry::Occupied(o) = t.entry(key) {
                        o.remove();
                    }
                }
                _ => {
                    let tl: &mut dyn toml_edit::TableLike = t;
                    if let toml_edit::Entry::Occupied(o) = tl.entry(key) {
                        o.remove();
                    }
                }
            }
        }
        Op::Retain { tp, drop } => {
            let t = table_mut(root, tp).ok_or_else(|| miss("table"))?;
            t.retain(|k, _| k != drop);
        }
        Op::InsertTable { tp, key, inner, val } => {
            let t = table_mut(root, tp).ok_or_else(|| miss("table"))?;
            let mut n = Table::new();
            n.insert(inner, toml_edit::value(*val));
            t.insert(key, Item::Table(n));
        }
        Op::AotPush { tp, key, val } => {
            let t = table_mut(root, tp).ok_or_else(|| miss("table"))?;
            let mut el = Table::new();
            el.insert("id", toml_edit::value(*val));
            match t.get_mut(key) {
                Some(Item::ArrayOfTables(a)) => a.push(el),
                _ => {
                    let mut a = ArrayOfTables::new();
                    a.push(el);
                    t.insert(key, Item::ArrayOfTables(a));
                }
            }
        }
        Op::AotRemove { tp, key, idx } => match table_mut(root, tp).and_then(|t| t.get_mut(key)) {
            Some(Item::ArrayOfTables(a)) if *idx < a.len() => a.remove(*idx),
            _ => return Err(miss("array of tables element")),
        },
        Op::AotClear { tp, key } => match table_mut(root, tp).and_then(|t| t.get_mut(key)) {
            Some(Item::ArrayOfTables(a)) => a.clear(),
            _ => return Err(miss("array of tables")),
        },
        Op::Sort { tp } => table_mut(root, tp).ok_or_else(|| miss("table"))?.sort_values(),
        Op::Clear { tp } => table_mut(root, tp).ok_or_else(|| miss("table"))?.clear(),
        Op::Fmt { tp } => table_mut(root, tp).ok_or_else(|| miss("table"))?.fmt(),
        Op::MakeValue { tp, key } => match table_mut(root, tp).and_then(|t| t.get_mut(key)) {
            Some(item) => item.make_value(),
            None => return Err(miss("item")),
        },
        Op::IntoTable { tp, key, via_insert } => {
            let t = table_mut(root, tp).ok_or_else(|| miss("table"))?;
            if *via_insert {
                let item = t.remove(key).ok_or_else(|| miss("item"))?;
                let tb = item.into_table().map_err(|_| "into_table refused an inline table".to_string())?;
                t.insert(key, Item::Table(tb));
            } else {
                let item = t.get_mut(key).ok_or_else(|| miss("item"))?;
                let old = std::mem::take(item);
                *item = Item::Table(old.into_table().map_err(|_| "into_table refused an inline table".to_string())?);
            }
        }
        Op::IntoAot { tp, key } => {
            let item = table_mut(root, tp).and_then(|t| t.get_mut(key)).ok_or_else(|| miss("item"))?;
            let old = std::mem::take(item);
            *item = Item::ArrayOfTables(old.into_array_of_tables().map_err(|_| "into_array_of_tables refused an array of inline tables".to_string())?);
        }
        Op::Arr { tp, key, op } => {
            let a: &mut Array = table_mut(root, tp).and_then(|t| t.get_mut(key)).and_then(|i| i.as_array_mut()).ok_or_else(|| miss("array"))?;
            // the elements an operation does not name keep their own text, blanks and comments
            // included (what `Value::to_string` shows for each of them)
            let before: Vec<String> = a.iter().map(|v| v.to_string()).collect();
            let expected_after: Option<Vec<Option<String>>> = match op {
                ArrOp::Push(_) => Some(before.iter().cloned().map(Some).chain(std::iter::once(None)).collect()),
                ArrOp::PushMany(n, _) => Some(before.iter().cloned().map(Some).chain(std::iter::repeat(None).take(*n)).collect()),
                ArrOp::Insert(i, _) if *i <= before.len() => {
                    let mut v: Vec<Option<String>> = before.iter().cloned().map(Some).collect();
                    v.insert(*i, None);
                    Some(v)
                }
                ArrOp::Replace(i, _) if *i < before.len() => {
                    let mut v: Vec<Option<String>> = before.iter().cloned().map(Some).collect();
                    v[*i] = None;
                    Some(v)
                }
                ArrOp::Remove(i) if *i < before.len() => {
                    let mut v: Vec<Option<String>> = before.iter().cloned().map(Some).collect();
                    v.remove(*i);
                    Some(v)
                }
                _ => None,
            };
            match op {
                // every third value arrives with trivia of the place it was taken from; `push` and
                // `insert` apply default formatting, so the comment must not reach the text
                ArrOp::Push(v) if v % 3 == 0 => a.push(toml_edit::Value::from(*v).decorated("\n  # was here\n  ", " # and here")),
                ArrOp::Insert(i, v) if v % 3 == 0 => a.insert(*i, toml_edit::Value::from(*v).decorated("  ", " # and here")),
                ArrOp::Push(v) => a.push(*v),
                ArrOp::Insert(i, v) => a.insert(*i, *v),
                ArrOp::Replace(i, v) => {
                    a.replace(*i, *v);
                }
                ArrOp::Remove(i) => {
                    a.remove(*i);
                }
                ArrOp::RetainInts => a.retain(|v| v.is_integer()),
                ArrOp::Clear => a.clear(),
                ArrOp::Fmt => a.fmt(),
                ArrOp::PushMany(n, base) => {
                    for i in 0..*n {
                        a.push(base + i as i64);
                    }
                }
                ArrOp::SortByKeyMod(m) => {
                    let m = *m;
                    a.sort_by_key(|v| v.as_integer().map_or(-1, |i| i.rem_euclid(m)));
                }
                ArrOp::SortByMod(m) => {
                    let m = *m;
                    a.sort_by(|x, y| x.as_integer().map_or(-1, |i| i.rem_euclid(m)).cmp(&y.as_integer().map_or(-1, |i| i.rem_euclid(m))));
                }
            }
            if let Some(exp) = &expected_after {
                let after: Vec<String> = a.iter().map(|v| v.to_string()).collect();
                if after.len() != exp.len() {
                    return Err(format!("VERBATIM the array has {} elements, {} expected", after.len(), exp.len()));
                }
                for (j, (got, want)) in after.iter().zip(exp.iter()).enumerate() {
                    if let Some(w) = want {
                        if got != w {
                            return Err(format!("VERBATIM element {j} was not named by the operation but its text changed from {w:?} to {got:?}"));
                        }
                    }
                }
            }
        }
        Op::Inl { tp, key, op } => {
            let t: &mut InlineTable = table_mut(root, tp).and_then(|t| t.get_mut(key)).and_then(|i| i.as_inline_table_mut()).ok_or_else(|| miss("inline table"))?;
            match op {
                InlOp::Insert(k, v) => {
                    t.insert(k.as_str(), Value::from(*v));
                }
                InlOp::Remove(k) => {
                    // half of the removals go through the entry API of the TableLike view
                    if k.bytes().map(|b| b as u32).sum::<u32>() % 2 == 0 {
                        t.remove(k);
                    } else {
                        let tl: &mut dyn toml_edit::TableLike = t;
                        if let toml_edit::Entry::Occupied(o) = tl.entry(k) {
                            o.remove();
                        }
                    }
                }
                InlOp::GetOrInsert(k, v) => {
                    t.get_or_insert(k.as_str(), *v);
                }
                InlOp::Sort => t.sort_values(),
                InlOp::Clear => t.clear(),
                InlOp::Fmt => t.fmt(),
                InlOp::Extend(pairs) => t.extend(pairs.iter().map(|(k, v)| (k.as_str(), Value::from(*v)))),
            }
        }
        Op::NestedAssign { tp, key, key2, val } => {
            let t = table_mut(root, tp).ok_or_else(|| miss("table"))?;
            t[key.as_str()][key2.as_str()] = toml_edit::value(*val);
        }
    }
    Ok(())
}

// ---------------------------------------------------------------- operation generator

fn gen_op(rng: &mut Rng, model: &KTable, counter: &mut i64) -> Op {
    let mut tables = Vec::new();
    all_tables(model, &mut Vec::new(), &mut tables);
    let tp = tables[rng.below(tables.len())].clone();
    let mut m2 = model.clone();
    let t = ktable_mut(&mut m2, &tp).unwrap().clone();
    let existing: Vec<&(String, KNode)> = t.entries.iter().collect();
    let fresh = |rng: &mut Rng| -> String {
        let pool = ["new", "k", "zz", "a", "b", "m-1", "x y", "", "é"];
        rng.pick(&pool).to_string()
    };
    let pick_key = |rng: &mut Rng| -> String {
        if !existing.is_empty() && rng.chance(2, 3) {
            existing[rng.below(existing.len())].0.clone()
        } else {
            fresh(rng)
        }
    };
    *counter += 1;
    let c = *counter;
    // prefer operations that apply to the children that exist
    let arrays: Vec<&String> = existing.iter().filter(|(_, n)| matches!(n, KNode::Val(RVal::Array(_)))).map(|(k, _)| k).collect();
    let inlines: Vec<&String> = existing.iter().filter(|(_, n)| matches!(n, KNode::Val(RVal::Table(_)))).map(|(k, _)| k).collect();
    let aots: Vec<(&String, usize)> = existing.iter().filter_map(|(k, n)| if let KNode::Aot(v) = n { Some((k, v.len())) } else { None }).collect();
    let tables_or_aots: Vec<&String> = existing.iter().filter(|(_, n)| !matches!(n, KNode::Val(_))).map(|(k, _)| k).collect();
    let aoi: Vec<&String> = existing
        .iter()
        .filter(|(_, n)| matches!(n, KNode::Val(RVal::Array(a)) if !a.is_empty() && a.iter().all(|x| matches!(x, RVal::Table(_)))))
        .map(|(k, _)| k)
        .collect();
    for _ in 0..8 {
        match rng.below(22) {
            0..=4 => {
                let val = match rng.below(6) {
                    0 => RVal::Str(format!("s{c}")),
                    1 => RVal::Array(vec![RVal::Int(c), RVal::Int(c + 1)]),
                    2 => RVal::table(vec![("p".into(), RVal::Int(c))]),
                    3 => RVal::Bool(c % 2 == 0),
                    _ => RVal::Int(c),
                };
                return Op::InsertVal { tp, key: pick_key(rng), val, how: rng.below(4) as u8 };
            }
            5 | 6 | 7 if !existing.is_empty() => return Op::Remove { tp, key: existing[rng.below(existing.len())].0.clone(), how: rng.below(4) as u8 },
            8 => return Op::InsertTable { tp, key: pick_key(rng), inner: "v".into(), val: c },
            9 => {
                let key = if !aots.is_empty() && rng.chance(2, 3) { aots[rng.below(aots.len())].0.clone() } else { pick_key(rng) };
                return Op::AotPush { tp, key, val: c };
            }
            10 if !aots.is_empty() => {
                let (k, n) = aots[rng.below(aots.len())];
                if n > 0 {
                    return if rng.chance(1, 5) { Op::AotClear { tp, key: k.clone() } } else { Op::AotRemove { tp, key: k.clone(), idx: rng.below(n) } };
                }
            }
            11 if !existing.is_empty() => return Op::Retain { tp, drop: existing[rng.below(existing.len())].0.clone() },
            12 => return Op::Sort { tp },
            13 => {
                if rng.chance(1, 3) {
                    return Op::Clear { tp };
                } else {
                    return Op::Fmt { tp };
                }
            }
            14 if !tables_or_aots.is_empty() => return Op::MakeValue { tp, key: tables_or_aots[rng.below(tables_or_aots.len())].clone() },
            15 | 16 if !inlines.is_empty() => return Op::IntoTable { tp, key: inlines[rng.below(inlines.len())].clone(), via_insert: rng.coin() },
            17 if !aoi.is_empty() => return Op::IntoAot { tp, key: aoi[rng.below(aoi.len())].clone() },
            18 | 19 if !arrays.is_empty() => {
                let key = arrays[rng.below(arrays.len())].clone();
                let len = match t.entries.iter().find(|(k, _)| *k == key) {
                    Some((_, KNode::Val(RVal::Array(a)))) => a.len(),
                    _ => 0,
                };
                let op = match rng.below(11) {
                    0 | 1 => ArrOp::Push(c),
                    2 => ArrOp::Insert(rng.below(len + 1), c),
                    3 if len > 0 => ArrOp::Replace(rng.below(len), c),
                    4 if len > 0 => ArrOp::Remove(rng.below(len)),
                    5 => ArrOp::RetainInts,
                    6 => {
                        if rng.chance(1, 3) {
                            ArrOp::Clear
                        } else {
                            ArrOp::Fmt
                        }
                    }
                    7 => ArrOp::PushMany(18 + rng.below(30), c),
                    8 => ArrOp::SortByKeyMod(2 + rng.below(4) as i64),
                    9 => ArrOp::SortByMod(2 + rng.below(4) as i64),
                    _ => ArrOp::Push(c),
                };
                return Op::Arr { tp, key, op };
            }
            20 if !inlines.is_empty() => {
                let key = inlines[rng.below(inlines.len())].clone();
                let sub: Vec<String> = match t.entries.iter().find(|(k, _)| *k == key) {
                    Some((_, KNode::Val(RVal::Table(rt)))) => rt.entries.iter().map(|(k, _)| k.clone()).collect(),
                    _ => vec![],
                };
                let k2 = if !sub.is_empty() && rng.coin() { sub[rng.below(sub.len())].clone() } else { fresh(rng) };
                let op = match rng.below(8) {
                    7 => {
                        // an existing key, a new one, and the new one again
                        let other = fresh(rng);
                        InlOp::Extend(vec![(k2, c), (other.clone(), c + 1), (other, c + 2)])
                    }
                    0 | 1 => InlOp::Insert(k2, c),
                    2 => InlOp::Remove(k2),
                    3 => InlOp::GetOrInsert(k2, c),
                    4 => InlOp::Sort,
                    5 => {
                        if rng.chance(1, 3) {
                            InlOp::Clear
                        } else {
                            InlOp::Fmt
                        }
                    }
                    _ => InlOp::Insert(k2, c),
                };
                return Op::Inl { tp, key, op };
            }
            21 => return Op::NestedAssign { tp, key: pick_key(rng), key2: fresh(rng), val: c },
            _ => {}
        }
    }
    Op::InsertVal { tp, key: pick_key(rng), val: RVal::Int(c), how: 0 }
}

// ---------------------------------------------------------------- verbatim monitor

#[derive(Debug, Clone)]
struct Chunk {
    id: Vec<String>,
    text: String,
}

fn inline_nest_end(v: &PVal) -> usize {
    match &v.kind {
        PKind::Scalar(_) | PKind::Array(_) | PKind::Inline(_) => v.span.1,
    }
}

/// statements of a printed text with the trivia they own (everything since the previous
/// statement's line end, up to their own line end); the last chunk (id ["<eof>"]) is what the
/// document owns
fn chunks(d: &Decoded, text: &str) -> Vec<Chunk> {
    let mut out = Vec::new();
    // arrays of tables are counted per parent element: key = resolved id of the array
    let mut aot_count: std::collections::HashMap<Vec<String>, usize> = std::collections::HashMap::new();
    let mut section: Vec<String> = Vec::new();
    let mut prev_end = 0usize;
    let resolve = |aot_count: &std::collections::HashMap<Vec<String>, usize>, names: &[String]| -> Vec<String> {
        let mut cur: Vec<String> = Vec::new();
        for n in names {
            cur.push(n.clone());
            if let Some(c) = aot_count.get(&cur) {
                cur.push(format!("#{}", c - 1));
            }
        }
        cur
    };
    for s in &d.stmts {
        let (id, end) = match s {
            Stmt::Header { path, array, span } => {
                let names: Vec<String> = path.iter().map(|k| k.name.clone()).collect();
                let id = if *array {
                    let mut key = resolve(&aot_count, &names[..names.len() - 1]);
                    key.push(names[names.len() - 1].clone());
                    let c = aot_count.entry(key.clone()).or_insert(0);
                    *c += 1;
                    let idx = *c - 1;
                    // a new element starts: arrays counted below the previous element are out of reach
                    let prefix = key.clone();
                    aot_count.retain(|k, _| !(k.len() > prefix.len() && k[..prefix.len()] == prefix[..]));
                    key.push(format!("#{idx}"));
                    key
                } else {
                    resolve(&aot_count, &names)
                };
                section = id.clone();
                let mut hid = id.clone();
                hid.push("<header>".into());
                (hid, span.1)
            }
            Stmt::KeyVal { path, val, .. } => {
                let mut id = section.clone();
                id.extend(path.iter().map(|k| k.name.clone()));
                (id, inline_nest_end(val))
            }
        };
        let line_end = match text[end..].find('\n') {
            Some(i) => end + i + 1,
            None => text.len(),
        };
        out.push(Chunk { id, text: text[prev_end..line_end].to_string() });
        prev_end = line_end;
    }
    out.push(Chunk { id: vec!["<eof>".into()], text: text[prev_end..].to_string() });
    out
}

fn touched_prefix(op: &Op) -> Vec<String> {
    let conv = |tp: &Path| -> Vec<String> {
        tp.iter()
            .map(|s| match s {
                Step::Key(k) => k.clone(),
                Step::Idx(i) => format!("#{i}"),
            })
            .collect()
    };
    let with = |tp: &Path, k: &String| {
        let mut v = conv(tp);
        v.push(k.clone());
        v
    };
    match op {
        Op::InsertVal { tp, key, .. } | Op::Remove { tp, key, .. } | Op::InsertTable { tp, key, .. } | Op::AotPush { tp, key, .. } | Op::AotRemove { tp, key, .. } | Op::AotClear { tp, key } => with(tp, key),
        Op::Retain { tp, drop } => with(tp, drop),
        Op::MakeValue { tp, key } | Op::IntoTable { tp, key, .. } | Op::IntoAot { tp, key } | Op::Arr { tp, key, .. } | Op::Inl { tp, key, .. } | Op::NestedAssign { tp, key, .. } => with(tp, key),
        Op::Sort { tp } | Op::Clear { tp } | Op::Fmt { tp } => conv(tp),
    }
}

fn under(id: &[String], prefix: &[String]) -> bool {
    id.len() >= prefix.len() && id[..prefix.len()] == *prefix
}

impl C08 {
    fn history(&mut self, ctx: &mut Ctx, rng: &mut Rng, text: &str) {
        let d0 = decode(text);
        if d0.verdict != Verdict::Valid {
            ctx.count("skipped/start-not-valid");
            return;
        }
        let mut model = match kind_tree(&d0.stmts) {
            Ok(m) => m,
            Err(_) => return,
        };
        let mut doc = match guarded(|| DocumentMut::from_str(text)) {
            Ok(Ok(d)) => d,
            _ => {
                ctx.count("skipped/start-refused");
                return;
            }
        };
        let mut prev = doc.to_string();
        let mut dprev = decode(&prev);
        if dprev.verdict != Verdict::Valid {
            ctx.count("skipped/first-print-not-valid (C03)");
            return;
        }
        let n = 1 + rng.below(30);
        let mut counter = 1000i64;
        let mut history: Vec<String> = Vec::new();
        let mut made: Vec<Vec<String>> = Vec::new();
        ctx.count(&format!("history-length/{}", if n <= 5 { "1-5" } else if n <= 15 { "6-15" } else { "16-30" }));
        for step in 0..n {
            let op = gen_op(rng, &model, &mut counter);
            let before = model.clone();
            if !apply_model(&mut model, &op) {
                model = before;
                ctx.count("steps/not-applicable");
                continue;
            }
            let name = op_name(&op);
            history.push(format!("{op:?}"));
            ctx.set_input(&format!("start: {text:?}\nhistory: {history:?}"));
            let r = guarded(|| apply_real(&mut doc, &op).map(|_| doc.to_string()));
            let printed = match r {
                Err((loc, msg)) => {
                    ctx.violation(&format!("panic:{}", crate::short_loc(&loc)), format!("step {step} {name} panicked at {loc}: {msg}"));
                    return;
                }
                Ok(Err(e)) => {
                    match e.strip_prefix("VERBATIM ") {
                        Some(rest) => ctx.violation(&format!("untouched-element-text-changed:{name}"), format!("step {step} {op:?}: {rest}")),
                        None => ctx.violation(&format!("edit-structure-differs:{name}"), format!("step {step} {op:?}: {e}")),
                    }
                    return;
                }
                Ok(Ok(p)) => p,
            };
            ctx.count(&format!("op/{name}"));
            ctx.count("steps/checked");
            let tgt_kind = {
                let tp = match &op {
                    Op::InsertVal { tp, .. } | Op::Remove { tp, .. } | Op::InsertTable { tp, .. } | Op::AotPush { tp, .. } | Op::AotRemove { tp, .. } | Op::AotClear { tp, .. } | Op::Retain { tp, .. } | Op::Sort { tp } | Op::Clear { tp } | Op::Fmt { tp } | Op::MakeValue { tp, .. } | Op::IntoTable { tp, .. } | Op::IntoAot { tp, .. } | Op::Arr { tp, .. } | Op::Inl { tp, .. } | Op::NestedAssign { tp, .. } => tp.clone(),
                };
                let mut b = before.clone();
                ktable_mut(&mut b, &tp).map(|t| t.kind)
            };
            if let Some(k) = tgt_kind {
                ctx.count(&format!("target-table-kind/{k:?}"));
            }
            let dp = decode(&printed);
            match &dp.verdict {
                Verdict::Valid => {}
                Verdict::Limit(_) => return,
                v => {
                    ctx.violation(&format!("edit-print-invalid:{name}"), format!("after step {step} {op:?} the document prints as invalid TOML ({v:?}): {printed:?}"));
                    return;
                }
            }
            if let Some(diff) = diff_model(&model, dp.tree.as_ref().unwrap(), &mut String::new()) {
                let class = if diff.contains("key/value order") { "order" } else { "content" };
                ctx.violation(&format!("edit-result-differs:{class}:{name}"), format!("after step {step} {op:?}: {diff}\nbefore: {prev:?}\nafter: {printed:?}"));
                return;
            }
            // verbatim: everything outside the touched set keeps its text and relative order
            let prefix = touched_prefix(&op);
            if !prefix.is_empty() && !made.iter().any(|m| m.is_empty()) {
                // entries made or reformatted by earlier steps carry default formatting, which is
                // computed from their surroundings when printing: only source text is held verbatim
                // the header line of a table on the way to the touched entry may have to appear
                // (a value put into a table that so far existed only implicitly)
                let ancestor_header = |c: &Chunk| c.id.last().map_or(false, |l| l == "<header>") && c.id.len() - 1 <= prefix.len() && c.id[..c.id.len() - 1] == prefix[..c.id.len() - 1];
                let exempt = |c: &Chunk| under(&c.id, &prefix) || ancestor_header(c) || made.iter().any(|m| under(&c.id, m));
                let a: Vec<Chunk> = chunks(&dprev, &prev).into_iter().filter(|c| !exempt(c)).collect();
                let b: Vec<Chunk> = chunks(&dp, &printed).into_iter().filter(|c| !exempt(c)).collect();
                ctx.add("verbatim-chunks-compared", a.len() as u64);
                let same = a.len() == b.len() && a.iter().zip(b.iter()).all(|(x, y)| x.id == y.id && x.text == y.text);
                if !same {
                    let mut detail = String::new();
                    for (x, y) in a.iter().zip(b.iter()) {
                        if x.id != y.id || x.text != y.text {
                            detail = format!("entry {:?} was {:?}, now {:?} is {:?}", x.id, x.text, y.id, y.text);
                            break;
                        }
                    }
                    if detail.is_empty() {
                        detail = format!("{} untouched entries before, {} after", a.len(), b.len());
                    }
                    ctx.violation(&format!("untouched-text-changed:{name}"), format!("step {step} {op:?} (touched {prefix:?}): {detail}\nbefore: {prev:?}\nafter: {printed:?}"));
                    return;
                }
            }
            // array-of-tables indices shift when elements go away: exempt the whole array then
            made.push(prefix);
            // statements that appear for the first time (e.g. the header of a table that existed only
            // implicitly so far) are API-made too
            {
                let old_ids: std::collections::HashSet<Vec<String>> = chunks(&dprev, &prev).into_iter().map(|c| c.id).collect();
                for c in chunks(&dp, &printed) {
                    if !old_ids.contains(&c.id) && c.id != ["<eof>".to_string()] {
                        made.push(c.id);
                    }
                }
            }
            prev = printed;
            dprev = dp;
        }
        ctx.nontrivial(hash_bytes(format!("{text}{history:?}").as_bytes()));
    }
}

impl Check for C08 {
    fn id(&self) -> &'static str {
        "C08"
    }
    fn workloads(&mut self, tier: Tier, _seed: u64) -> Vec<(String, u64)> {
        let k = if tier == Tier::Quick { 10 } else { 100 };
        vec![("corpus".into(), 8_000 * k), ("render".into(), 16_000 * k), ("small".into(), 6_000 * k)]
    }
    fn run(&mut self, ctx: &mut Ctx, workload: &str, _index: u64, rng: &mut Rng) {
        ctx.eval();
        let text: String = match workload {
            "corpus" => {
                let c = docs::corpus();
                let valid: Vec<&refmodel::corpus::CorpusFile> = c.iter().filter(|f| f.valid).collect();
                match std::str::from_utf8(&valid[rng.below(valid.len())].bytes) {
                    Ok(t) => t.to_string(),
                    Err(_) => return,
                }
            }
            "render" => {
                let mut cfg = refmodel::gen::GenCfg::random(rng);
                cfg.bom = false;
                cfg.stable_spelling = true;
                cfg.size = *rng.pick(&[3, 6, 10, 20]);
                refmodel::gen::gen_doc(rng, cfg).text
            }
            "small" => rng
                .pick(&[
                    "# note\ndep = { version = \"4\" } # eol\nother = 1\n",
                    "a = 1\n# c\nb = [1, 2, # x\n 3]\n\n[t] # h\nx = 1\n\n[[arr]]\nid = 1\n[[arr]]\nid = 2\n",
                    "a.b.c = 1\na.b.d = 2\nz = 3\n[a.t]\nq = 1\n",
                    "[x.y.z]\nk = 1\n[x]\nj = 2\n[[x.w]]\n[[x.w]]\nid = 3\n",
                    "t = { a = 1, b = { c = 2 } }\nu = [ { a = 1 }, { a = 2 } ]\n",
                    "",
                    "# only a comment\n",
                    "k = 1",
                ])
                .to_string(),
            other => {
                ctx.inconclusive(format!("unknown workload {other}"));
                return;
            }
        };
        self.history(ctx, rng, &text);
    }
}
