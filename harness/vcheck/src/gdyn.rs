//! G-dyn: random serde *shapes* and values of them. `Ser` issues the serde calls a derived
//! `Serialize` would issue; `&Shape` as `DeserializeSeed` mirrors what `serde_derive` generates.

use refmodel::gen;
use refmodel::rng::Rng;
use serde::de::{self, DeserializeSeed, Deserializer, EnumAccess, MapAccess, SeqAccess, VariantAccess, Visitor};
use serde::ser::{SerializeMap, SerializeSeq, SerializeStruct, SerializeStructVariant, SerializeTuple, SerializeTupleStruct, SerializeTupleVariant, Serializer};
use std::fmt;

pub const FIELD_NAMES: [&str; 15] = ["a", "b", "c", "d", "e", "f", "g", "h", "key", "x-y", "content type", "größe", "x.y", "", "1"];
pub const VARIANT_NAMES: [&str; 6] = ["V0", "V1", "Unit", "New", "Tup", "Str"];
pub const TYPE_NAMES: [&str; 4] = ["S", "T", "E", "N"];

#[derive(Clone, Debug, PartialEq)]
pub enum MapKey {
    Str,
    /// keys are unit variants of this enum (names)
    UnitVariant(Vec<&'static str>),
}

#[derive(Clone, Debug, PartialEq)]
pub enum Variant {
    Unit,
    Newtype(Box<Shape>),
    Tuple(Vec<Shape>),
    Struct(Vec<(&'static str, Shape)>),
}

#[derive(Clone, Debug, PartialEq)]
pub enum Shape {
    Bool,
    I8,
    I16,
    I32,
    I64,
    I128,
    U8,
    U16,
    U32,
    U64,
    U128,
    F32,
    F64,
    Char,
    Str,
    Datetime,
    Date,
    Time,
    Opt(Box<Shape>),
    Seq(Box<Shape>),
    Tuple(Vec<Shape>),
    TupleStruct(&'static str, Vec<Shape>),
    Newtype(&'static str, Box<Shape>),
    Struct(&'static str, Vec<(&'static str, Shape)>),
    Map(MapKey, Box<Shape>),
    Enum(&'static str, Vec<(&'static str, Variant)>),
    Unit,
    UnitStruct(&'static str),
}

#[derive(Clone, Debug)]
pub enum Dyn {
    Bool(bool),
    I(i128),
    U(u128),
    F32(f32),
    F64(f64),
    Char(char),
    Str(String),
    Dt(toml_datetime::Datetime),
    None,
    Some(Box<Dyn>),
    Seq(Vec<Dyn>),
    /// tuple / tuple struct / struct fields in declaration order
    Fields(Vec<Dyn>),
    Map(Vec<(String, Dyn)>),
    /// variant index and payload (Unit, a value, or Fields)
    Variant(usize, Box<Dyn>),
    Unit,
}

impl PartialEq for Dyn {
    fn eq(&self, o: &Dyn) -> bool {
        use Dyn::*;
        match (self, o) {
            (Bool(a), Bool(b)) => a == b,
            (I(a), I(b)) => a == b,
            (U(a), U(b)) => a == b,
            (F32(a), F32(b)) => (a.is_nan() && b.is_nan()) || a.to_bits() == b.to_bits(),
            (F64(a), F64(b)) => (a.is_nan() && b.is_nan()) || a.to_bits() == b.to_bits(),
            (Char(a), Char(b)) => a == b,
            (Str(a), Str(b)) => a == b,
            (Dt(a), Dt(b)) => a == b,
            (None, None) => true,
            (Some(a), Some(b)) => a == b,
            (Seq(a), Seq(b)) | (Fields(a), Fields(b)) => a == b,
            (Map(a), Map(b)) => a == b,
            (Variant(i, a), Variant(j, b)) => i == j && a == b,
            (Unit, Unit) => true,
            _ => false,
        }
    }
}

impl Shape {
    pub fn name(&self) -> &'static str {
        match self {
            Shape::Bool => "bool",
            Shape::I8 => "i8",
            Shape::I16 => "i16",
            Shape::I32 => "i32",
            Shape::I64 => "i64",
            Shape::I128 => "i128",
            Shape::U8 => "u8",
            Shape::U16 => "u16",
            Shape::U32 => "u32",
            Shape::U64 => "u64",
            Shape::U128 => "u128",
            Shape::F32 => "f32",
            Shape::F64 => "f64",
            Shape::Char => "char",
            Shape::Str => "string",
            Shape::Datetime => "datetime",
            Shape::Date => "date",
            Shape::Time => "time",
            Shape::Opt(_) => "option",
            Shape::Seq(_) => "seq",
            Shape::Tuple(_) => "tuple",
            Shape::TupleStruct(..) => "tuple-struct",
            Shape::Newtype(..) => "newtype",
            Shape::Struct(..) => "struct",
            Shape::Map(..) => "map",
            Shape::Enum(..) => "enum",
            Shape::Unit => "unit",
            Shape::UnitStruct(_) => "unit-struct",
        }
    }
    pub fn children(&self) -> Vec<(&'static str, &Shape)> {
        match self {
            Shape::Opt(s) | Shape::Seq(s) | Shape::Newtype(_, s) | Shape::Map(_, s) => vec![(self.name(), s)],
            Shape::Tuple(v) | Shape::TupleStruct(_, v) => v.iter().map(|s| (self.name(), s)).collect(),
            Shape::Struct(_, f) => f.iter().map(|(_, s)| ("struct", s)).collect(),
            Shape::Enum(_, vs) => {
                let mut out = Vec::new();
                for (_, v) in vs {
                    match v {
                        Variant::Unit => {}
                        Variant::Newtype(s) => out.push(("newtype-variant", &**s)),
                        Variant::Tuple(t) => t.iter().for_each(|s| out.push(("tuple-variant", s))),
                        Variant::Struct(f) => f.iter().for_each(|(_, s)| out.push(("struct-variant", s))),
                    }
                }
                out
            }
            _ => vec![],
        }
    }
    /// (parent constructor, child constructor) pairs occurring in this shape
    pub fn nestings(&self, out: &mut Vec<(&'static str, &'static str)>) {
        for (p, c) in self.children() {
            out.push((p, c.name()));
            c.nestings(out);
        }
    }
    pub fn is_table_like(&self) -> bool {
        match self {
            Shape::Struct(..) | Shape::Map(..) => true,
            Shape::Newtype(_, s) => s.is_table_like(),
            _ => false,
        }
    }
}

// ------------------------------------------------------------------------------------------
// generation
// ------------------------------------------------------------------------------------------

/// where a shape is being placed (drives the placement rules of DESIGN C07)
#[derive(Clone, Copy, PartialEq)]
enum Place {
    Field,
    SeqElem,
    MapValue,
    Payload,
    /// the payload of a newtype variant: an `Option` here is not a field that can be left out
    VariantPayload,
}

/// `deserialize_struct` / `deserialize_enum` want `&'static` name lists: intern them
fn leak_strs(v: Vec<&'static str>) -> &'static [&'static str] {
    thread_local! {
        static INTERN: std::cell::RefCell<std::collections::HashMap<Vec<&'static str>, &'static [&'static str]>> = std::cell::RefCell::new(Default::default());
    }
    INTERN.with(|m| {
        let mut m = m.borrow_mut();
        if let Some(s) = m.get(&v) {
            return *s;
        }
        let leaked: &'static [&'static str] = Box::leak(v.clone().into_boxed_slice());
        m.insert(v, leaked);
        leaked
    })
}

fn gen_scalar_shape(rng: &mut Rng) -> Shape {
    match rng.below(20) {
        0 => Shape::Bool,
        1 => Shape::I8,
        2 => Shape::I16,
        3 => Shape::I32,
        4 | 5 => Shape::I64,
        6 => Shape::I128,
        7 => Shape::U8,
        8 => Shape::U16,
        9 => Shape::U32,
        10 => Shape::U64,
        11 => Shape::U128,
        12 => Shape::F32,
        13 | 14 => Shape::F64,
        15 => Shape::Char,
        16 | 17 => Shape::Str,
        18 => Shape::Datetime,
        _ => {
            if rng.coin() {
                Shape::Date
            } else {
                Shape::Time
            }
        }
    }
}

fn gen_fields(rng: &mut Rng, depth: usize, min: usize) -> Vec<(&'static str, Shape)> {
    let n = min + rng.below(4);
    let mut names: Vec<&'static str> = FIELD_NAMES.to_vec();
    rng.shuffle(&mut names);
    names.truncate(n.min(names.len()));
    names.into_iter().map(|f| (f, gen_shape_at(rng, depth + 1, Place::Field))).collect()
}

fn gen_enum(rng: &mut Rng, depth: usize) -> Shape {
    let n = 1 + rng.below(4);
    let mut names: Vec<&'static str> = VARIANT_NAMES.to_vec();
    rng.shuffle(&mut names);
    names.truncate(n);
    let vs = names
        .into_iter()
        .map(|v| {
            let var = match rng.below(4) {
                0 => Variant::Unit,
                1 => Variant::Newtype(Box::new(gen_shape_at(rng, depth + 1, Place::VariantPayload))),
                2 => Variant::Tuple((0..1 + rng.below(3)).map(|_| gen_shape_at(rng, depth + 1, Place::SeqElem)).collect()),
                _ => Variant::Struct(gen_fields(rng, depth, 0)),
            };
            (v, var)
        })
        .collect();
    Shape::Enum(*rng.pick(&TYPE_NAMES), vs)
}

fn gen_shape_at(rng: &mut Rng, depth: usize, place: Place) -> Shape {
    if depth >= 5 || rng.chance(2, 5) {
        let s = gen_scalar_shape(rng);
        return s;
    }
    match rng.below(13) {
        0 | 1 if place == Place::Field => {
            // Option: where "missing => None" applies. Now and then an option in an option, or behind
            // a newtype struct: there a `None` cannot be left out and must be refused, not lost
            let inner = gen_shape_at(rng, depth + 1, Place::Payload);
            match rng.below(10) {
                0 => Shape::Opt(Box::new(Shape::Opt(Box::new(inner)))),
                1 => Shape::Newtype(*rng.pick(&TYPE_NAMES), Box::new(Shape::Opt(Box::new(inner)))),
                _ => Shape::Opt(Box::new(inner)),
            }
        }
        0 | 1 if place == Place::VariantPayload && rng.chance(1, 2) => Shape::Opt(Box::new(gen_shape_at(rng, depth + 1, Place::Payload))),
        2 if place == Place::SeqElem && rng.chance(1, 6) => {
            // documented errors: None / unit inside a sequence
            match rng.below(3) {
                0 => Shape::Opt(Box::new(gen_scalar_shape(rng))),
                1 => Shape::Unit,
                _ => Shape::UnitStruct("U"),
            }
        }
        2 | 3 => Shape::Seq(Box::new(gen_shape_at(rng, depth + 1, Place::SeqElem))),
        4 => Shape::Tuple((0..1 + rng.below(3)).map(|_| gen_shape_at(rng, depth + 1, Place::SeqElem)).collect()),
        5 => Shape::TupleStruct(*rng.pick(&TYPE_NAMES), (0..1 + rng.below(3)).map(|_| gen_shape_at(rng, depth + 1, Place::SeqElem)).collect()),
        6 => Shape::Newtype(*rng.pick(&TYPE_NAMES), Box::new(gen_shape_at(rng, depth + 1, Place::Payload))),
        7 | 8 => Shape::Struct(*rng.pick(&TYPE_NAMES), gen_fields(rng, depth, 0)),
        9 => {
            let key = if rng.chance(1, 4) {
                let mut names: Vec<&'static str> = VARIANT_NAMES.to_vec();
                rng.shuffle(&mut names);
                names.truncate(2 + rng.below(3));
                MapKey::UnitVariant(names)
            } else {
                MapKey::Str
            };
            Shape::Map(key, Box::new(gen_shape_at(rng, depth + 1, Place::MapValue)))
        }
        10 | 11 => gen_enum(rng, depth),
        _ => gen_scalar_shape(rng),
    }
}

/// a shape whose root is a table (struct or string-keyed map)
pub fn gen_root_shape(rng: &mut Rng) -> Shape {
    if rng.chance(1, 5) {
        Shape::Map(MapKey::Str, Box::new(gen_shape_at(rng, 1, Place::MapValue)))
    } else {
        Shape::Struct(*rng.pick(&TYPE_NAMES), gen_fields(rng, 0, 1))
    }
}

/// mostly a table root; sometimes the table sits behind a newtype struct or an `Option`, or the
/// root is an externally tagged enum
pub fn gen_root_shape_wrapped(rng: &mut Rng) -> Shape {
    match rng.below(12) {
        0 => Shape::Newtype(*rng.pick(&TYPE_NAMES), Box::new(gen_root_shape(rng))),
        1 => Shape::Opt(Box::new(gen_root_shape(rng))),
        2 => gen_enum(rng, 0),
        _ => gen_root_shape(rng),
    }
}

/// any shape at the root (to exercise the documented non-table-root errors)
pub fn gen_any_root_shape(rng: &mut Rng) -> Shape {
    match rng.below(4) {
        0 => gen_enum(rng, 0),
        1 => Shape::Seq(Box::new(gen_scalar_shape(rng))),
        2 => gen_scalar_shape(rng),
        _ => Shape::Newtype("N", Box::new(gen_root_shape(rng))),
    }
}

fn gen_int(rng: &mut Rng, lo: i128, hi: i128) -> i128 {
    match rng.below(6) {
        0 => lo,
        1 => hi,
        2 => 0i128.clamp(lo, hi),
        3 => (rng.range(-300, 300) as i128).clamp(lo, hi),
        _ => {
            let span = (hi - lo) as u128;
            let r = ((rng.next_u64() as u128) << 64 | rng.next_u64() as u128) % (span.max(1));
            (lo + r as i128).clamp(lo, hi)
        }
    }
}

pub fn gen_value(rng: &mut Rng, s: &Shape) -> Dyn {
    match s {
        Shape::Bool => Dyn::Bool(rng.coin()),
        Shape::I8 => Dyn::I(gen_int(rng, i8::MIN as i128, i8::MAX as i128)),
        Shape::I16 => Dyn::I(gen_int(rng, i16::MIN as i128, i16::MAX as i128)),
        Shape::I32 => Dyn::I(gen_int(rng, i32::MIN as i128, i32::MAX as i128)),
        Shape::I64 => Dyn::I(gen_int(rng, i64::MIN as i128, i64::MAX as i128)),
        Shape::I128 => {
            if rng.chance(1, 8) {
                Dyn::I(gen_int(rng, i128::MIN / 2, i128::MAX / 2) * 2)
            } else {
                Dyn::I(gen_int(rng, i64::MIN as i128, i64::MAX as i128))
            }
        }
        Shape::U8 => Dyn::U(gen_int(rng, 0, u8::MAX as i128) as u128),
        Shape::U16 => Dyn::U(gen_int(rng, 0, u16::MAX as i128) as u128),
        Shape::U32 => Dyn::U(gen_int(rng, 0, u32::MAX as i128) as u128),
        Shape::U64 => {
            if rng.chance(1, 8) {
                Dyn::U(gen_int(rng, i64::MAX as i128, u64::MAX as i128) as u128)
            } else {
                Dyn::U(gen_int(rng, 0, i64::MAX as i128) as u128)
            }
        }
        Shape::U128 => {
            if rng.chance(1, 8) {
                Dyn::U(gen_int(rng, i64::MAX as i128, i128::MAX) as u128)
            } else {
                Dyn::U(gen_int(rng, 0, i64::MAX as i128) as u128)
            }
        }
        Shape::F32 => Dyn::F32(match rng.below(4) {
            0 => *rng.pick(&[0.0f32, -0.0, 1.0, -1.5, f32::INFINITY, f32::NEG_INFINITY, f32::NAN, f32::MAX, f32::MIN_POSITIVE, 0.1, 16777216.0]),
            1 => rng.range(-1000, 1000) as f32 / 8.0,
            _ => {
                let b = rng.next_u64() as u32;
                let f = f32::from_bits(b);
                if f.is_nan() {
                    f32::NAN
                } else {
                    f
                }
            }
        }),
        Shape::F64 => Dyn::F64(f64::from_bits(gen::gen_float_bits(rng))),
        Shape::Char => Dyn::Char(gen::gen_char(rng)),
        Shape::Str => Dyn::Str(gen::gen_string(rng)),
        Shape::Datetime => Dyn::Dt(crate::obs::r_to_dt(&gen::gen_datetime(rng))),
        Shape::Date => Dyn::Dt(crate::obs::r_to_dt(&refmodel::rval::RDatetime { date: Some(gen::gen_date(rng)), time: None, offset: None })),
        Shape::Time => Dyn::Dt(crate::obs::r_to_dt(&refmodel::rval::RDatetime { date: None, time: Some(gen::gen_time(rng)), offset: None })),
        Shape::Opt(inner) => {
            if rng.chance(1, 3) {
                Dyn::None
            } else {
                Dyn::Some(Box::new(gen_value(rng, inner)))
            }
        }
        Shape::Seq(inner) => {
            let n = *rng.pick(&[0usize, 0, 1, 2, 3]);
            Dyn::Seq((0..n).map(|_| gen_value(rng, inner)).collect())
        }
        Shape::Tuple(v) | Shape::TupleStruct(_, v) => Dyn::Fields(v.iter().map(|s| gen_value(rng, s)).collect()),
        Shape::Newtype(_, inner) => gen_value(rng, inner),
        Shape::Struct(_, f) => Dyn::Fields(f.iter().map(|(_, s)| gen_value(rng, s)).collect()),
        Shape::Map(key, inner) => {
            let n = *rng.pick(&[0usize, 0, 1, 2, 3]);
            let mut out: Vec<(String, Dyn)> = Vec::new();
            for _ in 0..n {
                let k = match key {
                    MapKey::Str => gen::gen_key(rng),
                    MapKey::UnitVariant(names) => rng.pick(names).to_string(),
                };
                if !out.iter().any(|(x, _)| *x == k) {
                    let v = gen_value(rng, inner);
                    out.push((k, v));
                }
            }
            // maps come back in the deserializer's key order: compare as sorted
            out.sort_by(|a, b| a.0.cmp(&b.0));
            Dyn::Map(out)
        }
        Shape::Enum(_, vs) => {
            let i = rng.below(vs.len());
            let payload = match &vs[i].1 {
                Variant::Unit => Dyn::Unit,
                Variant::Newtype(s) => gen_value(rng, s),
                Variant::Tuple(t) => Dyn::Fields(t.iter().map(|s| gen_value(rng, s)).collect()),
                Variant::Struct(f) => Dyn::Fields(f.iter().map(|(_, s)| gen_value(rng, s)).collect()),
            };
            Dyn::Variant(i, Box::new(payload))
        }
        Shape::Unit | Shape::UnitStruct(_) => Dyn::Unit,
    }
}

/// Why serializing (shape, value) may legitimately fail: the documented unsupported shapes.
#[derive(Clone, Debug, Default, PartialEq)]
pub struct Unsupported {
    pub none_in_seq: bool,
    /// a `None` that is not itself the value of a struct field (inside `Some`, behind a newtype
    /// struct, at the root): it cannot be left out, so it is the documented "unsupported None"
    pub none_nested: bool,
    pub unit_in_seq: bool,
    pub int_beyond_i64: bool,
    pub non_table_root: bool,
    pub struct_variant_at_root: bool,
    /// the `toml` document serializer writes a tuple variant as a plain sequence, so at the root
    /// it is "a non-table at the document root" for that crate
    pub tuple_variant_at_root: bool,
    /// i128/u128 whose value fits (refused by every serializer: finding D13)
    pub wide_int_in_range: bool,
}

impl Unsupported {
    pub fn any_documented(&self) -> bool {
        self.none_in_seq || self.none_nested || self.unit_in_seq || self.int_beyond_i64 || self.non_table_root || self.struct_variant_at_root
    }
}

fn scan(s: &Shape, v: &Dyn, in_seq: bool, u: &mut Unsupported) {
    scan_at(s, v, in_seq, false, u)
}

/// `bare_field`: this value is directly the value of a struct (or struct variant) field
fn scan_at(s: &Shape, v: &Dyn, in_seq: bool, bare_field: bool, u: &mut Unsupported) {
    match (s, v) {
        (Shape::Opt(_), Dyn::None) => {
            if in_seq {
                u.none_in_seq = true;
            } else if !bare_field {
                u.none_nested = true;
            }
        }
        (Shape::Opt(inner), Dyn::Some(x)) => scan_at(inner, x, in_seq, false, u),
        (Shape::Unit, _) | (Shape::UnitStruct(_), _) => {
            if in_seq {
                u.unit_in_seq = true;
            }
        }
        (Shape::U64, Dyn::U(x)) | (Shape::U128, Dyn::U(x)) => {
            if *x > i64::MAX as u128 {
                u.int_beyond_i64 = true;
            } else if matches!(s, Shape::U128) {
                u.wide_int_in_range = true;
            }
        }
        (Shape::I128, Dyn::I(x)) => {
            if *x > i64::MAX as i128 || *x < i64::MIN as i128 {
                u.int_beyond_i64 = true;
            } else {
                u.wide_int_in_range = true;
            }
        }
        (Shape::Seq(inner), Dyn::Seq(xs)) => xs.iter().for_each(|x| scan(inner, x, true, u)),
        (Shape::Tuple(ss), Dyn::Fields(xs)) | (Shape::TupleStruct(_, ss), Dyn::Fields(xs)) => ss.iter().zip(xs).for_each(|(s, x)| scan(s, x, true, u)),
        (Shape::Newtype(_, inner), x) => scan(inner, x, in_seq, u),
        (Shape::Struct(_, f), Dyn::Fields(xs)) => f.iter().zip(xs).for_each(|((_, s), x)| scan_at(s, x, false, true, u)),
        (Shape::Map(_, inner), Dyn::Map(kv)) => kv.iter().for_each(|(_, x)| scan(inner, x, false, u)),
        (Shape::Enum(_, vs), Dyn::Variant(i, p)) => match (&vs[*i].1, &**p) {
            (Variant::Newtype(s), x) => scan(s, x, false, u),
            (Variant::Tuple(ss), Dyn::Fields(xs)) => ss.iter().zip(xs).for_each(|(s, x)| scan(s, x, true, u)),
            (Variant::Struct(f), Dyn::Fields(xs)) => f.iter().zip(xs).for_each(|((_, s), x)| scan_at(s, x, false, true, u)),
            _ => {}
        },
        _ => {}
    }
}

pub fn unsupported(root: &Shape, v: &Dyn) -> Unsupported {
    let mut u = Unsupported::default();
    scan(root, v, false, &mut u);
    // the document root must be a table
    fn root_kind(s: &Shape, v: &Dyn, u: &mut Unsupported) {
        match (s, v) {
            (Shape::Struct(..), _) | (Shape::Map(..), _) => {}
            (Shape::Newtype(_, inner), x) => root_kind(inner, x, u),
            (Shape::Enum(_, vs), Dyn::Variant(i, _)) => match &vs[*i].1 {
                Variant::Unit => u.non_table_root = true,
                Variant::Struct(_) => u.struct_variant_at_root = true,
                Variant::Tuple(_) => u.tuple_variant_at_root = true,
                Variant::Newtype(inner) => {
                    // `{ V = payload }` is a table whatever the payload
                    let _ = inner;
                }
            },
            (Shape::Opt(inner), Dyn::Some(x)) => root_kind(inner, x, u),
            _ => u.non_table_root = true,
        }
    }
    root_kind(root, v, &mut u);
    u
}

// ------------------------------------------------------------------------------------------
// Serialize
// ------------------------------------------------------------------------------------------

pub struct Ser<'a>(pub &'a Shape, pub &'a Dyn);

struct KeySer<'a>(&'a MapKey, &'a str);

impl serde::Serialize for KeySer<'_> {
    fn serialize<S: Serializer>(&self, s: S) -> Result<S::Ok, S::Error> {
        match self.0 {
            MapKey::Str => s.serialize_str(self.1),
            MapKey::UnitVariant(names) => {
                let i = names.iter().position(|n| *n == self.1).unwrap_or(0);
                s.serialize_unit_variant("K", i as u32, names[i])
            }
        }
    }
}

impl serde::Serialize for Ser<'_> {
    fn serialize<S: Serializer>(&self, s: S) -> Result<S::Ok, S::Error> {
        use serde::ser::Error;
        match (self.0, self.1) {
            (Shape::Bool, Dyn::Bool(b)) => s.serialize_bool(*b),
            (Shape::I8, Dyn::I(x)) => s.serialize_i8(*x as i8),
            (Shape::I16, Dyn::I(x)) => s.serialize_i16(*x as i16),
            (Shape::I32, Dyn::I(x)) => s.serialize_i32(*x as i32),
            (Shape::I64, Dyn::I(x)) => s.serialize_i64(*x as i64),
            (Shape::I128, Dyn::I(x)) => s.serialize_i128(*x),
            (Shape::U8, Dyn::U(x)) => s.serialize_u8(*x as u8),
            (Shape::U16, Dyn::U(x)) => s.serialize_u16(*x as u16),
            (Shape::U32, Dyn::U(x)) => s.serialize_u32(*x as u32),
            (Shape::U64, Dyn::U(x)) => s.serialize_u64(*x as u64),
            (Shape::U128, Dyn::U(x)) => s.serialize_u128(*x),
            (Shape::F32, Dyn::F32(x)) => s.serialize_f32(*x),
            (Shape::F64, Dyn::F64(x)) => s.serialize_f64(*x),
            (Shape::Char, Dyn::Char(c)) => s.serialize_char(*c),
            (Shape::Str, Dyn::Str(x)) => s.serialize_str(x),
            (Shape::Datetime, Dyn::Dt(d)) => serde::Serialize::serialize(d, s),
            (Shape::Date, Dyn::Dt(d)) => serde::Serialize::serialize(&d.date.expect("date"), s),
            (Shape::Time, Dyn::Dt(d)) => serde::Serialize::serialize(&d.time.expect("time"), s),
            (Shape::Opt(_), Dyn::None) => s.serialize_none(),
            (Shape::Opt(inner), Dyn::Some(x)) => s.serialize_some(&Ser(inner, x)),
            (Shape::Seq(inner), Dyn::Seq(xs)) => {
                let mut q = s.serialize_seq(Some(xs.len()))?;
                for x in xs {
                    q.serialize_element(&Ser(inner, x))?;
                }
                q.end()
            }
            (Shape::Tuple(ss), Dyn::Fields(xs)) => {
                let mut q = s.serialize_tuple(ss.len())?;
                for (sh, x) in ss.iter().zip(xs) {
                    q.serialize_element(&Ser(sh, x))?;
                }
                q.end()
            }
            (Shape::TupleStruct(name, ss), Dyn::Fields(xs)) => {
                let mut q = s.serialize_tuple_struct(name, ss.len())?;
                for (sh, x) in ss.iter().zip(xs) {
                    q.serialize_field(&Ser(sh, x))?;
                }
                q.end()
            }
            (Shape::Newtype(name, inner), x) => s.serialize_newtype_struct(name, &Ser(inner, x)),
            (Shape::Struct(name, f), Dyn::Fields(xs)) => {
                let mut q = s.serialize_struct(name, f.len())?;
                for ((fname, sh), x) in f.iter().zip(xs) {
                    q.serialize_field(fname, &Ser(sh, x))?;
                }
                q.end()
            }
            (Shape::Map(key, inner), Dyn::Map(kv)) => {
                let mut q = s.serialize_map(Some(kv.len()))?;
                for (k, x) in kv {
                    q.serialize_entry(&KeySer(key, k), &Ser(inner, x))?;
                }
                q.end()
            }
            (Shape::Enum(name, vs), Dyn::Variant(i, p)) => {
                let (vname, var) = &vs[*i];
                match (var, &**p) {
                    (Variant::Unit, _) => s.serialize_unit_variant(name, *i as u32, vname),
                    (Variant::Newtype(sh), x) => s.serialize_newtype_variant(name, *i as u32, vname, &Ser(sh, x)),
                    (Variant::Tuple(ss), Dyn::Fields(xs)) => {
                        let mut q = s.serialize_tuple_variant(name, *i as u32, vname, ss.len())?;
                        for (sh, x) in ss.iter().zip(xs) {
                            q.serialize_field(&Ser(sh, x))?;
                        }
                        q.end()
                    }
                    (Variant::Struct(f), Dyn::Fields(xs)) => {
                        let mut q = s.serialize_struct_variant(name, *i as u32, vname, f.len())?;
                        for ((fname, sh), x) in f.iter().zip(xs) {
                            q.serialize_field(fname, &Ser(sh, x))?;
                        }
                        q.end()
                    }
                    _ => Err(S::Error::custom("harness: variant payload does not match its shape")),
                }
            }
            (Shape::Unit, _) => s.serialize_unit(),
            (Shape::UnitStruct(n), _) => s.serialize_unit_struct(n),
            (sh, v) => Err(S::Error::custom(format!("harness: value {v:?} does not match shape {}", sh.name()))),
        }
    }
}

// ------------------------------------------------------------------------------------------
// Deserialize
// ------------------------------------------------------------------------------------------

macro_rules! int_visitor {
    ($name:ident, $t:ty, $wrap:expr) => {
        struct $name;
        impl<'de> Visitor<'de> for $name {
            type Value = Dyn;
            fn expecting(&self, f: &mut fmt::Formatter<'_>) -> fmt::Result {
                f.write_str(stringify!($t))
            }
            fn visit_i64<E: de::Error>(self, v: i64) -> Result<Dyn, E> {
                <$t>::try_from(v).map(|x| $wrap(x)).map_err(|_| E::invalid_value(de::Unexpected::Signed(v), &self))
            }
            fn visit_u64<E: de::Error>(self, v: u64) -> Result<Dyn, E> {
                <$t>::try_from(v).map(|x| $wrap(x)).map_err(|_| E::invalid_value(de::Unexpected::Unsigned(v), &self))
            }
            fn visit_i128<E: de::Error>(self, v: i128) -> Result<Dyn, E> {
                <$t>::try_from(v).map(|x| $wrap(x)).map_err(|_| E::custom("i128 out of range"))
            }
            fn visit_u128<E: de::Error>(self, v: u128) -> Result<Dyn, E> {
                <$t>::try_from(v).map(|x| $wrap(x)).map_err(|_| E::custom("u128 out of range"))
            }
        }
    };
}

int_visitor!(VI8, i8, |x| Dyn::I(x as i128));
int_visitor!(VI16, i16, |x| Dyn::I(x as i128));
int_visitor!(VI32, i32, |x| Dyn::I(x as i128));
int_visitor!(VI64, i64, |x| Dyn::I(x as i128));
int_visitor!(VI128, i128, |x| Dyn::I(x));
int_visitor!(VU8, u8, |x| Dyn::U(x as u128));
int_visitor!(VU16, u16, |x| Dyn::U(x as u128));
int_visitor!(VU32, u32, |x| Dyn::U(x as u128));
int_visitor!(VU64, u64, |x| Dyn::U(x as u128));
int_visitor!(VU128, u128, |x| Dyn::U(x));

struct VFloat(bool);
impl<'de> Visitor<'de> for VFloat {
    type Value = Dyn;
    fn expecting(&self, f: &mut fmt::Formatter<'_>) -> fmt::Result {
        f.write_str("a float")
    }
    fn visit_f64<E: de::Error>(self, v: f64) -> Result<Dyn, E> {
        Ok(if self.0 { Dyn::F32(v as f32) } else { Dyn::F64(v) })
    }
    fn visit_i64<E: de::Error>(self, v: i64) -> Result<Dyn, E> {
        Ok(if self.0 { Dyn::F32(v as f32) } else { Dyn::F64(v as f64) })
    }
    fn visit_u64<E: de::Error>(self, v: u64) -> Result<Dyn, E> {
        Ok(if self.0 { Dyn::F32(v as f32) } else { Dyn::F64(v as f64) })
    }
}

struct VBool;
impl<'de> Visitor<'de> for VBool {
    type Value = Dyn;
    fn expecting(&self, f: &mut fmt::Formatter<'_>) -> fmt::Result {
        f.write_str("a boolean")
    }
    fn visit_bool<E: de::Error>(self, v: bool) -> Result<Dyn, E> {
        Ok(Dyn::Bool(v))
    }
}

struct VChar;
impl<'de> Visitor<'de> for VChar {
    type Value = Dyn;
    fn expecting(&self, f: &mut fmt::Formatter<'_>) -> fmt::Result {
        f.write_str("a character")
    }
    fn visit_char<E: de::Error>(self, v: char) -> Result<Dyn, E> {
        Ok(Dyn::Char(v))
    }
    fn visit_str<E: de::Error>(self, v: &str) -> Result<Dyn, E> {
        let mut it = v.chars();
        match (it.next(), it.next()) {
            (Some(c), None) => Ok(Dyn::Char(c)),
            _ => Err(E::invalid_value(de::Unexpected::Str(v), &self)),
        }
    }
}

struct VStr;
impl<'de> Visitor<'de> for VStr {
    type Value = Dyn;
    fn expecting(&self, f: &mut fmt::Formatter<'_>) -> fmt::Result {
        f.write_str("a string")
    }
    fn visit_str<E: de::Error>(self, v: &str) -> Result<Dyn, E> {
        Ok(Dyn::Str(v.to_string()))
    }
    fn visit_string<E: de::Error>(self, v: String) -> Result<Dyn, E> {
        Ok(Dyn::Str(v))
    }
}

struct VOpt<'a>(&'a Shape);
impl<'de> Visitor<'de> for VOpt<'_> {
    type Value = Dyn;
    fn expecting(&self, f: &mut fmt::Formatter<'_>) -> fmt::Result {
        f.write_str("option")
    }
    fn visit_none<E: de::Error>(self) -> Result<Dyn, E> {
        Ok(Dyn::None)
    }
    fn visit_unit<E: de::Error>(self) -> Result<Dyn, E> {
        Ok(Dyn::None)
    }
    fn visit_some<D: Deserializer<'de>>(self, d: D) -> Result<Dyn, D::Error> {
        self.0.deserialize(d).map(|x| Dyn::Some(Box::new(x)))
    }
}

struct VSeq<'a>(&'a Shape);
impl<'de> Visitor<'de> for VSeq<'_> {
    type Value = Dyn;
    fn expecting(&self, f: &mut fmt::Formatter<'_>) -> fmt::Result {
        f.write_str("a sequence")
    }
    fn visit_seq<A: SeqAccess<'de>>(self, mut seq: A) -> Result<Dyn, A::Error> {
        let mut v = Vec::new();
        while let Some(x) = seq.next_element_seed(self.0)? {
            v.push(x);
        }
        Ok(Dyn::Seq(v))
    }
}

struct VTuple<'a>(&'a [Shape]);
impl<'de> Visitor<'de> for VTuple<'_> {
    type Value = Dyn;
    fn expecting(&self, f: &mut fmt::Formatter<'_>) -> fmt::Result {
        write!(f, "a tuple of {} elements", self.0.len())
    }
    fn visit_seq<A: SeqAccess<'de>>(self, mut seq: A) -> Result<Dyn, A::Error> {
        let mut v = Vec::new();
        for (i, s) in self.0.iter().enumerate() {
            match seq.next_element_seed(s)? {
                Some(x) => v.push(x),
                None => return Err(de::Error::invalid_length(i, &self)),
            }
        }
        Ok(Dyn::Fields(v))
    }
}

struct VNewtype<'a>(&'a Shape);
impl<'de> Visitor<'de> for VNewtype<'_> {
    type Value = Dyn;
    fn expecting(&self, f: &mut fmt::Formatter<'_>) -> fmt::Result {
        f.write_str("a newtype struct")
    }
    fn visit_newtype_struct<D: Deserializer<'de>>(self, d: D) -> Result<Dyn, D::Error> {
        self.0.deserialize(d)
    }
    fn visit_seq<A: SeqAccess<'de>>(self, mut seq: A) -> Result<Dyn, A::Error> {
        match seq.next_element_seed(self.0)? {
            Some(x) => Ok(x),
            None => Err(de::Error::invalid_length(0, &self)),
        }
    }
}

/// field identifier: index of a known field, or None for an unknown one
struct FieldId<'a>(&'a [(&'static str, Shape)]);
impl<'de> DeserializeSeed<'de> for FieldId<'_> {
    type Value = Option<usize>;
    fn deserialize<D: Deserializer<'de>>(self, d: D) -> Result<Option<usize>, D::Error> {
        struct V<'a>(&'a [(&'static str, Shape)]);
        impl<'de> Visitor<'de> for V<'_> {
            type Value = Option<usize>;
            fn expecting(&self, f: &mut fmt::Formatter<'_>) -> fmt::Result {
                f.write_str("field identifier")
            }
            fn visit_str<E: de::Error>(self, v: &str) -> Result<Option<usize>, E> {
                Ok(self.0.iter().position(|(n, _)| *n == v))
            }
        }
        d.deserialize_identifier(V(self.0))
    }
}

struct VStruct<'a>(&'a [(&'static str, Shape)]);
impl<'de> Visitor<'de> for VStruct<'_> {
    type Value = Dyn;
    fn expecting(&self, f: &mut fmt::Formatter<'_>) -> fmt::Result {
        f.write_str("a struct")
    }
    fn visit_map<A: MapAccess<'de>>(self, mut map: A) -> Result<Dyn, A::Error> {
        let mut got: Vec<Option<Dyn>> = vec![None; self.0.len()];
        while let Some(k) = map.next_key_seed(FieldId(self.0))? {
            match k {
                Some(i) => {
                    if got[i].is_some() {
                        return Err(de::Error::duplicate_field(self.0[i].0));
                    }
                    got[i] = Some(map.next_value_seed(&self.0[i].1)?);
                }
                None => {
                    map.next_value::<de::IgnoredAny>()?;
                }
            }
        }
        let mut out = Vec::new();
        for (i, g) in got.into_iter().enumerate() {
            match g {
                Some(x) => out.push(x),
                None => match &self.0[i].1 {
                    Shape::Opt(_) => out.push(Dyn::None),
                    _ => return Err(de::Error::missing_field(self.0[i].0)),
                },
            }
        }
        Ok(Dyn::Fields(out))
    }
    fn visit_seq<A: SeqAccess<'de>>(self, mut seq: A) -> Result<Dyn, A::Error> {
        let mut v = Vec::new();
        for (i, (_, s)) in self.0.iter().enumerate() {
            match seq.next_element_seed(s)? {
                Some(x) => v.push(x),
                None => return Err(de::Error::invalid_length(i, &self)),
            }
        }
        Ok(Dyn::Fields(v))
    }
}

struct KeySeed<'a>(&'a MapKey);
impl<'de> DeserializeSeed<'de> for KeySeed<'_> {
    type Value = String;
    fn deserialize<D: Deserializer<'de>>(self, d: D) -> Result<String, D::Error> {
        match self.0 {
            MapKey::Str => {
                let v = d.deserialize_string(VStr)?;
                match v {
                    Dyn::Str(s) => Ok(s),
                    _ => unreachable!(),
                }
            }
            MapKey::UnitVariant(names) => {
                struct V<'a>(&'a [&'static str]);
                impl<'de> Visitor<'de> for V<'_> {
                    type Value = String;
                    fn expecting(&self, f: &mut fmt::Formatter<'_>) -> fmt::Result {
                        f.write_str("a unit variant key")
                    }
                    fn visit_enum<A: EnumAccess<'de>>(self, data: A) -> Result<String, A::Error> {
                        let (idx, va) = data.variant_seed(VariantId(self.0))?;
                        va.unit_variant()?;
                        Ok(self.0[idx].to_string())
                    }
                }
                d.deserialize_enum("K", leak_strs(names.clone()), V(names))
            }
        }
    }
}

struct VMap<'a>(&'a MapKey, &'a Shape);
impl<'de> Visitor<'de> for VMap<'_> {
    type Value = Dyn;
    fn expecting(&self, f: &mut fmt::Formatter<'_>) -> fmt::Result {
        f.write_str("a map")
    }
    fn visit_map<A: MapAccess<'de>>(self, mut map: A) -> Result<Dyn, A::Error> {
        let mut out: Vec<(String, Dyn)> = Vec::new();
        while let Some(k) = map.next_key_seed(KeySeed(self.0))? {
            let v = map.next_value_seed(self.1)?;
            out.push((k, v));
        }
        out.sort_by(|a, b| a.0.cmp(&b.0));
        Ok(Dyn::Map(out))
    }
}

struct VariantId<'a>(&'a [&'static str]);
impl<'de> DeserializeSeed<'de> for VariantId<'_> {
    type Value = usize;
    fn deserialize<D: Deserializer<'de>>(self, d: D) -> Result<usize, D::Error> {
        struct V<'a>(&'a [&'static str]);
        impl<'de> Visitor<'de> for V<'_> {
            type Value = usize;
            fn expecting(&self, f: &mut fmt::Formatter<'_>) -> fmt::Result {
                f.write_str("variant identifier")
            }
            fn visit_str<E: de::Error>(self, v: &str) -> Result<usize, E> {
                self.0.iter().position(|n| *n == v).ok_or_else(|| E::unknown_variant(v, leak_strs(self.0.to_vec())))
            }
            fn visit_u64<E: de::Error>(self, v: u64) -> Result<usize, E> {
                if (v as usize) < self.0.len() {
                    Ok(v as usize)
                } else {
                    Err(E::invalid_value(de::Unexpected::Unsigned(v), &"variant index"))
                }
            }
        }
        d.deserialize_identifier(V(self.0))
    }
}

struct VEnum<'a>(&'a [(&'static str, Variant)]);
impl<'de> Visitor<'de> for VEnum<'_> {
    type Value = Dyn;
    fn expecting(&self, f: &mut fmt::Formatter<'_>) -> fmt::Result {
        f.write_str("an enum")
    }
    fn visit_enum<A: EnumAccess<'de>>(self, data: A) -> Result<Dyn, A::Error> {
        let names: Vec<&'static str> = self.0.iter().map(|(n, _)| *n).collect();
        let (idx, va) = data.variant_seed(VariantId(&names))?;
        let payload = match &self.0[idx].1 {
            Variant::Unit => {
                va.unit_variant()?;
                Dyn::Unit
            }
            Variant::Newtype(s) => va.newtype_variant_seed(&**s)?,
            Variant::Tuple(ss) => va.tuple_variant(ss.len(), VTuple(ss))?,
            Variant::Struct(f) => {
                let fields: Vec<&'static str> = f.iter().map(|(n, _)| *n).collect();
                va.struct_variant(leak_strs(fields), VStruct(f))?
            }
        };
        Ok(Dyn::Variant(idx, Box::new(payload)))
    }
}

struct VUnit;
impl<'de> Visitor<'de> for VUnit {
    type Value = Dyn;
    fn expecting(&self, f: &mut fmt::Formatter<'_>) -> fmt::Result {
        f.write_str("unit")
    }
    fn visit_unit<E: de::Error>(self) -> Result<Dyn, E> {
        Ok(Dyn::Unit)
    }
}

impl<'de> DeserializeSeed<'de> for &Shape {
    type Value = Dyn;
    fn deserialize<D: Deserializer<'de>>(self, d: D) -> Result<Dyn, D::Error> {
        match self {
            Shape::Bool => d.deserialize_bool(VBool),
            Shape::I8 => d.deserialize_i8(VI8),
            Shape::I16 => d.deserialize_i16(VI16),
            Shape::I32 => d.deserialize_i32(VI32),
            Shape::I64 => d.deserialize_i64(VI64),
            Shape::I128 => d.deserialize_i128(VI128),
            Shape::U8 => d.deserialize_u8(VU8),
            Shape::U16 => d.deserialize_u16(VU16),
            Shape::U32 => d.deserialize_u32(VU32),
            Shape::U64 => d.deserialize_u64(VU64),
            Shape::U128 => d.deserialize_u128(VU128),
            Shape::F32 => d.deserialize_f32(VFloat(true)),
            Shape::F64 => d.deserialize_f64(VFloat(false)),
            Shape::Char => d.deserialize_char(VChar),
            Shape::Str => d.deserialize_string(VStr),
            Shape::Datetime => <toml_datetime::Datetime as serde::Deserialize>::deserialize(d).map(Dyn::Dt),
            Shape::Date => <toml_datetime::Date as serde::Deserialize>::deserialize(d).map(|x| Dyn::Dt(x.into())),
            Shape::Time => <toml_datetime::Time as serde::Deserialize>::deserialize(d).map(|x| Dyn::Dt(x.into())),
            Shape::Opt(inner) => d.deserialize_option(VOpt(inner)),
            Shape::Seq(inner) => d.deserialize_seq(VSeq(inner)),
            Shape::Tuple(ss) => d.deserialize_tuple(ss.len(), VTuple(ss)),
            Shape::TupleStruct(name, ss) => d.deserialize_tuple_struct(name, ss.len(), VTuple(ss)),
            Shape::Newtype(name, inner) => d.deserialize_newtype_struct(name, VNewtype(inner)),
            Shape::Struct(name, f) => {
                let fields: Vec<&'static str> = f.iter().map(|(n, _)| *n).collect();
                d.deserialize_struct(name, leak_strs(fields), VStruct(f))
            }
            Shape::Map(key, inner) => d.deserialize_map(VMap(key, inner)),
            Shape::Enum(name, vs) => {
                let names: Vec<&'static str> = vs.iter().map(|(n, _)| *n).collect();
                d.deserialize_enum(name, leak_strs(names), VEnum(vs))
            }
            Shape::Unit => d.deserialize_unit(VUnit),
            Shape::UnitStruct(n) => d.deserialize_unit_struct(n, VUnit),
        }
    }
}

