//! C12 — date-times: the standalone parser, the document parser and the printer agree.

use crate::ctx::{guarded, Ctx, Tier};
use crate::obs::{dt_to_r, r_to_dt};
use crate::Check;
use refmodel::decode::parse_datetime;
use refmodel::gen;
use refmodel::rng::{hash_bytes, Rng};
use refmodel::rval::*;
use std::str::FromStr;

pub struct C12;

const ALPHABET: &[u8] = b"0123456789-:.+TtZz ";

fn verdict_name(v: &Result<RDatetime, String>) -> &'static str {
    match v {
        Ok(d) => match (d.date.is_some(), d.time.is_some(), d.offset.is_some()) {
            (true, true, true) => "offset-date-time",
            (true, true, false) => "local-date-time",
            (true, false, _) => "local-date",
            _ => "local-time",
        },
        Err(_) => "refused",
    }
}

impl C12 {
    /// three-way comparison on one string
    fn judge_string(&mut self, ctx: &mut Ctx, s: &str) {
        ctx.eval();
        ctx.set_input(s);
        ctx.nontrivial(hash_bytes(s.as_bytes()));
        let r: Result<RDatetime, String> = parse_datetime(s).map(|(d, _)| d);
        let standalone = match guarded(|| toml_datetime::Datetime::from_str(s).map(|d| dt_to_r(&d)).map_err(|e| e.to_string())) {
            Ok(x) => x,
            Err((loc, msg)) => {
                ctx.violation(&format!("panic:{}", crate::short_loc(&loc)), format!("Datetime::from_str panicked at {loc}: {msg}"));
                return;
            }
        };
        ctx.count(&format!("verdict/R={} standalone={}", verdict_name(&r), verdict_name(&standalone)));
        match (&r, &standalone) {
            (Ok(a), Ok(b)) => {
                if a != b {
                    ctx.violation("standalone-fields-differ", format!("Datetime::from_str({s:?}) = {b:?}, the grammar gives {a:?}"));
                }
            }
            (Err(e), Ok(b)) => ctx.violation("standalone-accepts-invalid", format!("Datetime::from_str({s:?}) = {} but the TOML grammar refuses it: {e}", show_dt(b))),
            (Ok(a), Err(_)) => ctx.violation("standalone-refuses-valid", format!("Datetime::from_str refuses {s:?}, a valid TOML date-time ({})", show_dt(a))),
            (Err(_), Err(_)) => {}
        }
        // document side: only for strings that are one token (no leading/trailing blank)
        if s.is_empty() || s.starts_with(' ') || s.ends_with(' ') {
            ctx.count("doc-side/skipped-blank-edge");
            return;
        }
        let doc = match guarded(|| {
            let v = toml_edit::Value::from_str(s).map_err(|e| e.to_string()).and_then(|v| v.as_datetime().map(dt_to_r).ok_or_else(|| format!("not a date-time but {}", v.type_name())));
            let d = toml_edit::DocumentMut::from_str(&format!("k = {s}\n")).map_err(|e| e.to_string()).and_then(|d| d.get("k").and_then(|i| i.as_datetime()).map(dt_to_r).ok_or_else(|| "not a date-time".to_string()));
            // the serde front ends read the same document (they go through a second, textual hop)
            let sv = toml::from_str::<toml::Value>(&format!("k = {s}\n")).map_err(|e| e.to_string()).and_then(|v| v.get("k").and_then(|x| x.as_datetime()).map(dt_to_r).ok_or_else(|| "not a date-time".to_string()));
            let sf = toml_edit::de::from_str::<std::collections::BTreeMap<String, toml_datetime::Datetime>>(&format!("k = {s}\n")).map_err(|e| e.to_string()).and_then(|m| m.get("k").map(dt_to_r).ok_or_else(|| "no entry".to_string()));
            (v, d, sv, sf)
        }) {
            Ok(x) => x,
            Err((loc, msg)) => {
                ctx.violation(&format!("panic:{}", crate::short_loc(&loc)), format!("value parser panicked at {loc}: {msg}"));
                return;
            }
        };
        if let Ok(want) = &r {
            self.judge_surroundings(ctx, s, want);
        }
        for (name, got) in [("Value::from_str", &doc.0), ("document", &doc.1), ("toml::from_str::<Value>", &doc.2), ("toml_edit::de::from_str::<map of Datetime>", &doc.3)] {
            match (&r, got) {
                (Ok(a), Ok(b)) => {
                    if a != b {
                        ctx.violation("document-fields-differ", format!("{name} reads {s:?} as {b:?}, the grammar gives {a:?}"));
                    }
                }
                (Err(e), Ok(b)) => ctx.violation("document-accepts-invalid", format!("{name} reads {s:?} as the date-time {} but the grammar refuses it: {e}", show_dt(b))),
                (Ok(a), Err(e)) => ctx.violation("document-refuses-valid", format!("{name} does not read {s:?} as a date-time ({e}); it is the valid {}", show_dt(a))),
                (Err(_), Err(_)) => {}
            }
            // and the two real parsers among themselves
            if standalone.is_ok() != got.is_ok() && r.is_ok() == got.is_ok() {
                // already reported through R
            }
        }
    }

    /// a valid date-time is the same date-time wherever a value may stand: followed by a blank,
    /// a comment, a comma, a closing bracket or brace, a line break inside an array
    fn judge_surroundings(&mut self, ctx: &mut Ctx, s: &str, want: &RDatetime) {
        let settings: [(&str, String); 9] = [
            ("array, blank before `]`", format!("k = [ {s} ]\n")),
            ("array, tight", format!("k = [{s}]\n")),
            ("array, second element", format!("k = [{s} , {s}]\n")),
            ("array, trailing comma", format!("k = [{s},]\n")),
            ("array over lines", format!("k = [\n  {s} # c\n  ,\n  {s}\n]\n")),
            ("inline table", format!("k = {{ a = {s} }}\n")),
            ("inline table, tight", format!("k = {{a={s}}}\n")),
            ("comment after a blank", format!("k = {s} # c\n")),
            ("tab, CR LF, end of file", format!("k = {s}\t\r\nj = {s}")),
        ];
        for (what, text) in settings {
            ctx.count("doc-side/surroundings");
            let got = guarded(|| {
                toml_edit::DocumentMut::from_str(&text).map_err(|e| e.to_string()).and_then(|d| {
                    let it = d.get("k").ok_or_else(|| "no k".to_string())?;
                    let last = d.get("j").and_then(|i| i.as_datetime()).map(dt_to_r);
                    let mut all: Vec<RDatetime> = Vec::new();
                    if let Some(a) = it.as_array() {
                        for e in a.iter() {
                            all.push(e.as_datetime().map(dt_to_r).ok_or_else(|| format!("element is {}", e.type_name()))?);
                        }
                    } else if let Some(t) = it.as_inline_table() {
                        all.push(t.get("a").and_then(|v| v.as_datetime()).map(dt_to_r).ok_or_else(|| "no date-time at a".to_string())?);
                    } else {
                        all.push(it.as_datetime().map(dt_to_r).ok_or_else(|| format!("k is {}", it.type_name()))?);
                    }
                    all.extend(last);
                    Ok(all)
                })
            });
            match got {
                Err((loc, msg)) => ctx.violation(&format!("panic:{}", crate::short_loc(&loc)), format!("parser panicked at {loc} on {text:?}: {msg}")),
                Ok(Err(e)) => ctx.violation("document-refuses-valid", format!("{what}: {text:?} is refused ({}); {s:?} is the valid {}", e.lines().last().unwrap_or(""), show_dt(want))),
                Ok(Ok(all)) => {
                    if let Some(b) = all.iter().find(|b| *b != want) {
                        ctx.violation("document-fields-differ", format!("{what}: {text:?} gives {b:?}, the grammar gives {want:?}"));
                    }
                }
            }
        }
    }

    /// printing: to_string -> both parsers accept -> identical value -> identical second print
    fn judge_print(&mut self, ctx: &mut Ctx, d: &RDatetime, how: &str) {
        ctx.eval();
        ctx.set_input(&format!("{how}: {}", show_dt(d)));
        ctx.nontrivial(hash_bytes(format!("{d:?}").as_bytes()));
        ctx.count(&format!("print/{how}/{}", verdict_name(&Ok(d.clone()))));
        let dt = r_to_dt(d);
        let r = guarded(|| {
            let text = dt.to_string();
            let back = toml_datetime::Datetime::from_str(&text).map_err(|e| e.to_string());
            let doc = toml_edit::DocumentMut::from_str(&format!("k = {text}\n")).map_err(|e| e.to_string()).and_then(|d| d.get("k").and_then(|i| i.as_datetime()).copied().ok_or_else(|| "not a date-time in a document".to_string()));
            let edit_print = toml_edit::Value::from(dt).to_string().trim().to_string();
            let toml_print = toml::Value::Datetime(dt).to_string();
            let second = back.as_ref().ok().map(|b| b.to_string());
            (text, back, doc, edit_print, toml_print, second)
        });
        let (text, back, doc, edit_print, toml_print, second) = match r {
            Ok(x) => x,
            Err((loc, msg)) => {
                ctx.violation(&format!("panic:{}", crate::short_loc(&loc)), format!("printing/parsing a date-time panicked at {loc}: {msg}"));
                return;
            }
        };
        match parse_datetime(&text) {
            Ok((x, _)) => {
                if &x != d {
                    ctx.violation("print-changes-value", format!("{d:?} prints as {text:?}, which the grammar reads as {x:?}"));
                }
            }
            Err(e) => ctx.violation("print-invalid", format!("{d:?} prints as {text:?}, which is not a TOML date-time: {e}")),
        }
        match back {
            Ok(b) => {
                if dt_to_r(&b) != *d {
                    ctx.violation("print-changes-value", format!("{d:?} prints as {text:?}; Datetime::from_str reads {b:?}"));
                }
            }
            Err(e) => ctx.violation("print-refused-by-standalone-parser", format!("{d:?} prints as {text:?}; Datetime::from_str refuses it: {e}")),
        }
        match doc {
            Ok(b) => {
                if dt_to_r(&b) != *d {
                    ctx.violation("print-changes-value", format!("{d:?} prints as {text:?}; the document parser reads {b:?}"));
                }
            }
            Err(e) => ctx.violation("print-refused-by-document-parser", format!("{d:?} prints as {text:?}; the document parser: {}", e.lines().last().unwrap_or(""))),
        }
        if let Some(s2) = second {
            if s2 != text {
                ctx.violation("print-not-stable", format!("first print {text:?}, second {s2:?}"));
            }
        }
        if edit_print != text || toml_print != text {
            ctx.violation("printers-disagree", format!("Datetime prints {text:?}, toml_edit::Value {edit_print:?}, toml::Value {toml_print:?}"));
        }
    }
}

const YEARS: [u16; 8] = [0, 1, 1900, 2000, 2023, 2024, 2100, 9999];

fn lattice_dates() -> u64 {
    (YEARS.len() * 14 * 33) as u64
}

fn lattice_date(i: u64) -> String {
    let y = YEARS[(i % 8) as usize];
    let m = (i / 8) % 14;
    let d = i / (8 * 14);
    format!("{y:04}-{m:02}-{d:02}")
}

const EDGE60: [u8; 5] = [0, 30, 59, 60, 61];

fn lattice_times() -> u64 {
    26 * 5 * 5
}

fn lattice_time(i: u64) -> String {
    let h = i % 26;
    let m = EDGE60[((i / 26) % 5) as usize];
    let s = EDGE60[(i / (26 * 5)) as usize];
    format!("{h:02}:{m:02}:{s:02}")
}

fn lattice_offsets() -> u64 {
    2 * 26 * 4 + 4
}

fn lattice_offset(i: u64) -> String {
    if i >= 2 * 26 * 4 {
        return ["Z", "z", "", "+"][(i - 2 * 26 * 4) as usize].to_string();
    }
    let sign = if i % 2 == 0 { '+' } else { '-' };
    let h = (i / 2) % 26;
    let m = [0, 59, 60, 99][(i / 52) as usize];
    format!("{sign}{h:02}:{m:02}")
}

fn valid_string(rng: &mut Rng) -> String {
    let d = gen::gen_datetime(rng);
    gen::render_datetime(rng, &d)
}

impl Check for C12 {
    fn id(&self) -> &'static str {
        "C12"
    }
    fn workloads(&mut self, tier: Tier, _seed: u64) -> Vec<(String, u64)> {
        let k = if tier == Tier::Quick { 10 } else { 80 };
        vec![
            ("lattice-date".into(), lattice_dates()),
            ("lattice-time".into(), lattice_times() * 14),
            ("lattice-datetime".into(), lattice_dates() * 3),
            ("lattice-offset".into(), lattice_offsets() * 3),
            ("lattice-cross".into(), 60_000 * k),
            ("valid".into(), 40_000 * k),
            ("mutants".into(), 300_000 * k),
            ("print-parsed".into(), 60_000 * k),
            ("print-literal".into(), 120_000 * k),
            ("long-fractions".into(), 6 * 36 * 4),
        ]
    }
    fn run(&mut self, ctx: &mut Ctx, workload: &str, index: u64, rng: &mut Rng) {
        match workload {
            "lattice-date" => {
                ctx.count("exhaustive/dates");
                let s = lattice_date(index);
                self.judge_string(ctx, &s);
                // printing every valid date of the lattice
                if let Ok((d, _)) = parse_datetime(&s) {
                    self.judge_print(ctx, &d, "lattice");
                }
            }
            "lattice-time" => {
                ctx.count("exhaustive/times-x-fraction-lengths");
                let t = lattice_time(index / 14);
                let nf = (index % 14) as usize;
                let frac: String = "9876543219999".chars().take(nf.min(13)).collect();
                let s = if nf == 0 {
                    t
                } else if nf == 13 {
                    format!("{t}.")
                } else {
                    format!("{t}.{frac}")
                };
                self.judge_string(ctx, &s);
                if let Ok((d, _)) = parse_datetime(&s) {
                    self.judge_print(ctx, &d, "lattice");
                }
            }
            "lattice-datetime" => {
                ctx.count("exhaustive/dates-x-delimiters");
                let delim = ["T", "t", " "][(index % 3) as usize];
                let s = format!("{}{delim}07:32:00", lattice_date(index / 3));
                self.judge_string(ctx, &s);
            }
            "lattice-offset" => {
                ctx.count("exhaustive/offsets-x-delimiters");
                let delim = ["T", "t", " "][(index % 3) as usize];
                let s = format!("1979-05-27{delim}07:32:00{}", lattice_offset(index / 3));
                self.judge_string(ctx, &s);
                if let Ok((d, _)) = parse_datetime(&s) {
                    self.judge_print(ctx, &d, "lattice");
                }
            }
            "lattice-cross" => {
                let date = lattice_date(rng.below(lattice_dates() as usize) as u64);
                let time = lattice_time(rng.below(lattice_times() as usize) as u64);
                let off = lattice_offset(rng.below(lattice_offsets() as usize) as u64);
                let delim = *rng.pick(&["T", "t", " "]);
                // mostly 0-12 digits; sometimes far more than any integer type holds
                let nf = if rng.chance(1, 8) { *rng.pick(&[15usize, 18, 19, 20, 21, 22, 25, 30, 40, 64]) } else { rng.below(13) };
                let frac: String = if nf == 0 { String::new() } else { format!(".{}", (0..nf).map(|_| (b'0' + rng.below(10) as u8) as char).collect::<String>()) };
                let s = match rng.below(3) {
                    0 => format!("{date}{delim}{time}{frac}{off}"),
                    1 => format!("{date}{delim}{time}{frac}"),
                    _ => format!("{time}{frac}{off}"),
                };
                self.judge_string(ctx, &s);
            }
            "long-fractions" => {
                ctx.count("exhaustive/long-fractions");
                let bases = ["07:32:00", "1979-05-27T07:32:00", "1979-05-27 07:32:59", "1979-05-27T07:32:00Z", "1979-05-27t23:59:60-08:00", "2000-02-29T00:00:00+23:59"];
                let base = bases[(index % 6) as usize];
                let len = 10 + ((index / 6) % 36) as usize;
                let pat = (index / 6 / 36) % 4;
                let digits: String = match pat {
                    0 => "9".repeat(len),
                    1 => format!("{}1", "0".repeat(len - 1)),
                    2 => format!("1{}", "0".repeat(len - 1)),
                    _ => (0..len).map(|i| char::from(b'0' + ((i * 7 + 3) % 10) as u8)).collect(),
                };
                let (head, tail) = match base.find(|c| c == 'Z' || c == '+').or_else(|| base.rfind('-').filter(|i| *i > 10)) {
                    Some(i) => base.split_at(i),
                    None => (base, ""),
                };
                let s = format!("{head}.{digits}{tail}");
                self.judge_string(ctx, &s);
                if let Ok((d, _)) = parse_datetime(&s) {
                    self.judge_print(ctx, &d, "lattice");
                }
            }
            "valid" => {
                let s = valid_string(rng);
                ctx.sample("valid", || s.clone());
                self.judge_string(ctx, &s);
            }
            "mutants" => {
                let mut b = valid_string(rng).into_bytes();
                let n = 1 + rng.below(2);
                for _ in 0..n {
                    if b.is_empty() {
                        break;
                    }
                    let i = rng.below(b.len());
                    match rng.below(4) {
                        0 => b[i] = *rng.pick(ALPHABET),
                        1 => b.insert(i, *rng.pick(ALPHABET)),
                        2 => {
                            b.remove(i);
                        }
                        _ => b.truncate(i),
                    }
                }
                let s = String::from_utf8(b).unwrap();
                if index % 9973 == 0 {
                    ctx.sample("mutants", || s.clone());
                }
                self.judge_string(ctx, &s);
            }
            "print-parsed" => {
                let s = valid_string(rng);
                if let Ok(d) = toml_datetime::Datetime::from_str(&s) {
                    let r = dt_to_r(&d);
                    // only values the grammar can produce are "parsed date-times"
                    if parse_datetime(&s).is_ok() {
                        self.judge_print(ctx, &r, "parsed");
                    }
                }
            }
            "print-literal" => {
                let d = gen::gen_datetime(rng);
                self.judge_print(ctx, &d, "struct-literal");
            }
            other => ctx.inconclusive(format!("unknown workload {other}")),
        }
    }
}
