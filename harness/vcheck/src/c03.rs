//! C03 — unedited documents print back byte-for-byte (modulo the three normalisations).

use crate::ctx::{guarded, Ctx, Tier};
use crate::docs;
use crate::Check;
use refmodel::decode::{decode, Decoded, KeySeg, PKind, PVal, Stmt, Verdict, U1};
use refmodel::rng::{hash_bytes, Rng};
use refmodel::rval::KeyOrder;
use std::collections::HashMap;
use std::str::FromStr;

pub struct C03;

/// all key paths of a document: (table identity prefix, segments, is_header)
fn key_paths<'a>(d: &'a Decoded) -> Vec<(String, &'a [KeySeg], bool)> {
    fn in_val<'a>(v: &'a PVal, out: &mut Vec<(String, &'a [KeySeg], bool)>) {
        match &v.kind {
            PKind::Scalar(_) => {}
            PKind::Array(a) => a.iter().for_each(|x| in_val(x, out)),
            PKind::Inline(pairs) => {
                for (path, val) in pairs {
                    out.push((format!("\u{0}inline@{}", v.span.0), path.as_slice(), false));
                    in_val(val, out);
                }
            }
        }
    }
    let mut out = Vec::new();
    let mut section = String::new();
    for s in &d.stmts {
        match s {
            Stmt::Header { path, .. } => {
                out.push((String::new(), path.as_slice(), true));
                section = path.iter().map(|k| format!("{:?}.", k.name)).collect();
            }
            Stmt::KeyVal { path, val, .. } => {
                out.push((section.clone(), path.as_slice(), false));
                in_val(val, &mut out);
            }
        }
    }
    out
}

/// Every table name that occurs more than once is spelled identically and without surrounding
/// whitespace each time. (toml_edit keeps one `Key` per table; which occurrence's whitespace is
/// stored depends on the role - first/last in its path - of the occurrence that created the entry.
/// The predicate is deliberately conservative: on documents it rejects, key-path regions are
/// compared modulo spelling, which is the D12 finding.)
pub fn stably_spelled(d: &Decoded, text: &str) -> bool {
    struct Occ {
        raw: String,
        clean: bool,
    }
    let mut seen: HashMap<String, Vec<Occ>> = HashMap::new();
    let array_headers: Vec<bool> = d.stmts.iter().filter_map(|s| if let Stmt::Header { array, .. } = s { Some(*array) } else { None }).collect();
    let mut header_no = 0;
    for (prefix, segs, is_header) in key_paths(d) {
        let is_array_header = is_header && {
            header_no += 1;
            array_headers[header_no - 1]
        };
        let mut id = prefix.clone();
        let n = if is_header { segs.len() } else { segs.len() - 1 };
        for (i, seg) in segs[..n].iter().enumerate() {
            id.push_str(&format!("{:?}.", seg.name));
            let ws_b = seg.ws_before.1 > seg.ws_before.0;
            let ws_a = seg.ws_after.1 > seg.ws_after.0;
            let is_last = i + 1 == segs.len();
            // leading whitespace of a path is stored with the path's last key
            let leading = is_last && segs[0].ws_before.1 > segs[0].ws_before.0;
            // the last segment of a header is the table's own ("leaf") occurrence: the blanks
            // inside the brackets are kept in the key's leaf decor, which is not used when the same
            // key is printed as an interior segment of another path - so they cannot leak
            // (the elements of an array of tables share one key, so `[[ t ]]` is not exempt)
            let own_header = is_header && is_last && !is_array_header;
            let clean = (!ws_a || own_header) && !(i > 0 && ws_b) && (!leading || own_header);
            seen.entry(id.clone()).or_default().push(Occ { raw: text[seg.span.0..seg.span.1].to_string(), clean });
        }
    }
    seen.values().all(|occ| occ.len() < 2 || occ.iter().all(|o| o.clean && o.raw == occ[0].raw))
}

/// keys sharing a dotted prefix are adjacent (per section, and per inline table)
pub fn dotted_prefixes_adjacent(d: &Decoded) -> bool {
    fn group_ok(paths: &[Vec<&str>]) -> bool {
        // for every proper prefix, the statements carrying it must be contiguous
        let mut last_seen: HashMap<Vec<&str>, usize> = HashMap::new();
        for (i, p) in paths.iter().enumerate() {
            for l in 1..p.len() {
                let pre = p[..l].to_vec();
                if let Some(&j) = last_seen.get(&pre) {
                    if j + 1 != i {
                        return false;
                    }
                }
                last_seen.insert(pre, i);
            }
        }
        true
    }
    fn val_ok(v: &PVal) -> bool {
        match &v.kind {
            PKind::Scalar(_) => true,
            PKind::Array(a) => a.iter().all(val_ok),
            PKind::Inline(pairs) => {
                let paths: Vec<Vec<&str>> = pairs.iter().map(|(p, _)| p.iter().map(|k| k.name.as_str()).collect()).collect();
                group_ok(&paths) && pairs.iter().all(|(_, v)| val_ok(v))
            }
        }
    }
    let mut cur: Vec<Vec<&str>> = Vec::new();
    for s in &d.stmts {
        match s {
            Stmt::Header { .. } => {
                if !group_ok(&cur) {
                    return false;
                }
                cur.clear();
            }
            Stmt::KeyVal { path, val, .. } => {
                cur.push(path.iter().map(|k| k.name.as_str()).collect());
                if !val_ok(val) {
                    return false;
                }
            }
        }
    }
    group_ok(&cur)
}

/// the text with every key-path region replaced by its decoded key names
pub fn skeleton(d: &Decoded, text: &str) -> String {
    let mut regions: Vec<(usize, usize, String)> = key_paths(d)
        .into_iter()
        .map(|(_, segs, _)| {
            let st = segs[0].ws_before.0;
            let en = segs[segs.len() - 1].ws_after.1;
            let names: Vec<String> = segs.iter().map(|k| format!("{:?}", k.name)).collect();
            (st, en, names.join("\u{1}"))
        })
        .collect();
    regions.sort();
    let mut out = String::new();
    let mut pos = 0;
    for (st, en, names) in regions {
        if st < pos {
            continue;
        }
        out.push_str(&text[pos..st]);
        out.push('\u{2}');
        out.push_str(&names);
        out.push('\u{3}');
        pos = en;
    }
    out.push_str(&text[pos..]);
    out
}

fn comments_of(d: &Decoded, text: &str) -> Vec<String> {
    let mut v: Vec<String> = d.comments.iter().map(|(a, b)| text[*a..*b].to_string()).collect();
    v.sort();
    v
}

impl C03 {
    fn judge(&mut self, ctx: &mut Ctx, text: &str) {
        ctx.eval();
        ctx.set_input(text);
        let d = decode(text);
        match &d.verdict {
            Verdict::Valid | Verdict::Undecided(U1::C) => {}
            Verdict::Limit(_) | Verdict::Undecided(_) => {
                // whatever was accepted must still survive (a)-(d); exact equality is not judged
            }
            Verdict::Invalid(_) => {
                ctx.count("skipped/invalid");
                return;
            }
        }
        // the unedited result is printed four ways: directly, a second time, through a clone, and
        // from the immutable document turned editable
        let r = guarded(|| {
            toml_edit::DocumentMut::from_str(text).map(|doc| {
                let p = doc.to_string();
                let again = doc.to_string();
                let cloned = doc.clone().to_string();
                let via_im = toml_edit::ImDocument::parse(text).ok().map(|im| (im.clone().into_mut().to_string(), im.into_mut().to_string()));
                (p, again, cloned, via_im)
            })
        });
        let printed = match r {
            Err((loc, msg)) => {
                ctx.violation(&format!("panic:{}", crate::short_loc(&loc)), format!("parse/print panicked at {loc}: {msg}"));
                return;
            }
            Ok(Err(e)) => {
                if matches!(d.verdict, Verdict::Valid) {
                    // a valid document that cannot be loaded cannot be printed back either
                    ctx.violation("valid-rejected", format!("R says the text is valid, the parser refuses it, so it cannot be reproduced: {e}"));
                } else {
                    ctx.count("skipped/refused");
                }
                return;
            }
            Ok(Ok((p, again, cloned, via_im))) => {
                if again != p {
                    ctx.violation("print-twice-differs", format!("printing the same document twice: {p:?} then {again:?}"));
                }
                if cloned != p {
                    ctx.violation("print-of-clone-differs", format!("doc.clone().to_string() differs from doc.to_string(): {cloned:?} vs {p:?}"));
                }
                match via_im {
                    Some((m, i)) => {
                        if m != p || i != p {
                            ctx.violation("print-of-ImDocument-differs", format!("ImDocument turned editable prints {i:?}, its clone {m:?}, DocumentMut {p:?}"));
                        }
                    }
                    None => ctx.violation("entry-points-disagree", "DocumentMut accepts, ImDocument refuses".to_string()),
                }
                p
            }
        };
        ctx.count("printed");
        if d.bom {
            ctx.count("doc/bom");
        }
        if !d.cr_strip.is_empty() {
            ctx.count("doc/crlf");
        }
        if d.needs_final_newline {
            ctx.count("doc/no-final-newline");
        }
        if !d.comments.is_empty() {
            ctx.count("doc/with-comments");
        }
        // (a) print is valid for R and for the parser
        let dp = decode(&printed);
        let printed_ok = matches!(dp.verdict, Verdict::Valid) || (!matches!(dp.verdict, Verdict::Invalid(_)) && !matches!(d.verdict, Verdict::Valid | Verdict::Undecided(U1::C)));
        if !printed_ok {
            ctx.violation("print-invalid", format!("the printed text is judged {:?} by R; printed: {printed:?}", dp.verdict));
            return;
        }
        let reparsed = match guarded(|| toml_edit::DocumentMut::from_str(&printed).map(|doc| doc.to_string())) {
            Err((loc, msg)) => {
                ctx.violation(&format!("panic:{}", crate::short_loc(&loc)), format!("re-parse panicked at {loc}: {msg}"));
                return;
            }
            Ok(Err(e)) => {
                ctx.violation("print-not-reparsable", format!("the printed text is refused by the parser: {e}; printed: {printed:?}"));
                return;
            }
            Ok(Ok(p)) => p,
        };
        // (d) fixed point
        if reparsed != printed {
            ctx.violation("print-not-fixed-point", format!("parse(print).to_string() differs from print; print={printed:?} second={reparsed:?}"));
        }
        // (b) same data
        if let (Some(a), Some(b)) = (&d.tree, &dp.tree) {
            if let Some(diff) = a.diff(b, KeyOrder::ExactOrAlt) {
                ctx.violation("print-changes-data", format!("decoding the print gives different data: {diff}; printed: {printed:?}"));
            }
            ctx.count("checked/data-equal");
        }
        // (c) comments kept
        let (ca, cb) = (comments_of(&d, text), comments_of(&dp, &printed));
        if ca != cb {
            ctx.violation("comment-lost", format!("comments before {ca:?}, after {cb:?}; printed: {printed:?}"));
        }
        ctx.add("checked/comments", ca.len() as u64);
        // (e) exact equality
        if !matches!(d.verdict, Verdict::Valid | Verdict::Undecided(U1::C)) {
            return;
        }
        let adjacent = dotted_prefixes_adjacent(&d);
        if !adjacent {
            ctx.count("doc/interleaved-dotted-keys");
            return;
        }
        let n = d.normal_form(text);
        let stable = stably_spelled(&d, text);
        ctx.count(if stable { "doc/stably-spelled" } else { "doc/re-spelled-prefix" });
        ctx.count("checked/exact-equality");
        if d.stmts.len() >= 2 {
            ctx.nontrivial(hash_bytes(text.as_bytes()));
        }
        if printed == n {
            return;
        }
        if !stable {
            // D12: may differ only inside key-path regions, each decoding to the same keys
            let dn = decode(&n);
            if skeleton(&dn, &n) == skeleton(&dp, &printed) {
                ctx.violation("prefix-key-respelling", format!("print differs from the normal form only in the spelling of re-spelled table names; N(t)={n:?} print={printed:?}"));
                return;
            }
        }
        // locate the first difference for the report
        let at = n.bytes().zip(printed.bytes()).position(|(a, b)| a != b).unwrap_or(n.len().min(printed.len()));
        let lo = at.saturating_sub(30);
        let clip = |s: &str| -> String { s.chars().skip(s[..lo.min(s.len())].chars().count()).take(80).collect() };
        ctx.violation("print-differs", format!("print differs from N(t) at byte {at}: expected …{:?}…, printed …{:?}…", clip(&n), clip(&printed)));
    }
}

impl Check for C03 {
    fn id(&self) -> &'static str {
        "C03"
    }
    fn workloads(&mut self, tier: Tier, _seed: u64) -> Vec<(String, u64)> {
        let k = if tier == Tier::Quick { 8 } else { 64 };
        vec![("corpus".into(), docs::corpus().len() as u64), ("render".into(), 120_000 * k), ("render-transformed".into(), 60_000 * k), ("render-mut".into(), 40_000 * k), ("corpus-mut".into(), 40_000 * k)]
    }
    fn run(&mut self, ctx: &mut Ctx, workload: &str, index: u64, rng: &mut Rng) {
        match workload {
            "corpus" => {
                let f = &docs::corpus()[index as usize];
                if let Ok(t) = std::str::from_utf8(&f.bytes) {
                    self.judge(ctx, t);
                }
            }
            "render" => {
                let d = docs::rendered(rng);
                for f in &d.features {
                    ctx.count(&format!("render-feature/{f}"));
                }
                ctx.sample("render", || d.text.clone());
                self.judge(ctx, &d.text);
            }
            "render-transformed" => {
                // LF->CRLF on a subset of line ends, BOM, drop the final newline
                let d = docs::rendered(rng);
                let r = decode(&d.text);
                let mut t = d.text.clone();
                // only line ends outside multi-line strings may be rewritten without changing data
                let mut out = String::new();
                let bytes = t.as_bytes();
                let in_ml = |i: usize| r.ml_strings.iter().any(|(a, b)| i >= *a && i < *b);
                let mut i = 0;
                while i < bytes.len() {
                    if bytes[i] == b'\n' && (i == 0 || bytes[i - 1] != b'\r') && !in_ml(i) && rng.chance(1, 2) {
                        out.push_str("\r\n");
                    } else {
                        out.push(bytes[i] as char);
                    }
                    i += 1;
                }
                // `out` was built bytewise: rebuild properly from the original to keep UTF-8
                let _ = out;
                let mut out = String::new();
                for (pos, ch) in t.char_indices() {
                    if ch == '\n' && !t[..pos].ends_with('\r') && !in_ml(pos) && rng.chance(1, 2) {
                        out.push_str("\r\n");
                    } else {
                        out.push(ch);
                    }
                }
                t = out;
                if rng.chance(1, 3) && !t.starts_with('\u{feff}') {
                    t.insert(0, '\u{feff}');
                }
                if rng.chance(1, 3) {
                    if t.ends_with("\r\n") {
                        t.truncate(t.len() - 2);
                    } else if t.ends_with('\n') {
                        t.truncate(t.len() - 1);
                    }
                }
                self.judge(ctx, &t);
            }
            "render-mut" | "corpus-mut" => {
                let (t, _) = docs::mutated(rng, workload == "corpus-mut");
                if let Ok(s) = std::str::from_utf8(&t) {
                    self.judge(ctx, s);
                }
            }
            other => ctx.inconclusive(format!("unknown workload {other}")),
        }
    }
}
