//! Monitor context: counters, samples, violations, distinct-case hashes, crash attribution.

use refmodel::json::escape;
use std::collections::{BTreeMap, HashSet};
use std::io::Write;

#[derive(Clone, Copy, Debug, PartialEq, Eq)]
pub enum Tier {
    Quick,
    Thorough,
}

#[derive(Clone, Debug)]
pub struct Violation {
    pub sig: String,
    pub detail: String,
    pub workload: String,
    pub index: u64,
    pub input: Option<String>,
}

pub struct Ctx {
    pub tier: Tier,
    pub seed: u64,
    pub replay: bool,
    pub counters: BTreeMap<String, u64>,
    pub maxes: BTreeMap<String, u64>,
    pub samples: BTreeMap<String, Vec<String>>,
    pub violations: Vec<Violation>,
    pub inconclusive: Vec<String>,
    pub hashes: HashSet<u64>,
    pub hash_cap: usize,
    pub cur_workload: String,
    pub cur_index: u64,
    pub cur_input: Option<String>,
    pub evaluations: u64,
    sig_seen: BTreeMap<String, u32>,
}

impl Ctx {
    pub fn new(tier: Tier, seed: u64) -> Self {
        Ctx {
            tier,
            seed,
            replay: false,
            counters: BTreeMap::new(),
            maxes: BTreeMap::new(),
            samples: BTreeMap::new(),
            violations: Vec::new(),
            inconclusive: Vec::new(),
            hashes: HashSet::new(),
            hash_cap: 4_000_000,
            cur_workload: String::new(),
            cur_index: 0,
            cur_input: None,
            evaluations: 0,
            sig_seen: BTreeMap::new(),
        }
    }
    pub fn count(&mut self, k: &str) {
        self.add(k, 1);
    }
    pub fn add(&mut self, k: &str, n: u64) {
        if let Some(v) = self.counters.get_mut(k) {
            *v += n;
        } else {
            self.counters.insert(k.to_string(), n);
        }
    }
    pub fn max(&mut self, k: &str, v: u64) {
        let e = self.maxes.entry(k.to_string()).or_insert(0);
        if v > *e {
            *e = v;
        }
    }
    /// keep up to 2 samples per key per shard
    pub fn sample(&mut self, k: &str, f: impl FnOnce() -> String) {
        let v = self.samples.entry(k.to_string()).or_default();
        if v.len() < 2 {
            let mut s = f();
            if s.len() > 600 {
                let mut cut = 600;
                while !s.is_char_boundary(cut) {
                    cut -= 1;
                }
                s.truncate(cut);
                s.push('…');
            }
            v.push(s);
        }
    }
    /// one evaluated case
    pub fn eval(&mut self) {
        self.evaluations += 1;
    }
    /// a distinct, non-trivial case (by content hash)
    pub fn nontrivial(&mut self, h: u64) {
        if self.hashes.len() < self.hash_cap {
            self.hashes.insert(h);
        }
    }
    /// remember the text of the case being judged (attached to violations)
    pub fn set_input(&mut self, s: &str) {
        self.cur_input = Some(s.to_string());
    }
    pub fn set_input_bytes(&mut self, b: &[u8]) {
        self.cur_input = Some(match std::str::from_utf8(b) {
            Ok(s) => s.to_string(),
            Err(_) => format!("<bytes:{}>", b.iter().map(|x| format!("{x:02x}")).collect::<String>()),
        });
    }
    pub fn violation(&mut self, sig: &str, detail: String) {
        // inputs that use the private date-time marker as an ordinary key are a finding of their
        // own (DESIGN.md section 5, D29): keep their signatures apart from everything else
        let tagged;
        let sig = if self.cur_input.as_deref().map_or(false, |i| i.contains(crate::docs::DATETIME_MARKER)) {
            tagged = format!("{sig}:private-datetime-marker-key");
            tagged.as_str()
        } else {
            sig
        };
        self.add(&format!("violations/{sig}"), 1);
        let n = self.sig_seen.entry(sig.to_string()).or_insert(0);
        *n += 1;
        // keep at most 5 witnesses per signature per shard
        if *n <= 5 {
            self.violations.push(Violation {
                sig: sig.to_string(),
                detail,
                workload: self.cur_workload.clone(),
                index: self.cur_index,
                input: self.cur_input.clone(),
            });
        }
    }
    pub fn inconclusive(&mut self, why: String) {
        if self.inconclusive.len() < 20 {
            self.inconclusive.push(format!("{} [{} #{}]", why, self.cur_workload, self.cur_index));
        }
    }

    pub fn write_json(&self, path: &std::path::Path) -> std::io::Result<()> {
        let mut s = String::new();
        s.push_str("{\n");
        s.push_str(&format!("\"evaluations\":{},\n", self.evaluations));
        s.push_str("\"counters\":{");
        s.push_str(&self.counters.iter().map(|(k, v)| format!("{}:{}", escape(k), v)).collect::<Vec<_>>().join(","));
        s.push_str("},\n\"maxes\":{");
        s.push_str(&self.maxes.iter().map(|(k, v)| format!("{}:{}", escape(k), v)).collect::<Vec<_>>().join(","));
        s.push_str("},\n\"samples\":{");
        s.push_str(
            &self
                .samples
                .iter()
                .map(|(k, v)| format!("{}:[{}]", escape(k), v.iter().map(|x| escape(x)).collect::<Vec<_>>().join(",")))
                .collect::<Vec<_>>()
                .join(","),
        );
        s.push_str("},\n\"inconclusive\":[");
        s.push_str(&self.inconclusive.iter().map(|x| escape(x)).collect::<Vec<_>>().join(","));
        s.push_str("],\n\"violations\":[");
        s.push_str(
            &self
                .violations
                .iter()
                .map(|v| {
                    format!(
                        "{{\"sig\":{},\"detail\":{},\"workload\":{},\"index\":{},\"input\":{}}}",
                        escape(&v.sig),
                        escape(&v.detail),
                        escape(&v.workload),
                        v.index,
                        v.input.as_ref().map(|x| escape(x)).unwrap_or_else(|| "null".into())
                    )
                })
                .collect::<Vec<_>>()
                .join(","),
        );
        s.push_str("]\n}\n");
        std::fs::write(path, s)
    }

    pub fn write_hashes(&self, path: &std::path::Path) -> std::io::Result<()> {
        let mut f = std::io::BufWriter::new(std::fs::File::create(path)?);
        for h in &self.hashes {
            f.write_all(&h.to_le_bytes())?;
        }
        f.flush()
    }
}

// ------------------------------------------------------------------ panic capture

thread_local! {
    static LAST_PANIC: std::cell::RefCell<Option<(String, String)>> = const { std::cell::RefCell::new(None) };
}

pub fn install_panic_hook() {
    std::panic::set_hook(Box::new(|info| {
        let loc = info.location().map(|l| format!("{}:{}", l.file(), l.line())).unwrap_or_else(|| "?".into());
        let msg = if let Some(s) = info.payload().downcast_ref::<&str>() {
            s.to_string()
        } else if let Some(s) = info.payload().downcast_ref::<String>() {
            s.clone()
        } else {
            "<non-string panic payload>".to_string()
        };
        LAST_PANIC.with(|p| *p.borrow_mut() = Some((loc, msg)));
    }));
}

pub fn take_panic() -> Option<(String, String)> {
    LAST_PANIC.with(|p| p.borrow_mut().take())
}

pub fn is_harness_location(loc: &str) -> bool {
    loc.contains("verif/harness") || loc.starts_with("vcheck/") || loc.starts_with("refmodel/") || loc.contains("/vcheck/src") || loc.contains("/refmodel/src")
}

/// Runs `f` catching panics. A panic raised inside the code under test is returned as
/// `Err((location, message))`; a panic of the harness itself is re-raised as inconclusive by the caller.
pub fn guarded<T>(f: impl FnOnce() -> T) -> Result<T, (String, String)> {
    match std::panic::catch_unwind(std::panic::AssertUnwindSafe(f)) {
        Ok(v) => Ok(v),
        Err(_) => Err(take_panic().unwrap_or_else(|| ("?".into(), "?".into()))),
    }
}
