//! C02 — decoded data is exactly what the document says.

use crate::ctx::{guarded, Ctx, Tier};
use crate::docs;
use crate::obs;
use crate::Check;
use refmodel::bigint::{binary_to_decimal, decode_f64_bits};
use refmodel::decode::{decode, Verdict, U1};
use refmodel::rng::{hash_bytes, Rng};
use refmodel::rval::*;
use std::str::FromStr;

pub struct C02;

fn count_scalars(ctx: &mut Ctx, v: &RVal) {
    match v {
        RVal::Array(a) => a.iter().for_each(|x| count_scalars(ctx, x)),
        RVal::Table(t) => t.entries.iter().for_each(|(_, x)| count_scalars(ctx, x)),
        RVal::Float(b) => {
            let f = f64::from_bits(*b);
            ctx.count(if f.is_nan() {
                "scalar/float-nan"
            } else if f.is_infinite() {
                "scalar/float-inf"
            } else if f == 0.0 {
                "scalar/float-zero"
            } else if f.is_subnormal() {
                "scalar/float-subnormal"
            } else {
                "scalar/float-normal"
            })
        }
        x => ctx.count(&format!("scalar/{}", x.type_name())),
    }
}

/// the root table with its keys wrapped in `Spanned` (wrapped values and deeper levels: C14, where
/// finding D19 -- no span for a table that has no token of its own -- is recorded)
type SpannedRoot = std::collections::HashMap<toml::Spanned<String>, toml::Value>;

fn spanned_root_to_r(t: &SpannedRoot) -> RVal {
    RVal::table(t.iter().map(|(k, v)| (k.get_ref().clone(), obs::toml_value_to_r(v))).collect())
}

/// The four observers of the real code. Each yields Ok(tree) or Err(error text).
pub fn observe(text: &str) -> Result<Vec<(&'static str, Result<RVal, String>, KeyOrder)>, (String, String)> {
    guarded(|| {
        let toml_order = if obs::PRESERVE_ORDER { KeyOrder::ExactOrAlt } else { KeyOrder::Any };
        vec![
            ("DocumentMut walk", toml_edit::DocumentMut::from_str(text).map(|d| obs::edit_table_to_r(d.as_table())).map_err(|e| e.to_string()), KeyOrder::ExactOrAlt),
            ("ImDocument walk", toml_edit::ImDocument::parse(text).map(|d| obs::edit_table_to_r(d.as_table())).map_err(|e| e.to_string()), KeyOrder::ExactOrAlt),
            ("toml::from_str::<Table>", toml::from_str::<toml::Table>(text).map(|t| obs::toml_table_to_r(&t)).map_err(|e| e.to_string()), toml_order),
            ("toml::from_str::<Value>", toml::from_str::<toml::Value>(text).map(|t| obs::toml_value_to_r(&t)).map_err(|e| e.to_string()), toml_order),
            ("toml_edit::de::from_str::<Value>", toml_edit::de::from_str::<toml::Value>(text).map(|t| obs::toml_value_to_r(&t)).map_err(|e| e.to_string()), toml_order),
            // the same trees read through the accessor methods, lookups and reverse iterators
            ("DocumentMut by accessors", toml_edit::DocumentMut::from_str(text).map(|d| obs::edit_table_to_r_by_accessors(d.as_table())).map_err(|e| e.to_string()), KeyOrder::ExactOrAlt),
            ("toml::Table by accessors", text.parse::<toml::Table>().map(|t| obs::toml_table_by_accessors(&t)).map_err(|e| e.to_string()), toml_order),
            // keys and values asked for together with their spans: the data must be the same
            ("toml::from_str with Spanned keys", toml::from_str::<SpannedRoot>(text).map(|t| spanned_root_to_r(&t)).map_err(|e| e.to_string()), KeyOrder::Any),
            ("toml_edit::de::from_str with Spanned keys", toml_edit::de::from_str::<SpannedRoot>(text).map(|t| spanned_root_to_r(&t)).map_err(|e| e.to_string()), KeyOrder::Any),
        ]
    })
}

/// Judge an accepted text against the admissible expected trees (CR LF latitude: either, but the
/// same choice for the whole document).
pub fn judge_text(ctx: &mut Ctx, text: &str, expected: &[&RVal], origin: &str) {
    let obsv = match observe(text) {
        Ok(o) => o,
        Err((loc, msg)) => {
            ctx.violation(&format!("panic:{}", crate::short_loc(&loc)), format!("observer panicked at {loc}: {msg}"));
            return;
        }
    };
    for (name, res, order) in obsv {
        match res {
            Err(e) => {
                ctx.violation("valid-rejected", format!("{name} refuses a text that {origin} says is valid: {e}"));
            }
            Ok(tree) => {
                ctx.count(&format!("observer/{name}"));
                let mut first_diff = None;
                let mut ok = false;
                for exp in expected {
                    match exp.diff(&tree, order) {
                        None => {
                            ok = true;
                            break;
                        }
                        Some(d) => {
                            if first_diff.is_none() {
                                first_diff = Some(d);
                            }
                        }
                    }
                }
                if !ok {
                    let d = first_diff.unwrap_or_default();
                    let class = if d.contains("key order") {
                        "key-order"
                    } else if d.contains("keys [") {
                        "key-set"
                    } else {
                        d.split(": ").nth(1).and_then(|s| s.split(' ').next()).unwrap_or("value")
                    };
                    ctx.violation(&format!("decoded-differs:{class}"), format!("{name}: {d} (expected tree from {origin})"));
                }
            }
        }
    }
}

impl C02 {
    /// judge with R as the oracle; `constructive` adds the generator's tree
    fn judge(&mut self, ctx: &mut Ctx, text: &str, constructive: Option<(&RVal, &RVal)>) {
        ctx.eval();
        ctx.set_input(text);
        let d = decode(text);
        match &d.verdict {
            Verdict::Valid | Verdict::Undecided(U1::C) | Verdict::Undecided(U1::A) => {}
            Verdict::Invalid(_) => {
                if constructive.is_some() {
                    ctx.inconclusive(format!("generator produced a text R calls invalid: {:?}", d.verdict));
                }
                ctx.count("skipped/invalid");
                return;
            }
            _ => {
                ctx.count("skipped/limit-or-U1b");
                return;
            }
        }
        let rt = match d.tree.as_ref() {
            Some(t) => t,
            None => {
                // U1 text that also holds a beyond-limit literal
                ctx.count("skipped/limit-or-U1b");
                return;
            }
        };
        let rt_nl = d.tree_nl.as_ref();
        if let Some((keep, nl)) = constructive {
            // the two oracles must agree, otherwise the harness is at fault
            if let Some(diff) = keep.diff(rt, KeyOrder::Exact) {
                ctx.inconclusive(format!("constructive tree and R disagree: {diff}"));
                return;
            }
            if let Some(rn) = rt_nl {
                if let Some(diff) = nl.diff(rn, KeyOrder::Exact) {
                    ctx.inconclusive(format!("constructive (normalised) tree and R disagree: {diff}"));
                    return;
                }
            }
        }
        if d.tree_nl.is_some() {
            ctx.count("doc/raw-crlf-in-ml-string");
        }
        // the implementation must have accepted: DEL-in-comment texts may be refused (U1-a)
        if matches!(d.verdict, Verdict::Undecided(U1::A)) {
            if toml_edit::DocumentMut::from_str(text).is_err() {
                ctx.count("skipped/U1-a-refused");
                return;
            }
        }
        let mut exp: Vec<&RVal> = vec![rt];
        if let Some(n) = rt_nl {
            exp.push(n);
        }
        count_scalars(ctx, rt);
        if d.n_scalars >= 1 {
            ctx.nontrivial(hash_bytes(text.as_bytes()));
        }
        if rt.as_table().map_or(false, |t| t.alt.is_some()) {
            ctx.count("doc/super-table-after-sub-table");
        }
        judge_text(ctx, text, &exp, if constructive.is_some() { "the generator and R" } else { "R" });
    }
}

fn halfway_literals(rng: &mut Rng) -> Vec<String> {
    // exact decimal midpoint between a double and its successor, and both neighbours of it
    let bits = loop {
        let b = refmodel::gen::gen_float_bits(rng) & !(1u64 << 63);
        if f64::from_bits(b).is_finite() {
            break b;
        }
    };
    let (m, e) = decode_f64_bits(bits);
    let (digits, e10) = binary_to_decimal(2 * m as u128 + 1, e - 1);
    let mut out = Vec::new();
    let fmt = |d: &str, e10: i64| -> String {
        if e10 == 0 {
            format!("{d}.0")
        } else {
            format!("{d}e{e10}")
        }
    };
    out.push(fmt(&digits, e10));
    // one unit above / below in an extra digit
    out.push(fmt(&format!("{digits}1"), e10 - 1));
    if let Some(stripped) = digits.strip_suffix('5') {
        out.push(fmt(&format!("{stripped}49999999"), e10 - 7));
    }
    out
}

impl Check for C02 {
    fn id(&self) -> &'static str {
        "C02"
    }
    fn workloads(&mut self, tier: Tier, _seed: u64) -> Vec<(String, u64)> {
        let k = if tier == Tier::Quick { 3 } else { 80 };
        vec![
            ("corpus".into(), docs::corpus().len() as u64),
            ("esc-u4".into(), 0x10000 / 64),
            ("esc-U8".into(), 1),
            ("continuation".into(), 1 + 4 + 16 + 64 + 256 + 1024),
            ("closing-quotes".into(), 2 * 3 * 6),
            ("underscore".into(), 4 * 6 * 32),
            ("int-edges".into(), 1),
            ("secfrac".into(), 13),
            ("halfway".into(), 20_000 * k),
            ("render".into(), 120_000 * k),
            ("render-mut".into(), 40_000 * k),
            ("corpus-mut".into(), 40_000 * k),
            ("marker-key".into(), docs::marker_docs().len() as u64),
        ]
    }
    fn run(&mut self, ctx: &mut Ctx, workload: &str, index: u64, rng: &mut Rng) {
        match workload {
            "marker-key" => {
                let d = &docs::marker_docs()[index as usize];
                self.judge(ctx, d, None);
            }
            "corpus" => {
                let f = &docs::corpus()[index as usize];
                if let Ok(t) = std::str::from_utf8(&f.bytes) {
                    self.judge(ctx, t, None);
                    // the corpus' own expectation is a third oracle
                    if let Some(exp) = &f.expected {
                        if let Ok(o) = observe(t) {
                            for (name, res, _) in o {
                                if let Ok(tree) = res {
                                    let d = decode(t);
                                    let ok = exp.diff(&tree, KeyOrder::Any).is_none() || d.tree_nl.as_ref().map_or(false, |n| n.diff(&tree, KeyOrder::Any).is_none());
                                    if !ok {
                                        ctx.violation("decoded-differs:corpus-expectation", format!("{name}: {} ({})", exp.diff(&tree, KeyOrder::Any).unwrap(), f.name));
                                    }
                                }
                            }
                        }
                    }
                }
            }
            "esc-u4" => {
                let mut doc = String::new();
                let mut entries = Vec::new();
                for cp in index * 64..index * 64 + 64 {
                    if let Some(ch) = char::from_u32(cp as u32) {
                        let hex = if rng.coin() { format!("{cp:04x}") } else { format!("{cp:04X}") };
                        doc.push_str(&format!("k{cp:x} = \"a\\u{hex}z\"\n"));
                        entries.push((format!("k{cp:x}"), RVal::Str(format!("a{ch}z"))));
                    }
                }
                if !entries.is_empty() {
                    let exp = RVal::table(entries);
                    ctx.eval();
                    ctx.set_input(&doc);
                    ctx.add("exhaustive/esc-u4-codepoints", exp.as_table().unwrap().entries.len() as u64);
                    ctx.nontrivial(hash_bytes(doc.as_bytes()));
                    judge_text(ctx, &doc, &[&exp], "the constructive oracle");
                    self.judge(ctx, &doc, None);
                }
            }
            "esc-U8" => {
                let mut cps: Vec<u32> = vec![0xD7FF, 0xE000, 0x10FFFF, 0x7F, 0x80, 0x7FF, 0x800];
                for p in 0..=16u32 {
                    for o in [0u32, 1, 0xFFFE, 0xFFFF] {
                        cps.push(p * 0x10000 + o);
                    }
                }
                let mut doc = String::new();
                let mut entries = Vec::new();
                for cp in cps {
                    if let Some(ch) = char::from_u32(cp) {
                        if entries.iter().any(|(k, _): &(String, RVal)| *k == format!("k{cp:x}")) {
                            continue;
                        }
                        doc.push_str(&format!("k{cp:x} = \"\\U{cp:08X}\"\n"));
                        entries.push((format!("k{cp:x}"), RVal::Str(ch.to_string())));
                    }
                }
                let exp = RVal::table(entries);
                ctx.eval();
                ctx.set_input(&doc);
                ctx.nontrivial(hash_bytes(doc.as_bytes()));
                judge_text(ctx, &doc, &[&exp], "the constructive oracle");
            }
            "continuation" => {
                // all sequences over {space, tab, LF, CRLF} of length 0..=5 after a backslash
                let syms = [" ", "\t", "\n", "\r\n"];
                let mut i = index;
                let mut len = 0;
                let mut span = 1u64;
                while i >= span {
                    i -= span;
                    len += 1;
                    span *= 4;
                }
                let mut seq = String::new();
                for _ in 0..len {
                    seq.push_str(syms[(i % 4) as usize]);
                    i /= 4;
                }
                let doc = format!("k = \"\"\"a\\{seq}b\"\"\"\n");
                ctx.count("exhaustive/continuation-sequences");
                self.judge(ctx, &doc, None);
            }
            "closing-quotes" => {
                let q = if index % 2 == 0 { '"' } else { '\'' };
                let n = (index / 2) % 3;
                let body = ["", "a", "a\n", "\n", "é", " "][(index / 6) as usize];
                let d3: String = std::iter::repeat(q).take(3).collect();
                let qs: String = std::iter::repeat(q).take(n as usize).collect();
                let doc = format!("k = {d3}{body}{qs}{d3}\n");
                ctx.count("exhaustive/closing-quote-cases");
                self.judge(ctx, &doc, None);
            }
            "underscore" => {
                let base = index / (6 * 32);
                let ndig = (index / 32) % 6 + 1;
                let mask = index % 32;
                let (prefix, digs): (&str, &[u8]) = match base {
                    0 => ("", b"1234567890"),
                    1 => ("0x", b"1aF09cBd"),
                    2 => ("0o", b"1234567012"),
                    _ => ("0b", b"1011001110"),
                };
                let mut lit = String::from(prefix);
                for j in 0..ndig as usize {
                    if j > 0 && mask >> (j - 1) & 1 == 1 {
                        lit.push('_');
                    }
                    lit.push(digs[(j + rng.below(3)) % digs.len()] as char);
                }
                if base == 0 && lit.starts_with('0') && lit.len() > 1 {
                    lit.replace_range(0..1, "7");
                }
                let doc = format!("k = {lit}\nj = [{lit}, -1]\n");
                ctx.count("exhaustive/underscore-placements");
                self.judge(ctx, &doc, None);
            }
            "int-edges" => {
                let mut doc = String::new();
                let lits = [
                    "0x7fffffffffffffff", "0x7FFF_FFFF_FFFF_FFFF", "0x0000007fffffffffffffff", "0o777777777777777777777", "0o0777777777777777777777",
                    "0b111111111111111111111111111111111111111111111111111111111111111", "0b0111111111111111111111111111111111111111111111111111111111111111",
                    "9223372036854775807", "+9223372036854775807", "-9223372036854775808", "-9_223_372_036_854_775_808", "0", "+0", "-0", "0x0", "0o0", "0b0", "0x00", "0.0", "-0.0", "+0.0",
                    "0e0", "-0e0", "0.0e0", "-0.0E-0", "1e0", "1E+0", "1e-0", "0x1_0", "0o1_0", "0b1_0",
                ];
                for (i, l) in lits.iter().enumerate() {
                    doc.push_str(&format!("k{i} = {l}\n"));
                }
                self.judge(ctx, &doc, None);
            }
            "secfrac" => {
                let n = index as usize;
                let frac: String = "9876543219999".chars().take(n).collect();
                let f = if n == 0 { String::new() } else { format!(".{frac}") };
                let doc = format!("a = 1979-05-27T07:32:00{f}Z\nb = 07:32:59{f}\nc = 1979-05-27 07:32:00{f}\nd = 1979-05-27t07:32:00{f}-07:00\n");
                ctx.count("exhaustive/secfrac-lengths");
                self.judge(ctx, &doc, None);
            }
            "halfway" => {
                let lits = halfway_literals(rng);
                let mut doc = String::new();
                for (i, l) in lits.iter().enumerate() {
                    doc.push_str(&format!("p{i} = {l}\nn{i} = -{l}\n"));
                }
                ctx.add("float/halfway-literals", 2 * lits.len() as u64);
                ctx.sample("halfway", || doc.clone());
                self.judge(ctx, &doc, None);
            }
            "render" => {
                let d = docs::rendered(rng);
                for f in &d.features {
                    ctx.count(&format!("render-feature/{f}"));
                }
                ctx.sample("render", || d.text.clone());
                self.judge(ctx, &d.text, Some((&d.tree, &d.tree_nl)));
            }
            "render-mut" | "corpus-mut" => {
                let (t, _) = docs::mutated(rng, workload == "corpus-mut");
                if let Ok(s) = std::str::from_utf8(&t) {
                    self.judge(ctx, s, None);
                }
            }
            other => ctx.inconclusive(format!("unknown workload {other}")),
        }
    }
}
