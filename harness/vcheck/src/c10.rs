//! C10 — string and key quoting is exact for every string in every offered style.

use crate::ctx::{guarded, Ctx, Tier};
use crate::Check;
use refmodel::decode::{decode, decode_key, decode_value, Verdict};
use refmodel::rng::{hash_bytes, Rng};
use refmodel::rval::{KeyOrder, RVal};
use std::str::FromStr;
use toml_write::{ToTomlKey, ToTomlValue, TomlKeyBuilder, TomlStringBuilder};

pub struct C10;

const ALPHABET: &[&str] = &["\"", "'", "\\", "\n", "\r", "\t", " ", "\0", "\u{1}", "\u{7f}", "#", "a", "é", "😀"];

fn nth_string(mut i: u64, len: usize) -> String {
    let mut s = String::new();
    for _ in 0..len {
        s.push_str(ALPHABET[(i % ALPHABET.len() as u64) as usize]);
        i /= ALPHABET.len() as u64;
    }
    s
}

impl C10 {
    fn check_value_token(&mut self, ctx: &mut Ctx, s: &str, style: &'static str, token: &str) {
        ctx.count(&format!("offer/value-{style}"));
        // R accepts the token as a value with the same contents
        match decode_value(token) {
            Ok(RVal::Str(x)) if x == s => {}
            Ok(RVal::Str(x)) if x.replace("\r\n", "\n") == s.replace("\r\n", "\n") && x != s => {
                ctx.violation(&format!("value-token-decodes-differently:{style}"), format!("R decodes {token:?} to {x:?} (newline form differs), wanted {s:?}"));
            }
            Ok(other) => ctx.violation(&format!("value-token-decodes-differently:{style}"), format!("R decodes {token:?} to {}, wanted {s:?}", other.show())),
            Err(e) => ctx.violation(&format!("value-token-invalid:{style}"), format!("R refuses the token {token:?}: {e}")),
        }
        // the real parser: alone and inside a document
        let r = guarded(|| {
            let alone = toml_edit::Value::from_str(token).map(|v| v.as_str().map(|x| x.to_string()));
            let docs = [format!("k = {token}"), format!("k = {token}\n"), format!("t = [ {token}, {token} ]\n"), format!("t = {{ k = {token} }}\n[u]\nk = {token} # c\n")];
            let in_doc: Vec<Result<Vec<Option<String>>, String>> = docs
                .iter()
                .map(|d| {
                    toml_edit::DocumentMut::from_str(d)
                        .map(|doc| {
                            let mut found = Vec::new();
                            if let Some(v) = doc.get("k") {
                                found.push(v.as_str().map(|x| x.to_string()));
                            }
                            if let Some(a) = doc.get("t").and_then(|t| t.as_array()) {
                                for x in a.iter() {
                                    found.push(x.as_str().map(|x| x.to_string()));
                                }
                            }
                            if let Some(t) = doc.get("t").and_then(|t| t.as_inline_table()) {
                                found.push(t.get("k").and_then(|x| x.as_str()).map(|x| x.to_string()));
                            }
                            if let Some(u) = doc.get("u").and_then(|t| t.as_table()) {
                                found.push(u.get("k").and_then(|x| x.as_str()).map(|x| x.to_string()));
                            }
                            found
                        })
                        .map_err(|e| e.to_string())
                })
                .collect();
            (alone, in_doc)
        });
        match r {
            Err((loc, msg)) => ctx.violation(&format!("panic:{}", crate::short_loc(&loc)), format!("parsing a written token panicked at {loc}: {msg}")),
            Ok((alone, in_doc)) => {
                match alone {
                    Ok(Some(x)) if x == s => {}
                    Ok(x) => ctx.violation(&format!("value-token-decodes-differently:{style}"), format!("Value::from_str({token:?}) = {x:?}, wanted {s:?}")),
                    Err(e) => ctx.violation(&format!("value-token-refused:{style}"), format!("Value::from_str refuses {token:?}: {e}")),
                }
                for d in in_doc {
                    match d {
                        Ok(found) => {
                            if found.is_empty() || found.iter().any(|x| x.as_deref() != Some(s)) {
                                ctx.violation(&format!("value-token-decodes-differently:{style}"), format!("inside a document {token:?} decodes to {found:?}, wanted {s:?}"));
                            }
                        }
                        Err(e) => ctx.violation(&format!("value-token-refused:{style}"), format!("a document holding {token:?} is refused: {}", e.lines().last().unwrap_or(""))),
                    }
                }
            }
        }
    }

    fn check_key_token(&mut self, ctx: &mut Ctx, s: &str, style: &'static str, token: &str) {
        ctx.count(&format!("offer/key-{style}"));
        match decode_key(token) {
            Ok(k) if k.len() == 1 && k[0] == s => {}
            Ok(k) => ctx.violation(&format!("key-token-decodes-differently:{style}"), format!("R decodes key {token:?} to {k:?}, wanted [{s:?}]")),
            Err(e) => ctx.violation(&format!("key-token-invalid:{style}"), format!("R refuses the key token {token:?}: {e}")),
        }
        let r = guarded(|| {
            let alone = toml_edit::Key::from_str(token).map(|k| k.get().to_string());
            let d1 = toml_edit::DocumentMut::from_str(&format!("{token} = 1\n")).map(|d| d.iter().map(|(k, _)| k.to_string()).collect::<Vec<_>>());
            let d2 = toml_edit::DocumentMut::from_str(&format!("[x.{token}]\n")).map(|d| d.get("x").and_then(|x| x.as_table()).map(|t| t.iter().map(|(k, _)| k.to_string()).collect::<Vec<_>>()));
            let d3 = toml_edit::DocumentMut::from_str(&format!("t = {{ {token} = 1 }}\n{token}.{token} = 2")).map(|d| {
                let a = d.get("t").and_then(|x| x.as_inline_table()).map(|t| t.iter().map(|(k, _)| k.to_string()).collect::<Vec<_>>());
                let b = d.get(s).and_then(|x| x.as_table_like()).map(|t| t.iter().map(|(k, _)| k.to_string()).collect::<Vec<_>>());
                (a, b)
            });
            let r = decode(&format!("{token} = 1\n[x.{token}]\n"));
            // keys of a document that was not converted: their text lives in the source, and what
            // they print on their own must still be a key token for the same name
            let mut shown: Vec<(&'static str, String)> = Vec::new();
            if let Ok(im) = toml_edit::ImDocument::parse(format!("{token} = 1\nt = {{ {token} = 2 }}\n[x.{token}]\n")) {
                for (what, key) in [
                    ("ImDocument root key", im.as_table().get_key_value(s).map(|(k, _)| k)),
                    ("ImDocument inline key", im.as_table().get("t").and_then(|t| t.as_inline_table()).and_then(|t| t.get_key_value(s)).map(|(k, _)| k)),
                    ("ImDocument header key", im.as_table().get("x").and_then(|t| t.as_table()).and_then(|t| t.get_key_value(s)).map(|(k, _)| k)),
                ] {
                    if let Some(key) = key {
                        shown.push((what, key.display_repr().into_owned()));
                        shown.push((what, key.to_string()));
                        shown.push((what, key.clone().to_string()));
                    }
                }
            }
            for (what, text) in shown {
                match decode_key(&text) {
                    Ok(k) if k.len() == 1 && k[0] == s => {}
                    other => return (alone, d1, d2, d3, matches!(r.verdict, Verdict::Valid), Some(format!("{what} for {token:?} shows {text:?}, which R reads as {other:?}"))),
                }
            }
            (alone, d1, d2, d3, matches!(r.verdict, Verdict::Valid), None)
        });
        match r {
            Err((loc, msg)) => ctx.violation(&format!("panic:{}", crate::short_loc(&loc)), format!("parsing a written key panicked at {loc}: {msg}")),
            Ok((alone, d1, d2, d3, r_ok, shown_bad)) => {
                if let Some(d) = shown_bad {
                    ctx.violation(&format!("shown-key-differs:{style}"), d);
                }
                if !r_ok {
                    ctx.violation(&format!("key-token-invalid:{style}"), format!("R refuses a document using the key token {token:?}"));
                }
                match alone {
                    Ok(x) if x == s => {}
                    Ok(x) => ctx.violation(&format!("key-token-decodes-differently:{style}"), format!("Key::from_str({token:?}) = {x:?}, wanted {s:?}")),
                    Err(e) => ctx.violation(&format!("key-token-refused:{style}"), format!("Key::from_str refuses {token:?}: {e}")),
                }
                let want = vec![s.to_string()];
                match d1 {
                    Ok(k) if k == want => {}
                    other => ctx.violation(&format!("key-token-in-document:{style}"), format!("`{token} = 1` gives {:?}, wanted key {s:?}", other.map_err(|e| e.to_string()))),
                }
                match d2 {
                    Ok(Some(k)) if k == want => {}
                    other => ctx.violation(&format!("key-token-in-document:{style}"), format!("`[x.{token}]` gives {:?}, wanted key {s:?}", other.map_err(|e| e.to_string()))),
                }
                match d3 {
                    Ok((Some(a), Some(b))) if a == want && b == want => {}
                    other => ctx.violation(&format!("key-token-in-document:{style}"), format!("inline/dotted use of {token:?} gives {:?}, wanted key {s:?}", other.map_err(|e| e.to_string()))),
                }
            }
        }
    }

    fn judge(&mut self, ctx: &mut Ctx, s: &str) {
        ctx.eval();
        ctx.set_input(s);
        ctx.nontrivial(hash_bytes(s.as_bytes()));
        let offers = guarded(|| {
            let b = TomlStringBuilder::new(s);
            let mut v: Vec<(&'static str, Option<String>)> = Vec::new();
            v.push(("default", Some(b.as_default().to_toml_value())));
            v.push(("literal", b.as_literal().map(|t| t.to_toml_value())));
            v.push(("ml-literal", b.as_ml_literal().map(|t| t.to_toml_value())));
            v.push(("basic-pretty", b.as_basic_pretty().map(|t| t.to_toml_value())));
            v.push(("ml-basic-pretty", b.as_ml_basic_pretty().map(|t| t.to_toml_value())));
            v.push(("basic", Some(b.as_basic().to_toml_value())));
            v.push(("ml-basic", Some(b.as_ml_basic().to_toml_value())));
            v.push(("str-impl", Some(s.to_string().to_toml_value())));
            v.push(("toml_edit::Value::from", Some(toml_edit::Value::from(s).to_string().trim().to_string())));
            v.push(("toml::Value::String", Some(toml::Value::String(s.to_string()).to_string())));
            let kb = TomlKeyBuilder::new(s);
            let mut k: Vec<(&'static str, Option<String>)> = Vec::new();
            k.push(("default", Some(kb.as_default().to_toml_key())));
            k.push(("unquoted", kb.as_unquoted().map(|t| t.to_toml_key())));
            k.push(("literal", kb.as_literal().map(|t| t.to_toml_key())));
            k.push(("basic-pretty", kb.as_basic_pretty().map(|t| t.to_toml_key())));
            k.push(("basic", Some(kb.as_basic().to_toml_key())));
            k.push(("str-impl", Some(s.to_string().to_toml_key())));
            k.push(("toml_edit::Key::new", Some(toml_edit::Key::new(s).to_string())));
            (v, k)
        });
        let (v, k) = match offers {
            Ok(x) => x,
            Err((loc, msg)) => {
                ctx.violation(&format!("panic:{}", crate::short_loc(&loc)), format!("the writer panicked at {loc}: {msg}"));
                return;
            }
        };
        // a default exists (by type) and is one of the offered styles
        let default = v[0].1.clone().unwrap();
        if !v[1..7].iter().any(|(_, t)| t.as_deref() == Some(default.as_str())) {
            ctx.violation("default-not-an-offered-style", format!("default value token {default:?} is none of the offered styles {:?}", &v[1..7]));
        }
        let kdefault = k[0].1.clone().unwrap();
        if !k[1..5].iter().any(|(_, t)| t.as_deref() == Some(kdefault.as_str())) {
            ctx.violation("default-not-an-offered-style", format!("default key token {kdefault:?} is none of the offered styles {:?}", &k[1..5]));
        }
        for (style, tok) in &v {
            match tok {
                Some(t) => self.check_value_token(ctx, s, style, t),
                None => ctx.count(&format!("refused/value-{style}")),
            }
        }
        for (style, tok) in &k {
            match tok {
                Some(t) => self.check_key_token(ctx, s, style, t),
                None => ctx.count(&format!("refused/key-{style}")),
            }
        }
        // the serde layers write keys and strings too: as a map key, as the (renamed) name of a
        // struct field, as a string value. Short strings always, longer ones one time in sixteen
        // (every distinct field name is kept alive for the rest of the process).
        if s.chars().count() <= 3 || hash_bytes(s.as_bytes()) % 16 == 0 {
            self.serde_routes(ctx, s);
        }
        let mut run = 0;
        let mut maxrun = 0;
        for c in s.chars() {
            if c == '"' || c == '\'' {
                run += 1;
                maxrun = maxrun.max(run);
            } else {
                run = 0;
            }
        }
        ctx.max("longest-quote-run", maxrun);
    }
}

impl C10 {
    fn serde_routes(&mut self, ctx: &mut Ctx, s: &str) {
        use crate::gdyn::{Dyn, Ser, Shape};
        let want_key = RVal::table(vec![(s.to_string(), RVal::Int(1))]);
        let want_val = RVal::table(vec![("k".to_string(), RVal::Str(s.to_string()))]);
        let r = guarded(|| {
            let mut m = std::collections::BTreeMap::new();
            m.insert(s.to_string(), 1i64);
            let mut sv = std::collections::BTreeMap::new();
            sv.insert("k".to_string(), s.to_string());
            let name = crate::c13::intern(s);
            let shape = Shape::Struct("S", vec![(name, Shape::I64)]);
            let val = Dyn::Fields(vec![Dyn::I(1)]);
            let mut outs: Vec<(&'static str, Result<String, String>, bool)> = Vec::new();
            outs.push(("map key/toml::to_string", toml::to_string(&m).map_err(|e| e.to_string()), true));
            outs.push(("map key/toml::to_string_pretty", toml::to_string_pretty(&m).map_err(|e| e.to_string()), true));
            outs.push(("map key/toml_edit::ser::to_string", toml_edit::ser::to_string(&m).map_err(|e| e.to_string()), true));
            outs.push(("map key/Table::try_from + Display", toml::Table::try_from(&m).map(|t| t.to_string()).map_err(|e| e.to_string()), true));
            outs.push(("field name/toml::to_string", toml::to_string(&Ser(&shape, &val)).map_err(|e| e.to_string()), true));
            outs.push(("field name/toml::to_string_pretty", toml::to_string_pretty(&Ser(&shape, &val)).map_err(|e| e.to_string()), true));
            outs.push(("field name/toml_edit::ser::to_string", toml_edit::ser::to_string(&Ser(&shape, &val)).map_err(|e| e.to_string()), true));
            outs.push(("field name/toml_edit::ser::to_string_pretty", toml_edit::ser::to_string_pretty(&Ser(&shape, &val)).map_err(|e| e.to_string()), true));
            outs.push(("field name/Table::try_from + Display", toml::Table::try_from(Ser(&shape, &val)).map(|t| t.to_string()).map_err(|e| e.to_string()), true));
            outs.push(("string value/toml::to_string", toml::to_string(&sv).map_err(|e| e.to_string()), false));
            outs.push(("string value/toml::to_string_pretty", toml::to_string_pretty(&sv).map_err(|e| e.to_string()), false));
            outs.push(("string value/toml_edit::ser::to_string", toml_edit::ser::to_string(&sv).map_err(|e| e.to_string()), false));
            outs
        });
        let outs = match r {
            Ok(o) => o,
            Err((loc, msg)) => {
                ctx.violation(&format!("panic:{}", crate::short_loc(&loc)), format!("a serializer panicked at {loc}: {msg}"));
                return;
            }
        };
        for (route, text, is_key) in outs {
            let text = match text {
                Ok(t) => t,
                Err(e) => {
                    ctx.violation(&format!("serde-writer-refuses:{route}"), format!("{route} refuses the string {s:?}: {e}"));
                    continue;
                }
            };
            ctx.count(&format!("serde-written/{}", route.split('/').next().unwrap_or("")));
            let d = refmodel::decode::decode(&text);
            let want = if is_key { &want_key } else { &want_val };
            match (&d.verdict, &d.tree) {
                (refmodel::decode::Verdict::Valid, Some(t)) => {
                    // a multi-line string written with a raw CR LF may be read either way
                    let ok = want.diff(t, KeyOrder::Any).is_none() || d.tree_nl.as_ref().map_or(false, |t2| want.diff(t2, KeyOrder::Any).is_none());
                    if !ok {
                        ctx.violation(&format!("serde-written-text-decodes-differently:{route}"), format!("{route} wrote {text:?} for {s:?}; it decodes to {}", t.show()));
                    }
                }
                (v, _) => ctx.violation(&format!("serde-written-text-invalid:{route}"), format!("{route} wrote {text:?} for {s:?}: {v:?}")),
            }
        }
    }
}

impl Check for C10 {
    fn id(&self) -> &'static str {
        "C10"
    }
    fn workloads(&mut self, tier: Tier, _seed: u64) -> Vec<(String, u64)> {
        let a = ALPHABET.len() as u64;
        let mut w = vec![("len0".to_string(), 1), ("len1".to_string(), a), ("len2".to_string(), a * a), ("len3".to_string(), a * a * a), ("len4".to_string(), a.pow(4)), ("random-long".to_string(), if tier == Tier::Quick { 200_000 } else { 4_000_000 })];
        if tier == Tier::Thorough {
            w.push(("len5".to_string(), a.pow(5)));
            w.push(("len6".to_string(), a.pow(6)));
        }
        w
    }
    fn run(&mut self, ctx: &mut Ctx, workload: &str, index: u64, rng: &mut Rng) {
        let s = match workload {
            "random-long" => {
                let n = 5 + rng.below(60);
                let mut s = String::new();
                while s.chars().count() < n {
                    match rng.below(6) {
                        0 => {
                            let q = if rng.coin() { "\"" } else { "'" };
                            let cap = if rng.chance(1, 20) { 300 } else { 6 };
                            for _ in 0..1 + rng.below(cap) {
                                s.push_str(q);
                            }
                        }
                        1 => s.push(refmodel::gen::gen_char(rng)),
                        _ => s.push_str(*rng.pick(ALPHABET)),
                    }
                }
                s
            }
            w if w.starts_with("len") => {
                let len: usize = w[3..].parse().unwrap();
                ctx.count(&format!("exhaustive/{w}"));
                nth_string(index, len)
            }
            other => {
                ctx.inconclusive(format!("unknown workload {other}"));
                return;
            }
        };
        if index % 9973 == 0 {
            ctx.sample(workload, || format!("{s:?}"));
        }
        self.judge(ctx, &s);
    }
}
