//! C11 — numbers are lossless or rejected, never wrapped, saturated or rounded away.

use crate::ctx::{guarded, Ctx, Tier};
use crate::Check;
use refmodel::bigint::binary_to_decimal;
use refmodel::decode::decode_value;
use refmodel::gen;
use refmodel::rng::{hash_bytes, Rng};
use refmodel::rval::RVal;
use serde::{Deserialize, Serialize};
use std::str::FromStr;
use toml_write::ToTomlValue;

pub struct C11;

#[derive(Serialize, Deserialize, Debug, PartialEq)]
struct W<T> {
    v: T,
}

/// what R says about a literal: Ok(value), Err("limit") or Err(other)
fn r_value(lit: &str) -> Result<RVal, String> {
    decode_value(lit)
}

/// the real parsers' verdict on a literal in value position
fn impl_value(lit: &str) -> Result<Vec<(&'static str, Result<RVal, String>)>, (String, String)> {
    guarded(|| {
        vec![
            ("Value::from_str", toml_edit::Value::from_str(lit).map(|v| crate::obs::edit_value_to_r(&v)).map_err(|e| e.to_string())),
            (
                "DocumentMut",
                toml_edit::DocumentMut::from_str(&format!("v = {lit}\n")).map(|d| crate::obs::edit_item_to_r(d.get("v").unwrap_or(&toml_edit::Item::None))).map_err(|e| e.to_string()),
            ),
            ("toml::from_str::<Table>", toml::from_str::<toml::Table>(&format!("v = {lit}\n")).map(|t| crate::obs::toml_value_to_r(&t["v"])).map_err(|e| e.to_string())),
        ]
    })
}

fn same_number(a: &RVal, b: &RVal) -> bool {
    a.diff(b, refmodel::rval::KeyOrder::Exact).is_none()
}

impl C11 {
    /// a literal produced by a writer for a value whose exact meaning is `want`
    /// (`None` = value beyond i64: parse-back must be identical or refused)
    fn written(&mut self, ctx: &mut Ctx, writer: &str, text: &str, want: Option<&RVal>, want_type: &str, exact_i128: Option<i128>) {
        ctx.count(&format!("writer/{writer}"));
        let r = r_value(text);
        match (&r, want) {
            (Ok(v), Some(w)) => {
                if v.type_name() != want_type {
                    ctx.violation(&format!("written-as-other-type:{writer}"), format!("{writer} wrote {text:?}, which is a TOML {} (wanted {want_type})", v.type_name()));
                    return;
                }
                if !same_number(w, v) {
                    ctx.violation(&format!("written-value-differs:{writer}"), format!("{writer} wrote {text:?}; R reads {} but the value was {}", v.show(), w.show()));
                    return;
                }
            }
            (Err(e), Some(_)) => {
                ctx.violation(&format!("written-literal-invalid:{writer}"), format!("{writer} wrote {text:?}, which R refuses: {e}"));
                return;
            }
            (Ok(v), None) => {
                // beyond i64: R can only have read it if ... it cannot; any Ok is another number
                ctx.violation(&format!("out-of-range-written-as-other-number:{writer}"), format!("{writer} wrote {text:?} for {exact_i128:?}; R reads {}", v.show()));
                return;
            }
            (Err(e), None) => {
                if e != "limit" {
                    ctx.violation(&format!("written-literal-invalid:{writer}"), format!("{writer} wrote {text:?} for {exact_i128:?}, which is not even a TOML integer: {e}"));
                    return;
                }
            }
        }
        // the real parser agrees
        match impl_value(text) {
            Err((loc, msg)) => ctx.violation(&format!("panic:{}", crate::short_loc(&loc)), format!("parsing {text:?} panicked at {loc}: {msg}")),
            Ok(obs) => {
                for (name, res) in obs {
                    match (res, want) {
                        (Ok(v), Some(w)) => {
                            if !same_number(w, &v) {
                                ctx.violation(&format!("parse-back-differs:{writer}"), format!("{writer} wrote {text:?}; {name} reads {} but the value was {}", v.show(), w.show()));
                            }
                        }
                        (Err(e), Some(_)) => ctx.violation(&format!("parse-back-refused:{writer}"), format!("{writer} wrote {text:?}; {name} refuses it: {}", e.lines().last().unwrap_or(""))),
                        (Ok(v), None) => ctx.violation(&format!("out-of-range-accepted:{writer}"), format!("{text:?} (= {exact_i128:?}) is accepted by {name} as {}", v.show())),
                        (Err(_), None) => {}
                    }
                }
            }
        }
    }

    fn int_case(&mut self, ctx: &mut Ctx, v: i64) {
        ctx.eval();
        ctx.set_input(&v.to_string());
        ctx.nontrivial(hash_bytes(&v.to_le_bytes()));
        let want = RVal::Int(v);
        let texts = guarded(|| {
            let mut t: Vec<(&'static str, String)> = vec![
                ("toml_write::i64", v.to_toml_value()),
                ("toml_edit::Value::from(i64)", toml_edit::Value::from(v).to_string().trim().to_string()),
                ("toml::Value::Integer", toml::Value::Integer(v).to_string()),
            ];
            if let Ok(x) = i8::try_from(v) {
                t.push(("toml_write::i8", x.to_toml_value()));
            }
            if let Ok(x) = u8::try_from(v) {
                t.push(("toml_write::u8", x.to_toml_value()));
            }
            if let Ok(x) = i16::try_from(v) {
                t.push(("toml_write::i16", x.to_toml_value()));
            }
            if let Ok(x) = u16::try_from(v) {
                t.push(("toml_write::u16", x.to_toml_value()));
            }
            if let Ok(x) = i32::try_from(v) {
                t.push(("toml_write::i32", x.to_toml_value()));
            }
            if let Ok(x) = u32::try_from(v) {
                t.push(("toml_write::u32", x.to_toml_value()));
            }
            if let Ok(x) = u64::try_from(v) {
                t.push(("toml_write::u64", x.to_toml_value()));
            }
            t.push(("toml_write::i128", (v as i128).to_toml_value()));
            if v >= 0 {
                t.push(("toml_write::u128", (v as u128).to_toml_value()));
            }
            t
        });
        match texts {
            Err((loc, msg)) => ctx.violation(&format!("panic:{}", crate::short_loc(&loc)), format!("writing {v} panicked at {loc}: {msg}")),
            Ok(t) => {
                for (w, text) in t {
                    self.written(ctx, w, &text, Some(&want), "integer", Some(v as i128));
                }
            }
        }
        // serializers
        let ser = guarded(|| {
            vec![
                ("toml::to_string(i64)", toml::to_string(&W { v }).map_err(|e| e.to_string())),
                ("toml::to_string_pretty(i64)", toml::to_string_pretty(&W { v }).map_err(|e| e.to_string())),
                ("toml_edit::ser::to_string(i64)", toml_edit::ser::to_string(&W { v }).map_err(|e| e.to_string())),
                ("toml::Table::try_from(i64)", toml::Table::try_from(W { v }).map(|x| x.to_string()).map_err(|e| e.to_string())),
            ]
        });
        match ser {
            Err((loc, msg)) => ctx.violation(&format!("panic:{}", crate::short_loc(&loc)), format!("serializing {v} panicked at {loc}: {msg}")),
            Ok(list) => {
                for (name, r) in list {
                    ctx.count(&format!("writer/{name}"));
                    match r {
                        Err(e) => ctx.violation(&format!("in-range-integer-refused:{name}"), format!("{name} refuses {v}: {e}")),
                        Ok(text) => {
                            let back = toml::from_str::<W<i64>>(&text);
                            if back.as_ref().ok().map(|w| w.v) != Some(v) {
                                ctx.violation(&format!("serialized-integer-differs:{name}"), format!("{name} wrote {text:?} for {v}; reading it back gives {back:?}"));
                            }
                        }
                    }
                }
            }
        }
    }

    fn wide_case(&mut self, ctx: &mut Ctx, v: i128) {
        // values that may lie beyond i64: toml_write prints them, serde must refuse them when they do not fit
        ctx.eval();
        ctx.set_input(&v.to_string());
        ctx.nontrivial(hash_bytes(&v.to_le_bytes()));
        self.foreign_number(ctx, v);
        let fits = i64::try_from(v).is_ok();
        let want = if fits { Some(RVal::Int(v as i64)) } else { None };
        let texts = guarded(|| {
            let mut t: Vec<(&'static str, String)> = vec![("toml_write::i128", v.to_toml_value())];
            if v >= 0 {
                t.push(("toml_write::u128", (v as u128).to_toml_value()));
                if let Ok(x) = u64::try_from(v) {
                    t.push(("toml_write::u64", x.to_toml_value()));
                }
            }
            t
        });
        if let Ok(t) = texts {
            for (w, text) in t {
                self.written(ctx, w, &text, want.as_ref(), "integer", Some(v));
            }
        }
        // serde output: Err exactly when it does not fit (an Ok that reads back differently is the violation)
        let ser = guarded(|| {
            let mut l: Vec<(&'static str, Result<String, String>)> = Vec::new();
            l.push(("toml::to_string(i128)", toml::to_string(&W { v }).map_err(|e| e.to_string())));
            l.push(("toml_edit::ser::to_string(i128)", toml_edit::ser::to_string(&W { v }).map_err(|e| e.to_string())));
            l.push(("toml::Table::try_from(i128)", toml::Table::try_from(W { v }).map(|x| x.to_string()).map_err(|e| e.to_string())));
            // the same number as the value of a map entry (not a struct field)
            {
                let mut m = std::collections::BTreeMap::new();
                m.insert("a".to_string(), 1i128);
                m.insert("v".to_string(), v);
                l.push(("toml::to_string(map of i128)", toml::to_string(&m).map(|t| t.replace("a = 1\n", "")).map_err(|e| e.to_string())));
                l.push(("toml_edit::ser::to_string(map of i128)", toml_edit::ser::to_string(&m).map(|t| t.replace("a = 1\n", "")).map_err(|e| e.to_string())));
                l.push(("toml::Table::try_from(map of i128)", toml::Table::try_from(&m).map(|t| format!("v = {}", t.get("v").map(|x| x.to_string()).unwrap_or_else(|| "<entry missing>".into()))).map_err(|e| e.to_string())));
                if v >= 0 {
                    let mut m = std::collections::BTreeMap::new();
                    m.insert("a".to_string(), 1u128);
                    m.insert("v".to_string(), v as u128);
                    l.push(("toml::to_string(map of u128)", toml::to_string(&m).map(|t| t.replace("a = 1\n", "")).map_err(|e| e.to_string())));
                    l.push(("toml_edit::ser::to_string_pretty(map of u128)", toml_edit::ser::to_string_pretty(&m).map(|t| t.replace("a = 1\n", "")).map_err(|e| e.to_string())));
                    if let Ok(x) = u64::try_from(v) {
                        let mut m = std::collections::HashMap::new();
                        m.insert("v".to_string(), x);
                        l.push(("toml::to_string(map of u64)", toml::to_string(&m).map_err(|e| e.to_string())));
                    }
                }
            }
            // the value serializers take a bare number; shown as `v = <number>` so that it reads back
            l.push(("toml::Value::try_from(i128)", toml::Value::try_from(v).map(|x| format!("v = {x}")).map_err(|e| e.to_string())));
            l.push(("toml_edit::ser::ValueSerializer(i128)", serde::Serialize::serialize(&v, toml_edit::ser::ValueSerializer::new()).map(|x| format!("v = {x}")).map_err(|e| e.to_string())));
            {
                let mut out = String::new();
                let r = serde::Serialize::serialize(&v, toml::ser::ValueSerializer::new(&mut out)).map(|_| ()).map_err(|e| e.to_string());
                l.push(("toml::ser::ValueSerializer(i128)", r.map(|_| format!("v = {out}"))));
            }
            if v >= 0 {
                let u = v as u128;
                l.push(("toml::Table::try_from(u128)", toml::Table::try_from(W { v: u }).map(|x| x.to_string()).map_err(|e| e.to_string())));
                l.push(("toml::Value::try_from(u128)", toml::Value::try_from(u).map(|x| format!("v = {x}")).map_err(|e| e.to_string())));
                l.push(("toml::Table::try_from([u128])", toml::Table::try_from(W { v: vec![u] }).map(|x| x.to_string()).map_err(|e| e.to_string())));
                l.push(("toml_edit::ser::ValueSerializer(u128)", serde::Serialize::serialize(&u, toml_edit::ser::ValueSerializer::new()).map(|x| format!("v = {x}")).map_err(|e| e.to_string())));
                {
                    let mut out = String::new();
                    let r = serde::Serialize::serialize(&u, toml::ser::ValueSerializer::new(&mut out)).map(|_| ()).map_err(|e| e.to_string());
                    l.push(("toml::ser::ValueSerializer(u128)", r.map(|_| format!("v = {out}"))));
                }
                l.push(("toml::to_string(u128)", toml::to_string(&W { v: u }).map_err(|e| e.to_string())));
                l.push(("toml_edit::ser::to_string(u128)", toml_edit::ser::to_string(&W { v: u }).map_err(|e| e.to_string())));
                if let Ok(x) = u64::try_from(v) {
                    // the bare number through both value serializers, in every unsigned width that holds it
                    macro_rules! bare {
                        ($name_t:literal, $name_e:literal, $val:expr) => {{
                            let val = $val;
                            let mut out = String::new();
                            let r = serde::Serialize::serialize(&val, toml::ser::ValueSerializer::new(&mut out)).map(|_| ()).map_err(|e| e.to_string());
                            l.push(($name_t, r.map(|_| format!("v = {out}"))));
                            l.push(($name_e, serde::Serialize::serialize(&val, toml_edit::ser::ValueSerializer::new()).map(|x| format!("v = {x}")).map_err(|e| e.to_string())));
                            l.push((concat!($name_t, " via Value::try_from"), toml::Value::try_from(val).map(|x| format!("v = {x}")).map_err(|e| e.to_string())));
                        }};
                    }
                    bare!("toml::ser::ValueSerializer(u64)", "toml_edit::ser::ValueSerializer(u64)", x);
                    bare!("toml::ser::ValueSerializer(usize)", "toml_edit::ser::ValueSerializer(usize)", x as usize);
                    if let Ok(y) = u32::try_from(x) {
                        bare!("toml::ser::ValueSerializer(u32)", "toml_edit::ser::ValueSerializer(u32)", y);
                    }
                    l.push(("toml::to_string(u64)", toml::to_string(&W { v: x }).map_err(|e| e.to_string())));
                    l.push(("toml::to_string_pretty(u64)", toml::to_string_pretty(&W { v: x }).map_err(|e| e.to_string())));
                    l.push(("toml_edit::ser::to_string(u64)", toml_edit::ser::to_string(&W { v: x }).map_err(|e| e.to_string())));
                                        l.push(("toml::Table::try_from(u64)", toml::Table::try_from(W { v: x }).map(|t| t.to_string()).map_err(|e| e.to_string())));
                }
            }
            l
        });
        match ser {
            Err((loc, msg)) => ctx.violation(&format!("panic:{}", crate::short_loc(&loc)), format!("serializing {v} panicked at {loc}: {msg}")),
            Ok(list) => {
                for (name, r) in list {
                    ctx.count(&format!("writer/{name}"));
                    match r {
                        Err(_) => ctx.count(if fits { "serde-out/refused-although-fits (judged by C07)" } else { "serde-out/refused-out-of-range" }),
                        Ok(text) => {
                            if !fits {
                                ctx.violation(&format!("inexact-serialization-succeeded:{name}"), format!("{name} accepted {v}, which does not fit i64, and wrote {text:?}"));
                            } else {
                                let back: Result<W<i64>, String> = if name.contains("[u128]") {
                                    toml::from_str::<W<Vec<i64>>>(&text).map_err(|e| e.to_string()).and_then(|w| w.v.first().copied().map(|x| W { v: x }).ok_or_else(|| "empty".to_string()))
                                } else {
                                    toml::from_str::<W<i64>>(&text).map_err(|e| e.to_string())
                                };
                                if back.as_ref().ok().map(|w| w.v as i128) != Some(v) {
                                    ctx.violation(&format!("serialized-integer-differs:{name}"), format!("{name} wrote {text:?} for {v}; reading it back gives {back:?}"));
                                }
                            }
                        }
                    }
                }
            }
        }
    }

    /// toml::Value / toml_edit values fed a number by another format's deserializer: an integer
    /// beyond i64 must be refused, never turned into something else
    fn foreign_number(&mut self, ctx: &mut Ctx, v: i128) {
        use serde::de::IntoDeserializer;
        use serde::Deserialize;
        type E = serde::de::value::Error;
        let fits = i64::try_from(v).is_ok();
        let r = guarded(|| {
            let mut l: Vec<(&'static str, Result<toml::Value, String>)> = Vec::new();
            l.push(("Value::deserialize(i128)", toml::Value::deserialize(IntoDeserializer::<E>::into_deserializer(v)).map_err(|e| e.to_string())));
            if v >= 0 {
                l.push(("Value::deserialize(u128)", toml::Value::deserialize(IntoDeserializer::<E>::into_deserializer(v as u128)).map_err(|e| e.to_string())));
                if let Ok(x) = u64::try_from(v) {
                    l.push(("Value::deserialize(u64)", toml::Value::deserialize(IntoDeserializer::<E>::into_deserializer(x)).map_err(|e| e.to_string())));
                    l.push(("Table::deserialize(map of u64)", {
                        let m: std::collections::BTreeMap<String, u64> = [("v".to_string(), x)].into_iter().collect();
                        toml::Table::deserialize(IntoDeserializer::<E>::into_deserializer(m)).map(|t| t.get("v").cloned().unwrap_or(toml::Value::String("<entry missing>".into()))).map_err(|e| e.to_string())
                    }));
                }
            }
            l
        });
        match r {
            Err((loc, msg)) => ctx.violation(&format!("panic:{}", crate::short_loc(&loc)), format!("deserializing {v} into toml::Value panicked at {loc}: {msg}")),
            Ok(list) => {
                for (name, res) in list {
                    ctx.count(&format!("reader/{name}"));
                    match res {
                        Err(_) => ctx.count(if fits { "serde-in/refused-although-fits (judged by C07)" } else { "serde-in/refused-out-of-range" }),
                        Ok(toml::Value::Integer(i)) if fits && i as i128 == v => ctx.count("serde-in/exact"),
                        Ok(other) => ctx.violation(&format!("inexact-deserialization-succeeded:{name}"), format!("{name} was handed {v} and produced {other:?}")),
                    }
                }
            }
        }
    }

    fn float_case(&mut self, ctx: &mut Ctx, bits: u64) {
        ctx.eval();
        let f = f64::from_bits(bits);
        ctx.set_input(&format!("{f:?} bits {bits:#x}"));
        ctx.nontrivial(hash_bytes(&bits.to_le_bytes()));
        ctx.count(if f.is_nan() {
            "float/nan"
        } else if f.is_infinite() {
            "float/inf"
        } else if f == 0.0 {
            "float/zero"
        } else if f.is_subnormal() {
            "float/subnormal"
        } else if f.fract() == 0.0 {
            "float/integral"
        } else {
            "float/fractional"
        });
        let want = RVal::Float(bits);
        let texts = guarded(|| {
            vec![
                ("toml_write::f64", f.to_toml_value()),
                ("toml_edit::Value::from(f64)", toml_edit::Value::from(f).to_string().trim().to_string()),
                ("toml::Value::Float", toml::Value::Float(f).to_string()),
            ]
        });
        match texts {
            Err((loc, msg)) => ctx.violation(&format!("panic:{}", crate::short_loc(&loc)), format!("writing {f:?} panicked at {loc}: {msg}")),
            Ok(t) => {
                for (w, text) in t {
                    self.written(ctx, w, &text, Some(&want), "float", None);
                }
            }
        }
        let ser = guarded(|| {
            vec![
                ("toml::to_string(f64)", toml::to_string(&W { v: f }).map_err(|e| e.to_string())),
                ("toml::to_string_pretty(f64)", toml::to_string_pretty(&W { v: f }).map_err(|e| e.to_string())),
                ("toml_edit::ser::to_string(f64)", toml_edit::ser::to_string(&W { v: f }).map_err(|e| e.to_string())),
                ("toml::Table::try_from(f64)", toml::Table::try_from(W { v: f }).map(|x| x.to_string()).map_err(|e| e.to_string())),
            ]
        });
        match ser {
            Err((loc, msg)) => ctx.violation(&format!("panic:{}", crate::short_loc(&loc)), format!("serializing {f:?} panicked at {loc}: {msg}")),
            Ok(list) => {
                for (name, r) in list {
                    ctx.count(&format!("writer/{name}"));
                    match r {
                        Err(e) => ctx.violation(&format!("float-refused:{name}"), format!("{name} refuses {f:?}: {e}")),
                        Ok(text) => {
                            let back = toml::from_str::<W<f64>>(&text);
                            let ok = match &back {
                                Ok(w) => (w.v.is_nan() && f.is_nan()) || w.v.to_bits() == bits,
                                Err(_) => false,
                            };
                            if !ok {
                                ctx.violation(&format!("serialized-float-differs:{name}"), format!("{name} wrote {text:?} for {f:?} (bits {bits:#x}); reading it back gives {back:?}"));
                            }
                        }
                    }
                }
            }
        }
    }

    fn f32_case(&mut self, ctx: &mut Ctx, bits: u32) {
        ctx.eval();
        let x = f32::from_bits(bits);
        ctx.set_input(&format!("{x:?}f32 bits {bits:#x}"));
        ctx.nontrivial(hash_bytes(&bits.to_le_bytes()) ^ 0x32);
        let text = match guarded(|| x.to_toml_value()) {
            Ok(t) => t,
            Err((loc, msg)) => {
                ctx.violation(&format!("panic:{}", crate::short_loc(&loc)), format!("writing {x:?} panicked at {loc}: {msg}"));
                return;
            }
        };
        ctx.count("writer/toml_write::f32");
        // R: must be a float whose nearest f32 is x
        let check = |name: &str, v: &RVal| -> Option<String> {
            match v {
                RVal::Float(b) => {
                    let y = f64::from_bits(*b);
                    if x.is_nan() {
                        return if y.is_nan() { None } else { Some(format!("{name} reads {y:?}, wanted NaN")) };
                    }
                    if x == 0.0 || x.is_infinite() {
                        return if y.to_bits() == (x as f64).to_bits() { None } else { Some(format!("{name} reads {y:?}, wanted {x:?}")) };
                    }
                    // rounding interval of x among f32 values; the midpoints are exact f64 values
                    let up = f32::from_bits(if x > 0.0 { bits + 1 } else { bits - 1 });
                    let dn = f32::from_bits(if x > 0.0 { bits - 1 } else { bits + 1 });
                    let hi = if up.is_infinite() { f64::INFINITY } else { (x as f64 + up as f64) / 2.0 };
                    let lo = (x as f64 + dn as f64) / 2.0;
                    if y >= lo && y <= hi {
                        None
                    } else {
                        Some(format!("{name} reads {y:?}, which does not round to the f32 {x:?}"))
                    }
                }
                other => Some(format!("{name} reads a TOML {} ({})", other.type_name(), other.show())),
            }
        };
        match r_value(&text) {
            Ok(v) => {
                if let Some(p) = check("R", &v) {
                    let sig = if !matches!(v, RVal::Float(_)) { "written-as-other-type:toml_write::f32" } else { "written-value-differs:toml_write::f32" };
                    ctx.violation(sig, format!("toml_write::f32 wrote {text:?} for {x:?}: {p}"));
                    return;
                }
            }
            Err(e) => {
                ctx.violation("written-literal-invalid:toml_write::f32", format!("toml_write::f32 wrote {text:?} for {x:?}, which R refuses: {e}"));
                return;
            }
        }
        if let Ok(obs) = impl_value(&text) {
            for (name, res) in obs {
                match res {
                    Ok(v) => {
                        if let Some(p) = check(name, &v) {
                            ctx.violation("parse-back-differs:toml_write::f32", format!("toml_write::f32 wrote {text:?} for {x:?}: {p}"));
                        }
                    }
                    Err(e) => ctx.violation("parse-back-refused:toml_write::f32", format!("toml_write::f32 wrote {text:?}; {name} refuses it: {}", e.lines().last().unwrap_or(""))),
                }
            }
        }
        // serde f32
        if let Ok(Ok(text)) = guarded(|| toml::to_string(&W { v: x })) {
            ctx.count("writer/toml::to_string(f32)");
            let back = toml::from_str::<W<f32>>(&text);
            let ok = match &back {
                Ok(w) => (w.v.is_nan() && x.is_nan()) || w.v.to_bits() == bits,
                Err(_) => false,
            };
            if !ok {
                ctx.violation("serialized-float-differs:toml::to_string(f32)", format!("toml::to_string wrote {text:?} for {x:?}; reading it back gives {back:?}"));
            }
        }
    }

    /// an arbitrary literal: reject <=> R says out of range / invalid; accept => identical value
    fn literal_case(&mut self, ctx: &mut Ctx, lit: &str, class: &str) {
        ctx.eval();
        ctx.set_input(lit);
        ctx.nontrivial(hash_bytes(lit.as_bytes()));
        ctx.count(&format!("literal/{class}"));
        let r = r_value(lit);
        match impl_value(lit) {
            Err((loc, msg)) => ctx.violation(&format!("panic:{}", crate::short_loc(&loc)), format!("parsing {lit:?} panicked at {loc}: {msg}")),
            Ok(obs) => {
                for (name, res) in obs {
                    match (&r, res) {
                        (Ok(w), Ok(v)) => {
                            if !same_number(w, &v) {
                                ctx.violation("literal-value-differs", format!("{lit:?}: {name} reads {}, exact value is {}", v.show(), w.show()));
                            }
                        }
                        (Ok(w), Err(e)) => ctx.violation("in-range-literal-refused", format!("{lit:?} (= {}) is refused by {name}: {}", w.show(), e.lines().last().unwrap_or(""))),
                        (Err(e), Ok(v)) if e == "limit" => ctx.violation(&format!("out-of-range-literal-accepted:{class}"), format!("{lit:?} is out of range (exact arithmetic), yet {name} accepts it as {}", v.show())),
                        (Err(e), Ok(v)) => ctx.violation("invalid-literal-accepted", format!("{lit:?} is not a TOML value for R ({e}), yet {name} accepts it as {}", v.show())),
                        (Err(e), Err(_)) => ctx.count(if e == "limit" { "literal-verdict/out-of-range-rejected" } else { "literal-verdict/invalid-rejected" }),
                    }
                }
                if r.is_ok() {
                    ctx.count("literal-verdict/in-range-accepted");
                }
            }
        }
    }

    fn narrow_input(&mut self, ctx: &mut Ctx, n: i128) {
        // a TOML integer into every narrower target type
        ctx.eval();
        ctx.set_input(&n.to_string());
        ctx.nontrivial(hash_bytes(&n.to_le_bytes()) ^ 0x77);
        if i64::try_from(n).is_err() {
            return;
        }
        let doc = format!("v = {n}\n");
        macro_rules! target {
            ($t:ty, $name:expr) => {{
                let fits = <$t>::try_from(n).is_ok();
                let r = guarded(|| {
                    (
                        toml::from_str::<W<$t>>(&doc).map(|w| w.v as i128).map_err(|e| e.to_string()),
                        toml_edit::de::from_str::<W<$t>>(&doc).map(|w| w.v as i128).map_err(|e| e.to_string()),
                        toml::from_str::<toml::Value>(&doc).map_err(|e| e.to_string()).and_then(|v| v.try_into::<W<$t>>().map(|w| w.v as i128).map_err(|e| e.to_string())),
                    )
                });
                match r {
                    Err((loc, msg)) => ctx.violation(&format!("panic:{}", crate::short_loc(&loc)), format!("deserializing {n} into {} panicked at {loc}: {msg}", $name)),
                    Ok((a, b, c)) => {
                        for (route, res) in [("toml::from_str", a), ("toml_edit::de::from_str", b), ("Value::try_into", c)] {
                            ctx.count(&format!("serde-in/{}", $name));
                            match res {
                                Ok(x) if fits && x == n => {}
                                Ok(x) => ctx.violation(&format!("inexact-integer-conversion:{}", $name), format!("{route}: TOML integer {n} became {x} as {}", $name)),
                                Err(_) if !fits => {}
                                // a refusal is "rejected", which C11 allows; C07/C13 judge whether decoding works
                                Err(_) => ctx.count(&format!("serde-in-refused-although-fits/{}", $name)),
                            }
                        }
                    }
                }
            }};
        }
        target!(i8, "i8");
        target!(u8, "u8");
        target!(i16, "i16");
        target!(u16, "u16");
        target!(i32, "i32");
        target!(u32, "u32");
        target!(i64, "i64");
        target!(u64, "u64");
        target!(i128, "i128");
        target!(u128, "u128");
        target!(isize, "isize");
        target!(usize, "usize");
    }
}

fn int_boundaries() -> Vec<i64> {
    let mut v = vec![0i64, 1, -1, i64::MAX, i64::MIN, i64::MAX - 1, i64::MIN + 1];
    for k in 0..63 {
        let b = 1i64 << k;
        for d in [-1i64, 0, 1] {
            v.push(b.wrapping_add(d));
            v.push(b.wrapping_add(d).wrapping_neg());
        }
    }
    v.sort();
    v.dedup();
    v
}

fn wide_boundaries() -> Vec<i128> {
    let mut v: Vec<i128> = Vec::new();
    for base in [1i128 << 63, -(1i128 << 63), 1i128 << 64, 1i128 << 127 - 1, i128::MAX, i128::MIN, u64::MAX as i128, 1i128 << 100, -(1i128 << 100), 1i128 << 31, 1i128 << 32] {
        for d in [-2i128, -1, 0, 1, 2] {
            v.push(base.saturating_add(d));
        }
    }
    v.sort();
    v.dedup();
    v
}

fn with_us(rng: &mut Rng, digits: &str) -> String {
    let mut out = String::new();
    for (i, c) in digits.chars().enumerate() {
        if i > 0 && rng.chance(1, 5) {
            out.push('_');
        }
        out.push(c);
    }
    out
}

fn edge_int_literal(rng: &mut Rng) -> (String, &'static str) {
    let edges: [i128; 9] = [(1i128 << 63) - 1, 1i128 << 63, (1i128 << 63) + 1, -(1i128 << 63), -(1i128 << 63) - 1, 1i128 << 64, (1i128 << 64) - 1, 1i128 << 127 - 1, (1i128 << 62) + 12345];
    let v = *rng.pick(&edges) + rng.range(-1, 1) as i128 * if rng.chance(1, 4) { 1 } else { 0 };
    let mag = v.unsigned_abs();
    match rng.below(4) {
        0 => {
            let d = with_us(rng, &mag.to_string());
            let s = if v < 0 { "-" } else if rng.chance(1, 3) { "+" } else { "" };
            (format!("{s}{d}"), "dec-edge")
        }
        1 => {
            let z = "0".repeat(rng.below(3));
            let h = format!("{z}{mag:x}");
            let h = if rng.coin() { h.to_uppercase() } else { h };
            (format!("0x{}", with_us(rng, &h)), "hex-edge")
        }
        2 => {
            let z = "0".repeat(rng.below(3));
            (format!("0o{}", with_us(rng, &format!("{z}{mag:o}"))), "oct-edge")
        }
        _ => {
            let z = "0".repeat(rng.below(3));
            (format!("0b{}", with_us(rng, &format!("{z}{mag:b}"))), "bin-edge")
        }
    }
}

fn overflow_float_literal(rng: &mut Rng) -> (String, &'static str) {
    // exact midpoint between f64::MAX and 2^1024: (2^54 - 1) * 2^970
    let (mid, _) = binary_to_decimal((1u128 << 54) - 1, 970);
    let sign = *rng.pick(&["", "+", "-"]);
    let body = match rng.below(10) {
        0 => format!("{mid}.0"),
        1 => {
            // one below the midpoint (rounds to MAX) / one above (rounds to infinity)
            let mut d: Vec<u8> = mid.clone().into_bytes();
            let last = d.len() - 1;
            if rng.coin() {
                d[last] -= 1; // midpoint ends in ...8: safe
            } else {
                d[last] += 1;
            }
            format!("{}.0", String::from_utf8(d).unwrap())
        }
        2 => format!("{mid}e0"),
        3 => format!("{}.{}e{}", &mid[..1], &mid[1..], mid.len() - 1),
        4 => format!("1.797693134862315{}e308", rng.range(6, 9)),
        5 => format!("1e{}", rng.range(306, 311)),
        6 => format!("{}.0", "9".repeat(300 + rng.below(110))),
        7 => format!("9e{}", *rng.pick(&[308, 309, 999, 99999, 4000000000i64])),
        8 => format!("{}e{}", rng.range(1, 20), rng.range(300, 312)),
        _ => format!("0.{}1e{}", "0".repeat(rng.below(20)), rng.range(300, 340)),
    };
    (format!("{sign}{body}"), "float-overflow-edge")
}

impl Check for C11 {
    fn id(&self) -> &'static str {
        "C11"
    }
    fn workloads(&mut self, tier: Tier, _seed: u64) -> Vec<(String, u64)> {
        let k = if tier == Tier::Quick { 10 } else { 80 };
        vec![
            ("int-boundaries".into(), int_boundaries().len() as u64),
            ("wide-boundaries".into(), wide_boundaries().len() as u64),
            ("int-random".into(), 60_000 * k),
            ("wide-random".into(), 20_000 * k),
            ("float-special".into(), 64),
            ("float-pow10".into(), 633 * 3),
            ("float-random".into(), 120_000 * k),
            ("f32-random".into(), 60_000 * k),
            ("edge-int-literals".into(), 40_000 * k),
            ("overflow-float-literals".into(), 30_000 * k),
            ("narrow-boundaries".into(), 400),
            ("narrow-random".into(), 10_000 * k),
        ]
    }
    fn run(&mut self, ctx: &mut Ctx, workload: &str, index: u64, rng: &mut Rng) {
        match workload {
            "int-boundaries" => self.int_case(ctx, int_boundaries()[index as usize]),
            "wide-boundaries" => self.wide_case(ctx, wide_boundaries()[index as usize]),
            "int-random" => {
                let v = if rng.coin() { rng.next_u64() as i64 } else { gen::gen_int(rng) };
                self.int_case(ctx, v)
            }
            "wide-random" => {
                let hi = rng.next_u64() as u128;
                let lo = rng.next_u64() as u128;
                let v = ((hi << 64) | lo) as i128 >> rng.below(100);
                self.wide_case(ctx, v)
            }
            "float-special" => {
                let specials: Vec<u64> = vec![
                    0,
                    1 << 63,
                    f64::INFINITY.to_bits(),
                    f64::NEG_INFINITY.to_bits(),
                    0x7FF8_0000_0000_0000,
                    0xFFF8_0000_0000_0000,
                    0x7FF0_0000_0000_0001,
                    0xFFFF_FFFF_FFFF_FFFF,
                    f64::MAX.to_bits(),
                    f64::MIN.to_bits(),
                    f64::MIN_POSITIVE.to_bits(),
                    1,
                    (1 << 63) | 1,
                    0x000F_FFFF_FFFF_FFFF,
                    ((1u64 << 53) as f64).to_bits(),
                    ((1u64 << 53) as f64 + 2.0).to_bits(),
                    ((1u64 << 53) as f64 - 1.0).to_bits(),
                    1e15f64.to_bits(),
                    1e16f64.to_bits(),
                    1e17f64.to_bits(),
                    1e21f64.to_bits(),
                    1e22f64.to_bits(),
                    1e23f64.to_bits(),
                    1e300f64.to_bits(),
                    1e-5f64.to_bits(),
                    1e-7f64.to_bits(),
                    0.1f64.to_bits(),
                    0.3f64.to_bits(),
                    (0.1f64 + 0.2).to_bits(),
                    5e-324f64.to_bits(),
                    1.5f64.to_bits(),
                    (-1.5f64).to_bits(),
                ];
                if (index as usize) < specials.len() {
                    self.float_case(ctx, specials[index as usize]);
                    let b32 = [0u32, 1 << 31, f32::INFINITY.to_bits(), f32::NEG_INFINITY.to_bits(), f32::NAN.to_bits(), 1.0f32.to_bits(), (-1.0f32).to_bits(), 1e10f32.to_bits(), f32::MAX.to_bits(), f32::MIN_POSITIVE.to_bits(), 1, 0.1f32.to_bits(), 16777216f32.to_bits(), 1.5f32.to_bits()];
                    if (index as usize) < b32.len() {
                        self.f32_case(ctx, b32[index as usize]);
                    }
                }
            }
            "float-pow10" => {
                let k = (index / 3) as i32 - 324;
                let base = 10f64.powi(k);
                let bits = base.to_bits();
                let b = match index % 3 {
                    0 => bits,
                    1 => bits.wrapping_add(1),
                    _ => bits.wrapping_sub(1),
                };
                if f64::from_bits(b).is_finite() {
                    self.float_case(ctx, b);
                }
            }
            "float-random" => {
                let b = match rng.below(4) {
                    0 => gen::gen_float_bits(rng),
                    1 => {
                        // uniform over decimal exponents
                        let e = rng.range(-323, 308) as i32;
                        (rng.range(1, 9_999_999) as f64 * 10f64.powi(e - 6)).to_bits()
                    }
                    2 => {
                        // integral values from 1e15 up (the `{}.0` branch)
                        let e = rng.range(15, 308) as i32;
                        (rng.range(1, 999) as f64 * 10f64.powi(e)).to_bits()
                    }
                    _ => rng.next_u64(),
                };
                self.float_case(ctx, b)
            }
            "f32-random" => {
                let b = match rng.below(3) {
                    0 => (rng.range(-100000, 100000) as f32 / *rng.pick(&[1.0f32, 2.0, 10.0, 3.0])).to_bits(),
                    1 => (rng.range(1, 999) as f32 * 10f32.powi(rng.range(-40, 38) as i32)).to_bits(),
                    _ => rng.next_u64() as u32,
                };
                self.f32_case(ctx, b)
            }
            "edge-int-literals" => {
                let (lit, class) = edge_int_literal(rng);
                ctx.sample("edge-int-literals", || lit.clone());
                self.literal_case(ctx, &lit, class)
            }
            "overflow-float-literals" => {
                let (lit, class) = overflow_float_literal(rng);
                if index < 40 {
                    ctx.sample("overflow-float-literals", || lit.chars().take(120).collect());
                }
                self.literal_case(ctx, &lit, class)
            }
            "narrow-boundaries" => {
                let mut edges: Vec<i128> = Vec::new();
                for b in [7u32, 8, 15, 16, 31, 32, 63] {
                    for d in [-2i128, -1, 0, 1, 2] {
                        edges.push((1i128 << b) + d);
                        edges.push(-(1i128 << b) + d);
                    }
                }
                edges.extend([0, 1, -1, 127, 128, 255, 256]);
                if let Some(n) = edges.get(index as usize) {
                    self.narrow_input(ctx, *n);
                }
            }
            "narrow-random" => {
                let n = gen::gen_int(rng) as i128;
                self.narrow_input(ctx, n)
            }
            other => ctx.inconclusive(format!("unknown workload {other}")),
        }
    }
}
