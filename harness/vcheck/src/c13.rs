//! C13 — every decoding and encoding route gives the same answer.

use crate::ctx::{guarded, Ctx, Tier};
use crate::docs;
use crate::gdyn::{self, Dyn, MapKey, Ser, Shape, Variant};
use crate::obs;
use crate::Check;
use refmodel::decode::{decode, Verdict, U1};
use refmodel::rng::{hash_bytes, Rng};
use refmodel::rval::*;
use serde::de::DeserializeSeed;
use std::str::FromStr;

pub struct C13;

pub fn intern(s: &str) -> &'static str {
    thread_local! {
        static NAMES: std::cell::RefCell<std::collections::HashSet<&'static str>> = std::cell::RefCell::new(Default::default());
    }
    NAMES.with(|n| {
        let mut n = n.borrow_mut();
        if let Some(x) = n.get(s) {
            return *x;
        }
        let l: &'static str = Box::leak(s.to_string().into_boxed_str());
        n.insert(l);
        l
    })
}

/// every route that decodes `text` into `shape`
pub fn decode_routes(shape: &Shape, text: &str) -> Vec<(&'static str, Result<Dyn, String>)> {
    let e = |e: &dyn std::fmt::Display| e.to_string();
    vec![
        ("toml::de::Deserializer::new", shape.deserialize(toml::de::Deserializer::new(text)).map_err(|x| e(&x))),
        ("toml_edit::de::Deserializer::from_str", toml_edit::de::Deserializer::from_str(text).map_err(|x| e(&x)).and_then(|d| shape.deserialize(d).map_err(|x| e(&x)))),
        ("toml_edit::de::Deserializer::parse(ImDocument)", toml_edit::de::Deserializer::parse(text).map_err(|x| e(&x)).and_then(|d| shape.deserialize(d).map_err(|x| e(&x)))),
        (
            "toml_edit::de::Deserializer::from(DocumentMut)",
            toml_edit::DocumentMut::from_str(text).map_err(|x| e(&x)).and_then(|d| shape.deserialize(toml_edit::de::Deserializer::from(d)).map_err(|x| e(&x))),
        ),
        (
            "toml_edit::de::Deserializer::from(ImDocument)",
            toml_edit::ImDocument::parse(text.to_string()).map_err(|x| e(&x)).and_then(|d| shape.deserialize(toml_edit::de::Deserializer::from(d)).map_err(|x| e(&x))),
        ),
        ("toml::Value then try_into", toml::from_str::<toml::Value>(text).map_err(|x| e(&x)).and_then(|v| shape.deserialize(v).map_err(|x| e(&x)))),
        ("toml::Table then try_into", toml::from_str::<toml::Table>(text).map_err(|x| e(&x)).and_then(|v| shape.deserialize(v).map_err(|x| e(&x)))),
        (
            "from_slice -> toml::Value -> try_into",
            toml_edit::de::from_slice::<toml::Value>(text.as_bytes()).map_err(|x| e(&x)).and_then(|v| shape.deserialize(v).map_err(|x| e(&x))),
        ),
    ]
}

fn rt_of(v: &toml::Value) -> RVal {
    obs::toml_value_to_r(v)
}

/// a shape (and the value in it) that the document tree can be decoded into
pub fn infer(rng: &mut Rng, v: &RVal, depth: usize) -> (Shape, Dyn) {
    let (s, d) = infer_plain(rng, v, depth);
    // any node may sit behind a newtype struct (transparent in the text and in `Dyn`)
    if rng.chance(1, 8) {
        (Shape::Newtype("N", Box::new(s)), d)
    } else {
        (s, d)
    }
}

fn infer_plain(rng: &mut Rng, v: &RVal, depth: usize) -> (Shape, Dyn) {
    match v {
        RVal::Str(s) => {
            let mut it = s.chars();
            if let (Some(c), None) = (it.next(), it.next()) {
                if rng.coin() {
                    return (Shape::Char, Dyn::Char(c));
                }
            }
            if !s.is_empty() && s.len() < 12 && rng.chance(1, 4) {
                // a unit variant of an enum that has this name
                let name = intern(s);
                return (Shape::Enum("E", vec![(name, Variant::Unit), ("Other", Variant::Newtype(Box::new(Shape::I64)))]), Dyn::Variant(0, Box::new(Dyn::Unit)));
            }
            (Shape::Str, Dyn::Str(s.clone()))
        }
        RVal::Int(i) => {
            let choices: Vec<Shape> = [
                (Shape::I8, i8::try_from(*i).is_ok()),
                (Shape::U8, u8::try_from(*i).is_ok()),
                (Shape::I16, i16::try_from(*i).is_ok()),
                (Shape::U16, u16::try_from(*i).is_ok()),
                (Shape::I32, i32::try_from(*i).is_ok()),
                (Shape::U32, u32::try_from(*i).is_ok()),
                (Shape::I64, true),
                (Shape::U64, *i >= 0),
                (Shape::I128, true),
                (Shape::U128, *i >= 0),
            ]
            .into_iter()
            .filter(|(_, ok)| *ok)
            .map(|(s, _)| s)
            .collect();
            let s = rng.pick(&choices).clone();
            let d = match s {
                Shape::U8 | Shape::U16 | Shape::U32 | Shape::U64 | Shape::U128 => Dyn::U(*i as u128),
                _ => Dyn::I(*i as i128),
            };
            (s, d)
        }
        RVal::Float(b) => (Shape::F64, Dyn::F64(f64::from_bits(*b))),
        RVal::Bool(b) => (Shape::Bool, Dyn::Bool(*b)),
        RVal::Dt(d) => {
            let dt = obs::r_to_dt(d);
            match (d.date.is_some(), d.time.is_some()) {
                (true, false) if rng.coin() => (Shape::Date, Dyn::Dt(dt)),
                (false, true) if rng.coin() => (Shape::Time, Dyn::Dt(dt)),
                _ => (Shape::Datetime, Dyn::Dt(dt)),
            }
        }
        RVal::Array(a) => {
            let parts: Vec<(Shape, Dyn)> = a.iter().map(|x| infer(rng, x, depth + 1)).collect();
            let homogeneous = parts.windows(2).all(|w| w[0].0 == w[1].0);
            if homogeneous && (parts.is_empty() || rng.chance(2, 3)) {
                let inner = parts.first().map(|p| p.0.clone()).unwrap_or(Shape::I64);
                (Shape::Seq(Box::new(inner)), Dyn::Seq(parts.into_iter().map(|p| p.1).collect()))
            } else if !parts.is_empty() {
                let (ss, ds): (Vec<Shape>, Vec<Dyn>) = parts.into_iter().unzip();
                if rng.coin() {
                    (Shape::Tuple(ss), Dyn::Fields(ds))
                } else {
                    (Shape::TupleStruct("T", ss), Dyn::Fields(ds))
                }
            } else {
                (Shape::Seq(Box::new(Shape::I64)), Dyn::Seq(vec![]))
            }
        }
        RVal::Table(t) => {
            let parts: Vec<(String, (Shape, Dyn))> = t.entries.iter().map(|(k, x)| (k.clone(), infer(rng, x, depth + 1))).collect();
            let homogeneous = parts.windows(2).all(|w| w[0].1 .0 == w[1].1 .0);
            if homogeneous && !parts.is_empty() && rng.chance(1, 3) {
                let inner = parts[0].1 .0.clone();
                let mut kv: Vec<(String, Dyn)> = parts.into_iter().map(|(k, p)| (k, p.1)).collect();
                kv.sort_by(|a, b| a.0.cmp(&b.0));
                (Shape::Map(MapKey::Str, Box::new(inner)), Dyn::Map(kv))
            } else if parts.len() == 1 && depth > 0 && rng.chance(1, 4) {
                // a single-key table is also an externally tagged enum value
                let (k, (s, d)) = parts.into_iter().next().unwrap();
                let name = intern(&k);
                (Shape::Enum("E", vec![("Zero", Variant::Unit), (name, Variant::Newtype(Box::new(s)))]), Dyn::Variant(1, Box::new(d)))
            } else {
                // struct with one optional field that is absent
                let mut fields: Vec<(&'static str, Shape)> = Vec::new();
                let mut vals = Vec::new();
                for (k, (s, d)) in parts {
                    let name = intern(&k);
                    if rng.chance(1, 5) {
                        fields.push((name, Shape::Opt(Box::new(s))));
                        vals.push(Dyn::Some(Box::new(d)));
                    } else {
                        fields.push((name, s));
                        vals.push(d);
                    }
                }
                if rng.chance(1, 3) && !fields.iter().any(|(n, _)| *n == "absent-field") {
                    fields.push(("absent-field", Shape::Opt(Box::new(Shape::I64))));
                    vals.push(Dyn::None);
                }
                (Shape::Struct("S", fields), Dyn::Fields(vals))
            }
        }
    }
}

impl C13 {
    fn agree(&mut self, ctx: &mut Ctx, shape: &Shape, text: &str, must_be: Option<&Dyn>, origin: &str) {
        self.agree_mode(ctx, shape, text, must_be, true, origin)
    }

    /// `must_succeed` false: a route may refuse, but one that succeeds must return `must_be`
    fn agree_mode(&mut self, ctx: &mut Ctx, shape: &Shape, text: &str, must_be: Option<&Dyn>, must_succeed: bool, origin: &str) {
        let routes = match guarded(|| decode_routes(shape, text)) {
            Ok(r) => r,
            Err((loc, msg)) => {
                ctx.violation(&format!("panic:{}", crate::short_loc(&loc)), format!("a decoding route panicked at {loc}: {msg}"));
                return;
            }
        };
        let mut first_ok: Option<(&str, &Dyn)> = None;
        for (name, res) in &routes {
            match res {
                Ok(v) => {
                    ctx.count(&format!("decode-ok/{name}"));
                    if let Some(want) = must_be {
                        if v != want {
                            ctx.violation(&format!("route-value-differs:{origin}"), format!("{name} decodes {text:?} as {v:?}; the value is {want:?}"));
                            return;
                        }
                    }
                    match first_ok {
                        None => first_ok = Some((name, v)),
                        Some((n0, v0)) => {
                            if v0 != v {
                                ctx.violation(&format!("routes-disagree:{origin}"), format!("{n0} gives {v0:?}, {name} gives {v:?} for {text:?}"));
                                return;
                            }
                        }
                    }
                }
                Err(e) => {
                    ctx.count(&format!("decode-err/{name}"));
                    if must_be.is_some() && must_succeed {
                        ctx.violation(&format!("route-fails:{origin}"), format!("{name} cannot decode {text:?} into the type it was serialized from / inferred for: {}", e.lines().last().unwrap_or("")));
                        return;
                    }
                }
            }
        }
        // when nothing is demanded, success itself must still be unanimous
        if must_be.is_none() {
            let oks = routes.iter().filter(|(_, r)| r.is_ok()).count();
            if oks != 0 && oks != routes.len() {
                // the property demands equal results "whenever they succeed"; success itself need
                // not be unanimous for a type the text was not made for - recorded, not judged
                // (observed: an array longer than the target tuple is accepted, extra elements
                // dropped, by the toml_edit routes and refused by the toml::Value routes)
                ctx.count(&format!("observation/routes-disagree-on-success:{origin}"));
                let detail: Vec<String> = routes.iter().map(|(n, r)| format!("{n}: {}", if r.is_ok() { "ok".to_string() } else { r.as_ref().err().unwrap().lines().next().unwrap_or("").to_string() })).collect();
                ctx.sample("observation-success-differs", || format!("shape {shape:?} text {text:?}: {detail:?}"));
            }
        }
    }
}

impl Check for C13 {
    fn id(&self) -> &'static str {
        "C13"
    }
    fn workloads(&mut self, tier: Tier, _seed: u64) -> Vec<(String, u64)> {
        let k = if tier == Tier::Quick { 8 } else { 100 };
        vec![("dyn-serialized".into(), 30_000 * k), ("doc-as-value".into(), 20_000 * k), ("doc-as-inferred-shape".into(), 25_000 * k), ("doc-as-foreign-shape".into(), 10_000 * k), ("try_from-vs-text".into(), 25_000 * k), ("value-as-target".into(), 15_000 * k), ("variant-respelled".into(), 15_000 * k)]
    }
    fn run(&mut self, ctx: &mut Ctx, workload: &str, index: u64, rng: &mut Rng) {
        ctx.eval();
        match workload {
            "dyn-serialized" => {
                let shape = gdyn::gen_root_shape_wrapped(rng);
                let v = gdyn::gen_value(rng, &shape);
                ctx.set_input(&format!("shape: {shape:?}\nvalue: {v:?}"));
                let text = match guarded(|| toml::to_string(&Ser(&shape, &v))) {
                    Ok(Ok(t)) => t,
                    Ok(Err(_)) => {
                        ctx.count("skipped/not-serializable");
                        return;
                    }
                    Err((loc, msg)) => {
                        ctx.violation(&format!("panic:{}", crate::short_loc(&loc)), format!("serializing panicked at {loc}: {msg}"));
                        return;
                    }
                };
                ctx.nontrivial(hash_bytes(text.as_bytes()));
                for c in shape.children() {
                    ctx.count(&format!("shape-constructor/{}", c.1.name()));
                }
                self.agree(ctx, &shape, &text, Some(&v), "serialized-value");
            }
            "doc-as-value" => {
                let text = if index % 3 == 0 {
                    let c = docs::corpus();
                    String::from_utf8_lossy(&c[rng.below(c.len())].bytes).into_owned()
                } else {
                    docs::rendered(rng).text
                };
                ctx.set_input(&text);
                let r = guarded(|| {
                    let mut v: Vec<(&'static str, Result<RVal, String>)> = Vec::new();
                    v.push(("toml::from_str::<Value>", toml::from_str::<toml::Value>(&text).map(|x| rt_of(&x)).map_err(|e| e.to_string())));
                    v.push(("toml::from_str::<Table>", toml::from_str::<toml::Table>(&text).map(|x| obs::toml_table_to_r(&x)).map_err(|e| e.to_string())));
                    v.push(("Value::from_str", toml::Value::from_str(&text).map(|x| rt_of(&x)).map_err(|e| e.to_string())));
                    v.push(("Table::from_str", toml::Table::from_str(&text).map(|x| obs::toml_table_to_r(&x)).map_err(|e| e.to_string())));
                    v.push(("toml_edit::de::from_str::<Value>", toml_edit::de::from_str::<toml::Value>(&text).map(|x| rt_of(&x)).map_err(|e| e.to_string())));
                    v.push(("toml_edit::de::from_slice::<Value>", toml_edit::de::from_slice::<toml::Value>(text.as_bytes()).map(|x| rt_of(&x)).map_err(|e| e.to_string())));
                    v.push(("from_document(DocumentMut)", toml_edit::DocumentMut::from_str(&text).map_err(|e| e.to_string()).and_then(|d| toml_edit::de::from_document::<toml::Value>(d).map(|x| rt_of(&x)).map_err(|e| e.to_string()))));
                    v.push(("from_document(ImDocument)", toml_edit::ImDocument::parse(text.clone()).map_err(|e| e.to_string()).and_then(|d| toml_edit::de::from_document::<toml::Value>(d).map(|x| rt_of(&x)).map_err(|e| e.to_string()))));
                    v.push(("Value -> try_into::<Table>", toml::from_str::<toml::Value>(&text).map_err(|e| e.to_string()).and_then(|x| x.try_into::<toml::Table>().map(|t| obs::toml_table_to_r(&t)).map_err(|e| e.to_string()))));
                    v.push(("Table -> try_into::<Value>", toml::from_str::<toml::Table>(&text).map_err(|e| e.to_string()).and_then(|x| x.try_into::<toml::Value>().map(|t| rt_of(&t)).map_err(|e| e.to_string()))));
                    v
                });
                match r {
                    Err((loc, msg)) => ctx.violation(&format!("panic:{}", crate::short_loc(&loc)), format!("a decoding route panicked at {loc}: {msg}")),
                    Ok(list) => {
                        let oks = list.iter().filter(|(_, r)| r.is_ok()).count();
                        if oks != 0 && oks != list.len() {
                            ctx.violation("routes-disagree-on-success:document", format!("{:?}", list.iter().map(|(n, r)| (n, r.is_ok())).collect::<Vec<_>>()));
                            return;
                        }
                        if oks == 0 {
                            ctx.count("doc/rejected-by-all");
                            return;
                        }
                        ctx.nontrivial(hash_bytes(text.as_bytes()));
                        let first = list[0].1.as_ref().unwrap();
                        for (n, r) in &list[1..] {
                            if let Some(d) = first.diff(r.as_ref().unwrap(), KeyOrder::Any) {
                                ctx.violation("routes-disagree:document", format!("{} and {n}: {d}", list[0].0));
                                return;
                            }
                        }
                        ctx.count("doc/all-routes-equal");
                    }
                }
            }
            "doc-as-inferred-shape" | "doc-as-foreign-shape" => {
                let text = if index % 3 == 0 {
                    let c = docs::corpus();
                    let valid: Vec<&refmodel::corpus::CorpusFile> = c.iter().filter(|f| f.valid).collect();
                    String::from_utf8_lossy(&valid[rng.below(valid.len())].bytes).into_owned()
                } else {
                    docs::rendered(rng).text
                };
                ctx.set_input(&text);
                let d = decode(&text);
                if !matches!(d.verdict, Verdict::Valid | Verdict::Undecided(U1::C)) {
                    return;
                }
                let tree = d.tree.as_ref().unwrap();
                if d.tree_nl.is_some() {
                    // a raw CR LF inside a multi-line string may decode either way: skip exact values
                    return;
                }
                if workload == "doc-as-inferred-shape" {
                    let (shape, want) = infer(rng, tree, 0);
                    ctx.nontrivial(hash_bytes(format!("{text}{shape:?}").as_bytes()));
                    let mut n = Vec::new();
                    shape.nestings(&mut n);
                    for (_, c) in n {
                        ctx.count(&format!("inferred-constructor/{c}"));
                    }
                    self.agree(ctx, &shape, &text, Some(&want), "inferred-shape");
                } else {
                    // an unrelated shape: whatever happens, all routes must agree
                    let shape = gdyn::gen_root_shape_wrapped(rng);
                    ctx.nontrivial(hash_bytes(format!("{text}{shape:?}").as_bytes()));
                    self.agree(ctx, &shape, &text, None, "foreign-shape");
                }
            }
            "try_from-vs-text" if index % 50 == 7 => {
                // a declared field next to a flattened catch-all that may hold an entry of the same
                // name: the serializer is handed the same key twice, and every writer has to let the
                // same one win
                #[derive(serde::Serialize, Debug)]
                struct Inner {
                    level: i64,
                    #[serde(flatten)]
                    more: std::collections::BTreeMap<String, i64>,
                }
                #[derive(serde::Serialize, Debug)]
                struct Job {
                    retries: i64,
                    name: String,
                    inner: Inner,
                    #[serde(flatten)]
                    extra: std::collections::BTreeMap<String, i64>,
                }
                let mut pick = |rng: &mut Rng, names: &[&str]| -> std::collections::BTreeMap<String, i64> {
                    let mut m = std::collections::BTreeMap::new();
                    for n in names {
                        if rng.coin() {
                            m.insert(n.to_string(), 100 + rng.below(900) as i64);
                        }
                    }
                    m
                };
                let job = Job { retries: rng.below(9) as i64, name: "n".into(), inner: Inner { level: rng.below(9) as i64, more: pick(rng, &["level", "z", "a"]) }, extra: pick(rng, &["retries", "timeout", "a"]) };
                ctx.set_input(&format!("{job:?}"));
                ctx.nontrivial(hash_bytes(format!("{job:?}").as_bytes()));
                let r = guarded(|| (toml::Value::try_from(&job).map_err(|e| e.to_string()), toml::Table::try_from(&job).map_err(|e| e.to_string()), toml::to_string(&job).map_err(|e| e.to_string()), toml_edit::ser::to_string_pretty(&job).map_err(|e| e.to_string())));
                match r {
                    Err((loc, msg)) => ctx.violation(&format!("panic:{}", crate::short_loc(&loc)), format!("serializing a struct with a flattened map panicked at {loc}: {msg}")),
                    Ok((Ok(a), Ok(t), Ok(text), Ok(pretty))) => {
                        ctx.count("try_from/flattened-map-with-repeated-key");
                        let parsed = toml::from_str::<toml::Value>(&text).map(|p| rt_of(&p)).map_err(|e| e.to_string());
                        let parsed_pretty = toml::from_str::<toml::Value>(&pretty).map(|p| rt_of(&p)).map_err(|e| e.to_string());
                        match (parsed, parsed_pretty) {
                            (Ok(p), Ok(pp)) => {
                                if let Some(d) = p.diff(&rt_of(&a), KeyOrder::Any).or_else(|| p.diff(&obs::toml_table_to_r(&t), KeyOrder::Any)) {
                                    ctx.violation("try_from-differs-from-text:repeated-key", format!("Value::try_from gives {a:?}, Table::try_from {t:?}; to_string wrote {text:?}: {d}"));
                                } else if let Some(d) = p.diff(&pp, KeyOrder::Any) {
                                    ctx.violation("writers-differ:repeated-key", format!("toml::to_string wrote {text:?}, toml_edit::ser::to_string_pretty {pretty:?}: {d}"));
                                }
                            }
                            (p, pp) => ctx.violation("serialized-text-not-readable", format!("{text:?} -> {:?}; {pretty:?} -> {:?}", p.err(), pp.err())),
                        }
                    }
                    Ok((a, t, b, c)) => ctx.violation("try_from-and-to_string-disagree-on-success", format!("struct with a flattened map: Value::try_from {:?}, Table::try_from {:?}, to_string {:?}, to_string_pretty {:?}", a.map(|_| "ok"), t.map(|_| "ok"), b.map(|_| "ok"), c.map(|_| "ok"))),
                }
            }
            "try_from-vs-text" => {
                let shape = gdyn::gen_root_shape_wrapped(rng);
                let v = gdyn::gen_value(rng, &shape);
                ctx.set_input(&format!("shape: {shape:?}\nvalue: {v:?}"));
                let r = guarded(|| {
                    let a = toml::Value::try_from(Ser(&shape, &v)).map_err(|e| e.to_string());
                    let t = toml::Table::try_from(Ser(&shape, &v)).map_err(|e| e.to_string());
                    let b = toml::to_string(&Ser(&shape, &v)).map_err(|e| e.to_string());
                    (a, t, b)
                });
                match r {
                    Err((loc, msg)) => ctx.violation(&format!("panic:{}", crate::short_loc(&loc)), format!("try_from / to_string panicked at {loc}: {msg}")),
                    Ok((a, t, b)) => {
                        let (a, t, text) = match (a, t, b) {
                            (Ok(a), Ok(t), Ok(b)) => (a, t, b),
                            (Err(_), Err(_), Err(_)) => {
                                ctx.count("try_from/all-refuse");
                                return;
                            }
                            (Ok(_), Err(_), Err(_)) if {
                                let u = gdyn::unsupported(&shape, &v);
                                u.non_table_root || u.struct_variant_at_root || u.tuple_variant_at_root
                            } =>
                            {
                                // not a table at the root: a value, but neither a table nor a document
                                ctx.count("try_from/value-only (root is not a table)");
                                return;
                            }
                            (a, t, b) => {
                                ctx.violation("try_from-and-to_string-disagree-on-success", format!("Value::try_from: {:?}, Table::try_from: {:?}, to_string: {:?}", a.as_ref().map(|_| "ok"), t.as_ref().map(|_| "ok"), b.as_ref().map(|_| "ok")));
                                return;
                            }
                        };
                        ctx.nontrivial(hash_bytes(text.as_bytes()));
                        let parsed = match toml::from_str::<toml::Value>(&text) {
                            Ok(p) => p,
                            Err(e) => {
                                ctx.violation("serialized-text-not-readable", format!("{text:?}: {e}"));
                                return;
                            }
                        };
                        let has_dt = format!("{shape:?}").contains("Date") || format!("{shape:?}").contains("Time");
                        if has_dt {
                            ctx.count("try_from/with-date-time-fields");
                        }
                        if let Some(d) = rt_of(&parsed).diff(&rt_of(&a), KeyOrder::Any) {
                            let sig = if format!("{a:?}").contains("$__toml_private_datetime") { "try_from-differs-from-text:datetime-as-table" } else { "try_from-differs-from-text" };
                            ctx.violation(sig, format!("Value::try_from gives {a:?}; parsing to_string's output {text:?} differs: {d}"));
                            return;
                        }
                        if let Some(d) = rt_of(&parsed).diff(&obs::toml_table_to_r(&t), KeyOrder::Any) {
                            ctx.violation("try_from-differs-from-text", format!("Table::try_from gives {t:?}; parsing to_string's output differs: {d}"));
                            return;
                        }
                        ctx.count("try_from/equal-to-parsed-text");
                    }
                }
            }
            "value-as-target" => self.value_as_target(ctx, rng),
            "variant-respelled" => self.variant_respelled(ctx, rng),
            other => ctx.inconclusive(format!("unknown workload {other}")),
        }
    }
}

fn to_toml_value(v: &RVal) -> toml::Value {
    match v {
        RVal::Str(s) => toml::Value::from(s.as_str()),
        RVal::Int(i) => toml::Value::from(*i),
        RVal::Float(b) => toml::Value::from(f64::from_bits(*b)),
        RVal::Bool(b) => toml::Value::from(*b),
        RVal::Dt(d) => toml::Value::Datetime(obs::r_to_dt(d)),
        RVal::Array(a) => toml::Value::Array(a.iter().map(to_toml_value).collect()),
        RVal::Table(t) => {
            let mut m = toml::Table::new();
            for (k, x) in &t.entries {
                m.insert(k.clone(), to_toml_value(x));
            }
            toml::Value::Table(m)
        }
    }
}

/// tables holding every kind of entry next to each other: scalars, arrays of scalars, arrays of
/// tables, arrays mixing tables with other values, nested arrays, empty containers, sub-tables
fn mixed_tree(rng: &mut Rng, depth: usize, budget: &mut i32) -> RTable {
    let mut t = RTable::new();
    let n = if depth == 0 { 1 + rng.below(6) } else { rng.below(5) };
    for _ in 0..n {
        if *budget <= 0 {
            break;
        }
        *budget -= 1;
        let k = if rng.chance(2, 3) { rng.pick(&["a", "m", "z", "B", "0", "k", "_", "b", "y", "aa", "1", "10"]).to_string() } else { refmodel::gen::gen_key(rng) };
        if t.get(&k).is_some() {
            continue;
        }
        let v = match rng.below(12) {
            0 | 1 => refmodel::gen::gen_scalar(rng),
            2 => RVal::Array((0..rng.below(4)).map(|_| refmodel::gen::gen_scalar(rng)).collect()),
            3 if depth < 4 => RVal::Array((0..1 + rng.below(3)).map(|_| RVal::Table(mixed_tree(rng, depth + 1, budget))).collect()),
            4 | 5 if depth < 4 => {
                // tables and other values in one array, in any arrangement
                let m = 2 + rng.below(3);
                let mut a: Vec<RVal> = Vec::new();
                for _ in 0..m {
                    a.push(match rng.below(4) {
                        0 => RVal::Table(mixed_tree(rng, depth + 1, budget)),
                        1 => RVal::Array(vec![]),
                        2 => RVal::Array(vec![RVal::Table(mixed_tree(rng, depth + 1, budget))]),
                        _ => refmodel::gen::gen_scalar(rng),
                    });
                }
                if !a.iter().any(|x| matches!(x, RVal::Table(_))) {
                    let at = rng.below(a.len() + 1);
                    a.insert(at, RVal::Table(mixed_tree(rng, depth + 1, budget)));
                }
                RVal::Array(a)
            }
            6 | 7 if depth < 4 => RVal::Table(mixed_tree(rng, depth + 1, budget)),
            8 => RVal::Table(RTable::new()),
            9 => RVal::Array(vec![]),
            _ => refmodel::gen::gen_scalar(rng),
        };
        t.entries.push((k, v));
    }
    t
}

impl C13 {
    /// target types toml::Value and toml::Table: text obtained by serializing a value must be read
    /// back as that value by every route, and try_from must be the identity on it
    fn value_as_target(&mut self, ctx: &mut Ctx, rng: &mut Rng) {
        let mut budget = 4 + rng.below(30) as i32;
        let tree = RVal::Table(mixed_tree(rng, 0, &mut budget));
        ctx.set_input(&tree.show());
        ctx.nontrivial(tree.hash());
        let value = to_toml_value(&tree);
        let table = match &value {
            toml::Value::Table(t) => t.clone(),
            _ => unreachable!(),
        };
        let texts = guarded(|| {
            let mut v: Vec<(&'static str, Result<String, String>)> = Vec::new();
            v.push(("toml::to_string(&Value)", toml::to_string(&value).map_err(|e| e.to_string())));
            v.push(("toml::to_string(&Table)", toml::to_string(&table).map_err(|e| e.to_string())));
            v.push(("toml::to_string_pretty(&Value)", toml::to_string_pretty(&value).map_err(|e| e.to_string())));
            v.push(("toml::to_string_pretty(&Table)", toml::to_string_pretty(&table).map_err(|e| e.to_string())));
            v.push(("toml_edit::ser::to_string(&Value)", toml_edit::ser::to_string(&value).map_err(|e| e.to_string())));
            v.push(("toml_edit::ser::to_string_pretty(&Table)", toml_edit::ser::to_string_pretty(&table).map_err(|e| e.to_string())));
            v.push(("Table::to_string", Ok(table.to_string())));
            let a = toml::Value::try_from(&value).map_err(|e| e.to_string());
            let b = toml::Table::try_from(&table).map_err(|e| e.to_string());
            let c = toml::Value::try_from(&table).map_err(|e| e.to_string());
            (v, a, b, c)
        });
        let (texts, a, b, c) = match texts {
            Ok(x) => x,
            Err((loc, msg)) => {
                ctx.violation(&format!("panic:{}", crate::short_loc(&loc)), format!("serializing a toml::Value panicked at {loc}: {msg}"));
                return;
            }
        };
        for (name, r) in [("Value::try_from(&Value)", a.map(|x| rt_of(&x))), ("Table::try_from(&Table)", b.map(|x| obs::toml_table_to_r(&x))), ("Value::try_from(&Table)", c.map(|x| rt_of(&x)))] {
            match r {
                Ok(got) => {
                    if let Some(d) = tree.diff(&got, KeyOrder::Any) {
                        ctx.violation("try_from-not-identity-on-value", format!("{name}: {d}"));
                        return;
                    }
                    ctx.count("value/try_from-identity");
                }
                Err(e) => {
                    ctx.violation("try_from-fails-on-value", format!("{name} on {}: {e}", tree.show()));
                    return;
                }
            }
        }
        for (ser, text) in texts {
            let text = match text {
                Ok(t) => t,
                Err(e) => {
                    ctx.violation("value-not-serializable", format!("{ser} refuses {}: {e}", tree.show()));
                    return;
                }
            };
            let r = guarded(|| {
                let mut v: Vec<(&'static str, Result<RVal, String>)> = Vec::new();
                v.push(("toml::from_str::<Value>", toml::from_str::<toml::Value>(&text).map(|x| rt_of(&x)).map_err(|e| e.to_string())));
                v.push(("toml::from_str::<Table>", toml::from_str::<toml::Table>(&text).map(|x| obs::toml_table_to_r(&x)).map_err(|e| e.to_string())));
                v.push(("Table::from_str", toml::Table::from_str(&text).map(|x| obs::toml_table_to_r(&x)).map_err(|e| e.to_string())));
                v.push(("toml_edit::de::from_str::<Value>", toml_edit::de::from_str::<toml::Value>(&text).map(|x| rt_of(&x)).map_err(|e| e.to_string())));
                v.push(("toml_edit::de::from_slice::<Table>", toml_edit::de::from_slice::<toml::Table>(text.as_bytes()).map(|x| obs::toml_table_to_r(&x)).map_err(|e| e.to_string())));
                v.push(("from_document(DocumentMut)", toml_edit::DocumentMut::from_str(&text).map_err(|e| e.to_string()).and_then(|d| toml_edit::de::from_document::<toml::Value>(d).map(|x| rt_of(&x)).map_err(|e| e.to_string()))));
                v.push(("from_document(ImDocument)", toml_edit::ImDocument::parse(text.clone()).map_err(|e| e.to_string()).and_then(|d| toml_edit::de::from_document::<toml::Table>(d).map(|x| obs::toml_table_to_r(&x)).map_err(|e| e.to_string()))));
                v.push(("Value -> try_into::<Table>", toml::from_str::<toml::Value>(&text).map_err(|e| e.to_string()).and_then(|x| x.try_into::<toml::Table>().map(|t| obs::toml_table_to_r(&t)).map_err(|e| e.to_string()))));
                v
            });
            match r {
                Err((loc, msg)) => {
                    ctx.violation(&format!("panic:{}", crate::short_loc(&loc)), format!("a decoding route panicked at {loc}: {msg}"));
                    return;
                }
                Ok(list) => {
                    for (route, got) in list {
                        match got {
                            Ok(got) => {
                                if let Some(d) = tree.diff(&got, KeyOrder::Any) {
                                    ctx.violation(&format!("route-value-differs:serialized-toml-value:{ser}"), format!("{route} reads {text:?} (from {ser}) differently from the value serialized: {d}"));
                                    return;
                                }
                                ctx.count(&format!("value/ok/{ser}"));
                            }
                            Err(e) => {
                                ctx.violation(&format!("route-fails:serialized-toml-value:{ser}"), format!("{route} cannot read {text:?} (from {ser}): {}", e.lines().last().unwrap_or("")));
                                return;
                            }
                        }
                    }
                }
            }
        }
    }

    /// enum payloads spelled the other ways the decoders accept: a tuple variant as a table of
    /// position keys (in and out of order), a struct variant with its fields in any order; as a
    /// `[header]` table, as dotted keys and as an inline table
    fn variant_respelled(&mut self, ctx: &mut Ctx, rng: &mut Rng) {
        let scalar = |rng: &mut Rng| match rng.below(6) {
            0 => Shape::Bool,
            1 => Shape::I64,
            2 => Shape::Str,
            3 => Shape::F64,
            4 => Shape::U8,
            _ => Shape::Datetime,
        };
        let tuple_variant = rng.chance(2, 3);
        let arity = if rng.chance(1, 12) { 11 + rng.below(2) } else { 2 + rng.below(3) };
        let field_names = ["p", "q", "r", "s", "t", "u", "v", "w", "x", "y", "z", "o", "n"];
        let payload_shapes: Vec<Shape> = (0..arity).map(|_| scalar(rng)).collect();
        let variant = if tuple_variant { Variant::Tuple(payload_shapes.clone()) } else { Variant::Struct(payload_shapes.iter().enumerate().map(|(i, s)| (field_names[i], s.clone())).collect()) };
        let vname = *rng.pick(&["Pair", "V", "Other"]);
        let mut variants: Vec<(&'static str, Variant)> = vec![("Unit", Variant::Unit), (vname, variant)];
        if rng.coin() {
            variants.swap(0, 1);
        }
        let vidx = variants.iter().position(|(n, _)| *n == vname).unwrap();
        let en = Shape::Enum("E", variants);
        // the enum sits at the root, in a field, or in a field of a sub-struct
        let place = rng.below(3);
        let pre_shape = scalar(rng);
        let pre = gdyn::gen_value(rng, &pre_shape);
        let payload: Vec<Dyn> = payload_shapes.iter().map(|s| gdyn::gen_value(rng, s)).collect();
        let ev = Dyn::Variant(vidx, Box::new(Dyn::Fields(payload.clone())));
        let (shape, want, path): (Shape, Dyn, Vec<&str>) = match place {
            0 => (en.clone(), ev.clone(), vec![]),
            1 => (Shape::Struct("R", vec![("a", pre_shape.clone()), ("e", en.clone())]), Dyn::Fields(vec![pre.clone(), ev.clone()]), vec!["e"]),
            _ => (
                Shape::Struct("R", vec![("a", pre_shape.clone()), ("sub", Shape::Struct("S", vec![("e", en.clone())]))]),
                Dyn::Fields(vec![pre.clone(), Dyn::Fields(vec![ev.clone()])]),
                vec!["sub", "e"],
            ),
        };
        // each payload element as value text
        let mut cells: Vec<(String, String)> = Vec::new();
        for (i, (sh, x)) in payload_shapes.iter().zip(&payload).enumerate() {
            let txt = match guarded(|| serde::Serialize::serialize(&Ser(sh, x), toml_edit::ser::ValueSerializer::new()).map(|v| v.to_string())) {
                Ok(Ok(t)) => t,
                _ => {
                    ctx.count("skipped/not-serializable");
                    return;
                }
            };
            let key = if tuple_variant { i.to_string() } else { field_names[i].to_string() };
            cells.push((key, txt));
        }
        let in_order = rng.chance(1, 4);
        if !in_order {
            rng.shuffle(&mut cells);
        }
        let identity = cells.iter().enumerate().all(|(i, (k, _))| if tuple_variant { *k == i.to_string() } else { *k == field_names[i] });
        let pre_txt = match guarded(|| serde::Serialize::serialize(&Ser(&pre_shape, &pre), toml_edit::ser::ValueSerializer::new()).map(|v| v.to_string())) {
            Ok(Ok(t)) => t,
            _ => {
                ctx.count("skipped/not-serializable");
                return;
            }
        };
        let mut full: Vec<&str> = path.clone();
        full.push(vname);
        let spelling = rng.below(3);
        let mut text = String::new();
        match spelling {
            0 => {
                // [path.Variant] header
                if place != 0 {
                    text.push_str(&format!("a = {pre_txt}\n"));
                }
                text.push_str(&format!("[{}]\n", full.join(".")));
                for (k, v) in &cells {
                    text.push_str(&format!("{k} = {v}\n"));
                }
            }
            1 => {
                // dotted keys
                for (k, v) in &cells {
                    text.push_str(&format!("{}.{k} = {v}\n", full.join(".")));
                }
                if place != 0 {
                    text.push_str(&format!("a = {pre_txt}\n"));
                }
            }
            _ => {
                // inline table
                let body: Vec<String> = cells.iter().map(|(k, v)| format!("{k} = {v}")).collect();
                if place != 0 {
                    text.push_str(&format!("a = {pre_txt}\n"));
                }
                text.push_str(&format!("{} = {{ {} }}\n", full.join("."), body.join(", ")));
            }
        }
        ctx.set_input(&format!("shape: {shape:?}\ntext: {text}"));
        ctx.nontrivial(hash_bytes(text.as_bytes()));
        let kind = if tuple_variant { "tuple-variant" } else { "struct-variant" };
        let sp = ["header", "dotted", "inline"][spelling];
        ctx.count(&format!("respelled/{kind}/{sp}/{}", if identity { "in-order" } else { "permuted" }));
        if !tuple_variant {
            // field order never matters for a struct variant
            self.agree_mode(ctx, &shape, &text, Some(&want), true, &format!("respelled-{kind}"));
        } else {
            // position keys name positions: a route may insist on their order, but one that
            // succeeds must put every element at the position its key names
            self.agree_mode(ctx, &shape, &text, Some(&want), false, &format!("respelled-{kind}"));
        }
    }
}
