//! C04 — no input makes the library panic, abort or hang.

use crate::ctx::{guarded, Ctx, Tier};
use crate::docs;
use crate::Check;
use refmodel::gen;
use refmodel::rng::{hash_bytes, Rng};
use serde::Deserialize;
use std::str::FromStr;

pub struct C04 {
    pub calls: u64,
}

#[derive(Deserialize, Debug)]
#[allow(dead_code)]
struct Inner {
    x: Option<i64>,
    y: Option<String>,
    z: Option<Vec<Inner>>,
}

#[derive(Deserialize, Debug)]
#[allow(dead_code)]
enum En {
    Unit,
    New(i64),
    Tup(i64, String),
    Str { a: i64 },
}

#[derive(Deserialize, Debug)]
#[allow(dead_code)]
struct Probe {
    a: Option<i64>,
    b: Option<String>,
    c: Option<Vec<f64>>,
    d: Option<toml_datetime::Datetime>,
    e: Option<Inner>,
    f: Option<Vec<Inner>>,
    g: Option<std::collections::BTreeMap<String, toml::Value>>,
    h: Option<En>,
    k: Option<serde_spanned::Spanned<toml::Value>>,
    key: Option<u8>,
    x: Option<char>,
    #[serde(flatten)]
    rest: std::collections::BTreeMap<String, toml::Value>,
}

/// Run `f` under the panic monitor; a panic becomes a violation attributed to `what`.
fn mon<T>(ctx: &mut Ctx, what: &'static str, f: impl FnOnce() -> T) -> Option<T> {
    ctx.count(&format!("call/{what}"));
    match guarded(f) {
        Ok(v) => Some(v),
        Err((loc, msg)) => {
            ctx.violation(&format!("panic:{}", crate::short_loc(&loc)), format!("{what} panicked at {loc}: {msg}"));
            None
        }
    }
}

fn use_error(ctx: &mut Ctx, what: &'static str, e: &toml_edit::TomlError, len: usize) {
    mon(ctx, "TomlError::{to_string,Debug,message,span}", || {
        let _ = e.to_string();
        let _ = format!("{e:?}");
        let _ = e.message().len();
        e.span()
    })
    .map(|sp| {
        if let Some(sp) = sp {
            if sp.start > sp.end || sp.end > len {
                ctx.violation("error-span-out-of-bounds", format!("{what}: error span {sp:?} outside 0..={len}"));
            }
        }
    });
}

fn use_de_error(ctx: &mut Ctx, e: &toml::de::Error) {
    mon(ctx, "toml::de::Error::{to_string,Debug,message,span}", || {
        let _ = e.to_string();
        let _ = format!("{e:?}");
        let _ = e.message().len();
        let _ = e.span();
    });
}

fn use_edit_de_error(ctx: &mut Ctx, e: &toml_edit::de::Error) {
    mon(ctx, "toml_edit::de::Error::{to_string,Debug,message,span}", || {
        let _ = e.to_string();
        let _ = format!("{e:?}");
        let _ = e.message().len();
        let _ = e.span();
    });
}

impl C04 {
    pub fn new() -> Self {
        C04 { calls: 0 }
    }

    pub fn exercise(&mut self, ctx: &mut Ctx, bytes: &[u8]) {
        ctx.eval();
        ctx.set_input_bytes(bytes);
        ctx.nontrivial(hash_bytes(bytes));
        #[cfg(toml_rs_toml_verif)]
        toml_edit::__verif::reset();
        let t0 = std::time::Instant::now();
        // byte-slice entry point: every byte string
        if let Some(r) = mon(ctx, "toml_edit::de::from_slice::<Value>", || toml_edit::de::from_slice::<toml::Value>(bytes)) {
            match r {
                Ok(v) => {
                    mon(ctx, "toml::Value::{to_string,Debug,clone,drop}", || {
                        let _ = v.to_string();
                        let _ = format!("{v:?}");
                        let c = v.clone();
                        drop(c);
                    });
                }
                Err(e) => use_edit_de_error(ctx, &e),
            }
        }
        let text = match std::str::from_utf8(bytes) {
            Ok(t) => t,
            Err(_) => {
                ctx.count("input/invalid-utf8");
                self.after(ctx, t0, bytes.len());
                return;
            }
        };
        ctx.count("input/utf8");
        // format-preserving document
        if let Some(r) = mon(ctx, "DocumentMut::from_str", || toml_edit::DocumentMut::from_str(text)) {
            match r {
                Ok(doc) => {
                    ctx.count("input/accepted");
                    let printed = mon(ctx, "DocumentMut::to_string", || doc.to_string());
                    mon(ctx, "DocumentMut::Debug", || format!("{doc:?}").len());
                    let c = mon(ctx, "DocumentMut::clone", || doc.clone());
                    mon(ctx, "DocumentMut::drop", || drop(c));
                    if let Some(p) = printed {
                        if let Some(r2) = mon(ctx, "DocumentMut::from_str(print)", || toml_edit::DocumentMut::from_str(&p).map(|d| d.to_string())) {
                            if let Err(e) = r2 {
                                use_error(ctx, "re-parse", &e, p.len());
                            }
                        }
                    }
                    if let Some(r3) = mon(ctx, "toml_edit::de::from_document::<Value>", || toml_edit::de::from_document::<toml::Value>(doc.clone())) {
                        if let Err(e) = r3 {
                            use_edit_de_error(ctx, &e);
                        }
                    }
                    if let Some(r3) = mon(ctx, "toml_edit::de::from_document::<Probe>", || toml_edit::de::from_document::<Probe>(doc)) {
                        if let Err(e) = r3 {
                            use_edit_de_error(ctx, &e);
                        }
                    }
                }
                Err(e) => {
                    ctx.count("input/rejected");
                    use_error(ctx, "DocumentMut::from_str", &e, text.len());
                }
            }
        }
        if let Some(r) = mon(ctx, "ImDocument::parse", || toml_edit::ImDocument::parse(text)) {
            match r {
                Ok(doc) => {
                    mon(ctx, "ImDocument::{Debug,walk,Display of its parts,clone,into_mut}", || {
                        let _ = format!("{doc:?}").len();
                        let _ = crate::obs::edit_table_to_r(doc.as_table());
                        // everything a caller can print without making the document editable first
                        let _ = doc.as_table().to_string().len();
                        let _ = doc.as_item().to_string().len();
                        for (k, item) in doc.as_table().iter() {
                            let _ = item.to_string().len();
                            let _ = format!("{item:?}").len();
                            if let Some(key) = doc.as_table().key(k) {
                                let _ = key.to_string().len();
                                let _ = key.display_repr().len();
                            }
                            if let Some(v) = item.as_value() {
                                let _ = v.to_string().len();
                                let _ = v.clone().decorated("", "").to_string().len();
                            }
                        }
                        let c = doc.clone();
                        drop(c);
                        let m = doc.into_mut();
                        m.to_string().len()
                    });
                }
                Err(e) => use_error(ctx, "ImDocument::parse", &e, text.len()),
            }
        }
        if let Some(r) = mon(ctx, "Value::from_str", || toml_edit::Value::from_str(text)) {
            match r {
                Ok(v) => {
                    mon(ctx, "Value::{to_string,Debug,clone}", || {
                        let _ = v.to_string();
                        let _ = format!("{v:?}");
                        drop(v.clone());
                    });
                }
                Err(e) => use_error(ctx, "Value::from_str", &e, text.len()),
            }
        }
        if let Some(r) = mon(ctx, "Item::from_str", || toml_edit::Item::from_str(text)) {
            match r {
                Ok(v) => {
                    mon(ctx, "Item::{to_string,Debug,clone}", || {
                        let _ = v.to_string();
                        let _ = format!("{v:?}");
                        drop(v.clone());
                    });
                }
                Err(e) => use_error(ctx, "Item::from_str", &e, text.len()),
            }
        }
        if let Some(r) = mon(ctx, "Key::from_str", || toml_edit::Key::from_str(text)) {
            match r {
                Ok(k) => {
                    mon(ctx, "Key::{to_string,Debug,get,clone}", || {
                        let _ = k.to_string();
                        let _ = format!("{k:?}");
                        let _ = k.get().len();
                        drop(k.clone());
                    });
                }
                Err(e) => use_error(ctx, "Key::from_str", &e, text.len()),
            }
        }
        if let Some(r) = mon(ctx, "Key::parse", || toml_edit::Key::parse(text)) {
            match r {
                Ok(ks) => {
                    mon(ctx, "Vec<Key>::{to_string,Debug}", || {
                        for k in &ks {
                            let _ = k.to_string();
                            let _ = format!("{k:?}");
                        }
                    });
                }
                Err(e) => use_error(ctx, "Key::parse", &e, text.len()),
            }
        }
        // serde front ends
        if let Some(r) = mon(ctx, "toml::from_str::<Value>", || toml::from_str::<toml::Value>(text)) {
            match r {
                Ok(v) => {
                    mon(ctx, "toml::Value::{to_string,Debug,clone,drop}", || {
                        let _ = v.to_string();
                        let _ = format!("{v:?}");
                        drop(v.clone());
                    });
                    mon(ctx, "toml::to_string(Value)", || {
                        let _ = toml::to_string(&v);
                        let _ = toml::to_string_pretty(&v);
                    });
                    mon(ctx, "Value::try_into::<Probe>", || {
                        let _ = v.try_into::<Probe>().map_err(|e| e.to_string());
                    });
                }
                Err(e) => use_de_error(ctx, &e),
            }
        }
        if let Some(r) = mon(ctx, "toml::from_str::<Table>", || toml::from_str::<toml::Table>(text)) {
            match r {
                Ok(v) => {
                    mon(ctx, "toml::Table::{to_string,Debug}", || {
                        let _ = v.to_string();
                        let _ = format!("{v:?}");
                    });
                }
                Err(e) => use_de_error(ctx, &e),
            }
        }
        if let Some(r) = mon(ctx, "toml::from_str::<Probe>", || toml::from_str::<Probe>(text)) {
            match r {
                Ok(v) => {
                    mon(ctx, "Probe::Debug", || format!("{v:?}").len());
                }
                Err(e) => use_de_error(ctx, &e),
            }
        }
        if let Some(r) = mon(ctx, "toml_edit::de::from_str::<Probe>", || toml_edit::de::from_str::<Probe>(text)) {
            if let Err(e) = r {
                use_edit_de_error(ctx, &e);
            }
        }
        // the whole document, and a value on its own, asked for together with their spans
        if let Some(r) = mon(ctx, "toml::from_str::<Spanned<Value>>", || toml::from_str::<serde_spanned::Spanned<toml::Value>>(text)) {
            match r {
                Ok(v) => {
                    mon(ctx, "Spanned::span", || v.span().len());
                }
                Err(e) => use_de_error(ctx, &e),
            }
        }
        if let Some(r) = mon(ctx, "toml_edit::de::from_str::<Spanned<Value>>", || toml_edit::de::from_str::<serde_spanned::Spanned<toml::Value>>(text)) {
            if let Err(e) = r {
                use_edit_de_error(ctx, &e);
            }
        }
        if let Some(r) = mon(ctx, "toml_edit::de::ValueDeserializer -> Spanned<Value>", || text.parse::<toml_edit::de::ValueDeserializer>().and_then(|d| serde_spanned::Spanned::<toml::Value>::deserialize(d))) {
            if let Err(e) = r {
                use_edit_de_error(ctx, &e);
            }
        }
        if let Some(r) = mon(ctx, "toml::de::ValueDeserializer", || toml::Value::deserialize(toml::de::ValueDeserializer::new(text))) {
            if let Err(e) = r {
                use_de_error(ctx, &e);
            }
        }
        if let Some(r) = mon(ctx, "toml_edit::de::ValueDeserializer", || text.parse::<toml_edit::de::ValueDeserializer>().and_then(|d| toml::Value::deserialize(d))) {
            if let Err(e) = r {
                use_edit_de_error(ctx, &e);
            }
        }
        if let Some(r) = mon(ctx, "Datetime::from_str", || toml_datetime::Datetime::from_str(text)) {
            match r {
                Ok(d) => {
                    mon(ctx, "Datetime::{to_string,Debug}", || {
                        let _ = d.to_string();
                        let _ = format!("{d:?}");
                    });
                }
                Err(e) => {
                    mon(ctx, "DatetimeParseError::{to_string,Debug}", || {
                        let _ = e.to_string();
                        let _ = format!("{e:?}");
                    });
                }
            }
        }
        self.after(ctx, t0, bytes.len());
    }

    fn after(&mut self, ctx: &mut Ctx, t0: std::time::Instant, len: usize) {
        let us = t0.elapsed().as_micros() as u64;
        ctx.max("screening/max-micros-per-input", us);
        if len > 0 {
            ctx.max("screening/max-nanos-per-byte", us * 1000 / len as u64);
        }
        if us > 50_000 {
            ctx.count("screening/inputs-over-50ms");
            let inp = ctx.cur_input.clone().unwrap_or_default();
            ctx.sample("slow-input", || inp);
        }
        #[cfg(toml_rs_toml_verif)]
        {
            let s = toml_edit::__verif::snapshot();
            for (k, n) in &s.utf8_sites {
                ctx.add(&format!("H1-site/{k}"), *n);
            }
            for (why, b) in &s.utf8_invalid {
                ctx.violation("H1-invalid-utf8-at-unchecked-site", format!("from_utf8_unchecked({why}) received invalid UTF-8: {b:02x?}"));
            }
            if s.exit_underflow > 0 {
                ctx.violation("H2-recursion-counter-underflow", format!("RecursionCheck::exit called {} times at zero", s.exit_underflow));
            }
            ctx.max("H2/depth-high-water", s.depth_high_water as u64);
        }
    }
}

/// hostile inputs
fn flood(rng: &mut Rng) -> Vec<u8> {
    let n = *rng.pick(&[1usize, 2, 3, 10, 100, 1000, 4000, 8000]);
    let unit: &[u8] = *rng.pick(&[
        b"\0" as &[u8],
        b"\x01",
        b"\"",
        b"'",
        b"\"\"\"",
        b"'''",
        b"[",
        b"]",
        b"{",
        b"}",
        b"[[",
        b"a.",
        b".",
        b"=",
        b"a=",
        b"{a=",
        b"a={",
        b"#",
        b"\n",
        b"\r",
        b"\r\n",
        b"\\",
        b"\\u",
        b"9",
        b"_",
        b"1_",
        b"0x",
        b"-",
        b"e9",
        b":",
        b"\xff",
        b"\xc3",
        b"\xf0\x9f",
        b"a=1\n",
        b"[a]\n",
        b"[[a]]\n",
        b"a.b.c=1\n",
        b",",
        b"[1,",
        b"\"\\\n",
        b" ",
        b"\t",
        b"\xef\xbb\xbf",
    ]);
    let prefix: &[u8] = *rng.pick(&[b"" as &[u8], b"a = ", b"a = [", b"a = {", b"[", b"[[", b"a = \"", b"a = '''", b"a = \"\"\"", b"a.", b"# "]);
    let mut out = prefix.to_vec();
    for _ in 0..n {
        if out.len() + unit.len() > 8192 {
            break;
        }
        out.extend_from_slice(unit);
    }
    if rng.coin() {
        out.extend_from_slice(*rng.pick(&[b"" as &[u8], b"\n", b"]", b"}", b"\"", b"'''", b"\"\"\"", b" = 1", b"]]"]));
    }
    out
}

fn extreme_scalar(rng: &mut Rng) -> Vec<u8> {
    let body = match rng.below(8) {
        0 => "9".repeat(1 + rng.below(500)),
        1 => format!("-{}", "9".repeat(1 + rng.below(500))),
        2 => format!("0.{}1", "0".repeat(rng.below(1000))),
        3 => format!("1e{}{}", if rng.coin() { "-" } else { "" }, "9".repeat(1 + rng.below(30))),
        4 => format!("{}.{}e{}", "1".repeat(1 + rng.below(400)), "7".repeat(1 + rng.below(400)), rng.range(-400, 400)),
        5 => format!("0x{}", "f".repeat(1 + rng.below(200))),
        6 => format!("{}-{}-{}T{}:{}:{}.{}{}", rng.below(100000), rng.below(100), rng.below(100), rng.below(100), rng.below(100), rng.below(100), "9".repeat(rng.below(50)), rng.pick(&["Z", "+99:99", "-00:00", "+1:00", ""])),
        _ => docs::near_miss_value(rng),
    };
    match rng.below(4) {
        0 => body.into_bytes(),
        1 => format!("k = {body}").into_bytes(),
        2 => format!("k = [{body}, {body}]\n").into_bytes(),
        _ => format!("k = {body}\n").into_bytes(),
    }
}

/// Date-time spellings, valid and damaged character by character (digits of other scripts, wide
/// characters whose low byte looks like a digit or a separator, over-long fields), bare for the
/// standalone parser and behind the private marker key for the serde route.
fn datetime_string(rng: &mut Rng) -> Vec<u8> {
    const ODD: &[char] = &[
        '\u{ff10}', '\u{ff11}', '\u{ff19}', '\u{0660}', '\u{0663}', '\u{0669}', '\u{0966}', '\u{00b2}', '\u{00b9}', '\u{00bd}', '\u{2168}', '\u{3007}', '\u{1d7ce}', '\u{1d7ff}',
        '\u{ff1a}', '\u{ff0d}', '\u{2212}', '\u{ff34}', '\u{ff3a}', '\u{0130}', '\u{212a}', '\u{e9}', '\u{0131}', '\u{0230}', '\u{0239}', '\u{013a}', '\u{012d}', '\u{0154}', '\u{015a}',
        '\u{1f600}', '\u{0}', '\u{7f}', '\u{80}', '\u{a0}', '\u{feff}', '\u{10ffff}',
    ];
    let v = gen::gen_datetime(rng);
    let mut cs: Vec<char> = gen::render_datetime(rng, &v).chars().collect();
    for _ in 0..rng.below(4) {
        if cs.is_empty() {
            break;
        }
        let i = rng.below(cs.len());
        match rng.below(9) {
            0 | 1 => cs[i] = *rng.pick(ODD),
            2 => cs[i] = *rng.pick(&['0', '9', '5', ':', '-', '+', '.', 'T', 't', ' ', 'Z', 'z', '_', 'e', '/']),
            3 => {
                cs.remove(i);
            }
            4 => cs.insert(i, *rng.pick(&['0', '9', '1', ':', '-', '.', ' ', 'T'])),
            5 => cs.truncate(i),
            6 => {
                // over-long digit run
                let d = *rng.pick(&['0', '9', '1']);
                for _ in 0..1 + rng.below(24) {
                    cs.insert(i, d);
                }
            }
            7 => cs.insert(i, *rng.pick(ODD)),
            _ => {
                let tail: Vec<char> = rng.pick(&["Z", "z", "+00:00", "-23:59", "+24:00", "+1:00", ".0", ".999999999999", ":00", " ", "T", "T00:00:00"]).chars().collect();
                cs.extend(tail);
            }
        }
    }
    let s: String = cs.into_iter().collect();
    let q = if s.chars().any(|c| c == '\'' || (c.is_control() && c != '\t')) { format!("{s:?}") } else { format!("'{s}'") };
    match rng.below(8) {
        0 => format!("\"$__toml_private_datetime\" = {q}").into_bytes(),
        1 => format!("d = {{ \"$__toml_private_datetime\" = {q} }}").into_bytes(),
        2 => format!("d = {s}\n").into_bytes(),
        _ => s.into_bytes(),
    }
}

impl Check for C04 {
    fn id(&self) -> &'static str {
        "C04"
    }
    fn workloads(&mut self, tier: Tier, _seed: u64) -> Vec<(String, u64)> {
        let k = if tier == Tier::Quick { 1 } else { 40 };
        let corpus_bytes: u64 = docs::corpus().iter().map(|f| f.bytes.len() as u64 + 1).sum();
        vec![
            ("corpus".into(), docs::corpus().len() as u64),
            ("sweep".into(), docs::sweep_count()),
            ("corpus-truncate".into(), if tier == Tier::Quick { 20_000 } else { corpus_bytes }),
            ("flood".into(), 20_000 * k),
            ("extreme-scalar".into(), 30_000 * k),
            ("heavy-mut".into(), 80_000 * k),
            ("light-mut".into(), 60_000 * k),
            ("render".into(), 20_000 * k),
            ("random-bytes".into(), 20_000 * k),
            ("value-fragments".into(), 30_000 * k),
            ("datetime-strings".into(), 40_000 * k),
            ("nesting".into(), 4_000 * k),
        ]
    }
    fn run(&mut self, ctx: &mut Ctx, workload: &str, index: u64, rng: &mut Rng) {
        let bytes: Vec<u8> = match workload {
            "corpus" => docs::corpus()[index as usize].bytes.clone(),
            "sweep" => docs::sweep_doc(index).1,
            "corpus-truncate" => {
                let c = docs::corpus();
                if ctx.tier == Tier::Quick {
                    let f = &c[rng.below(c.len())];
                    let cut = rng.below(f.bytes.len() + 1);
                    f.bytes[..cut].to_vec()
                } else {
                    // exhaustive: every prefix of every corpus file
                    let mut i = index;
                    let mut out = Vec::new();
                    for f in c {
                        let n = f.bytes.len() as u64 + 1;
                        if i < n {
                            out = f.bytes[..i as usize].to_vec();
                            break;
                        }
                        i -= n;
                    }
                    out
                }
            }
            "flood" => flood(rng),
            "extreme-scalar" => extreme_scalar(rng),
            "heavy-mut" => {
                let c = docs::corpus();
                let mut t = if rng.coin() { c[rng.below(c.len())].bytes.clone() } else { docs::rendered(rng).text.into_bytes() };
                let other = c[rng.below(c.len())].bytes.clone();
                for _ in 0..4 + rng.below(26) {
                    t = gen::mutate(rng, &t, &other);
                    if t.len() > 8192 {
                        t.truncate(8192);
                    }
                }
                t
            }
            "light-mut" => {
                let c = rng.coin();
                docs::mutated(rng, c).0
            }
            "render" => docs::rendered(rng).text.into_bytes(),
            "random-bytes" => {
                let n = rng.below(64);
                (0..n).map(|_| if rng.chance(3, 4) { *rng.pick(b"\"'\\[]{}=.,#\n\r\t 019azTZ:-+_eE") } else { rng.below(256) as u8 }).collect()
            }
            "value-fragments" => {
                // single values / keys / date-times: the non-document entry points get valid input too,
                // bare and with blanks (of every kind) around them
                let frag: Vec<u8> = match rng.below(6) {
                    0 => {
                        let v = gen::gen_datetime(rng);
                        gen::render_datetime(rng, &v).into_bytes()
                    }
                    1 => {
                        let k = gen::gen_key(rng);
                        gen::render_key_seg(rng, &k).0.into_bytes()
                    }
                    2 => {
                        let a = gen::gen_key(rng);
                        let b = gen::gen_key(rng);
                        format!("{} . {}", gen::render_key_seg(rng, &a).0, gen::render_key_seg(rng, &b).0).into_bytes()
                    }
                    3 => {
                        let s = gen::gen_string(rng);
                        gen::render_string(rng, &s, true).0.into_bytes()
                    }
                    4 => docs::near_miss_value(rng).into_bytes(),
                    _ => {
                        let mut budget = 8;
                        let v = gen::gen_value(rng, 0, &mut budget);
                        let cfg = gen::GenCfg::random(rng);
                        // render through a one-line document and cut the value out
                        let mut g = gen::DocGen::new(rng, cfg);
                        g.render_value_public(&v).into_bytes()
                    }
                };
                if rng.coin() {
                    frag
                } else {
                    let pads = ["", " ", "  ", "\t ", "   \t", "\u{a0}", " \u{a0} ", "\n", "  \n", "\r\n ", "\u{feff}", "\u{2003} "];
                    let mut out = rng.pick(&pads).as_bytes().to_vec();
                    out.extend_from_slice(&frag);
                    out.extend_from_slice(rng.pick(&pads).as_bytes());
                    out
                }
            }
            "datetime-strings" => datetime_string(rng),
            "nesting" => {
                // valid nesting of every construct, alone and combined, mostly below the limit
                let pick = |rng: &mut Rng| -> usize { *rng.pick(&[1usize, 2, 5, 13, 20, 26, 27, 30, 39, 40, 41, 60, 70, 76, 77, 79, 80, 90]) };
                loop {
                    let header = match rng.below(4) {
                        0 => Some((false, pick(rng))),
                        1 => Some((true, pick(rng))),
                        _ => None,
                    };
                    let key = if rng.chance(2, 3) { 1 } else { pick(rng) };
                    let layers: Vec<crate::c05::Layer> = (0..rng.below(3))
                        .map(|_| match rng.below(9) {
                            0 => crate::c05::Layer::Array(pick(rng)),
                            1 => crate::c05::Layer::Inline(pick(rng), 1),
                            2 => crate::c05::Layer::Inline(pick(rng).min(30), 1 + rng.below(3)),
                            3 => crate::c05::Layer::Mixed(pick(rng)),
                            // breadth instead of depth: must not count against the limit
                            4 => crate::c05::Layer::WideArray(rng.below(8), *rng.pick(&[3usize, 40, 85, 200])),
                            5 => crate::c05::Layer::WideInline(*rng.pick(&[2usize, 30, 79, 81, 150]), 1 + rng.below(3)),
                            6 => crate::c05::Layer::Pre(rng.below(8), *rng.pick(&[3usize, 60, 85, 120])),
                            7 => crate::c05::Layer::Inline(1, pick(rng)),
                            _ => crate::c05::Layer::LedArray(rng.below(4), pick(rng)),
                        })
                        .collect();
                    let r = crate::c05::Recipe { header, key, layers };
                    // an interpreter that is ~10^4 times slower gets the small recipes only (the deep and
                    // wide ones run natively, in three builds, and under ASan)
                    let cap = if cfg!(miri) { 400 } else { 4096 };
                    if r.text_len() < cap {
                        break r.text().into_bytes();
                    }
                }
            }
            other => {
                ctx.inconclusive(format!("unknown workload {other}"));
                return;
            }
        };
        ctx.count(&format!("workload/{workload}"));
        if index < 3 {
            ctx.sample(workload, || String::from_utf8_lossy(&bytes).chars().take(300).collect());
        }
        self.exercise(ctx, &bytes);
    }
}

/// scaling families for the bounded-work monitor: a document of "size" n
pub fn scale_doc(family: &str, n: usize) -> Option<Vec<u8>> {
    let mut s = String::new();
    match family {
        "open-brackets" => s = format!("a = {}", "[".repeat(n)),
        "quotes" => s = format!("a = {}", "\"".repeat(n)),
        "dotted-key" => s = format!("{}a = 1", "a.".repeat(n)),
        "inline-open" => s = "a = ".to_string() + &"{a=".repeat(n),
        "comment-lines" => (0..n).for_each(|i| s.push_str(&format!("# comment {i}\n"))),
        "headers" => (0..n).for_each(|i| s.push_str(&format!("[t{i}]\n"))),
        "aot-headers" => (0..n).for_each(|_| s.push_str("[[t]]\n")),
        "array-elements" => s = format!("a = [{}]", "1,".repeat(n)),
        "inline-entries" => s = format!("a = {{{}z=0}}", (0..n).map(|i| format!("k{i}=1,")).collect::<String>()),
        "digits" => s = format!("a = {}", "1".repeat(n)),
        "float-digits" => s = format!("a = 0.{}", "1".repeat(n)),
        "continuations" => s = format!("a = \"\"\"{}\"\"\"", "\\\n".repeat(n)),
        "keys" => (0..n).for_each(|i| s.push_str(&format!("k{i} = {i}\n"))),
        "dotted-prefix-keys" => (0..n).for_each(|i| s.push_str(&format!("p.k{i} = {i}\n"))),
        "duplicate-after-keys" => {
            (0..n).for_each(|i| s.push_str(&format!("k{i} = {i}\n")));
            s.push_str("k0 = 1\n");
        }
        "sub-then-super" => {
            (0..n).for_each(|i| s.push_str(&format!("[a{i}.b]\n")));
            (0..n).for_each(|i| s.push_str(&format!("[a{i}]\n")));
        }
        "quote-runs" => s = format!("a = \"\"\"{}\"\"\"", "\"\" ".repeat(n)),
        "error-after-lines" => {
            (0..n).for_each(|i| s.push_str(&format!("k{i} = {i}\n")));
            s.push_str("= oops\n");
        }
        "string-escapes" => s = format!("a = \"{}\"", "\\u00e9".repeat(n)),
        "nested-aot" => (0..n).for_each(|i| s.push_str(&format!("[[a]]\n[[a.b]]\nx = {i}\n"))),
        // valid nesting below the recursion limit: depth grows with n (n/30, at most 70), so that
        // work that doubles per level shows as a ratio far beyond quadratic
        "nested-arrays" => {
            let d = (n / 30).clamp(2, 70);
            s = format!("a = {}1{}\n", "[".repeat(d), "]".repeat(d));
        }
        "nested-inline" => {
            let d = (n / 30).clamp(2, 70);
            s = format!("a = {}1{}\n", "{a=".repeat(d), "}".repeat(d));
        }
        "nested-mixed" => {
            let d = (n / 60).clamp(1, 35);
            s = format!("a = {}1{}\n", "[{a=".repeat(d), "}]".repeat(d));
        }
        "nested-arrays-wide" => {
            let d = (n / 30).clamp(2, 70);
            s = format!("a = {}1, 2{}\n", "[".repeat(d), " , 3 ]".repeat(d));
        }
        "empty" => {}
        _ => return None,
    }
    Some(s.into_bytes())
}

pub const SCALE_FAMILIES: &[&str] = &[
    "open-brackets", "quotes", "dotted-key", "inline-open", "comment-lines", "headers", "aot-headers", "array-elements", "inline-entries", "digits", "float-digits",
    "continuations", "keys", "dotted-prefix-keys", "duplicate-after-keys", "sub-then-super", "quote-runs", "error-after-lines", "string-escapes", "nested-aot", "nested-arrays", "nested-inline", "nested-mixed", "nested-arrays-wide",
];
