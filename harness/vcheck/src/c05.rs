//! C05 — nesting is bounded so no document can exhaust the stack.
//! Each recipe is executed by a child process on a 2 MiB thread, in a debug and a release build.

use crate::ctx::{Ctx, Tier};
use crate::Check;
use refmodel::rng::{hash_bytes, Rng};
use std::io::Write;
use std::str::FromStr;

pub struct C05 {
    children: Vec<(String, String)>,
}

pub const D_BOUND: usize = 240;
const LIMIT: usize = 80;
const MAX_TEXT: usize = 64 * 1024;

#[derive(Clone, Debug, PartialEq)]
pub enum Layer {
    Array(usize),
    Inline(usize, usize),
    Mixed(usize),
    /// one array, `n` flat fillers of a kind before the inner value: breadth, not depth
    /// (0 elements, 1 comment lines, 2 blank lines, 3 elements with comments, 4 small arrays,
    /// 5 small inline tables, 6 CRLF comment lines)
    WideArray(usize, usize),
    /// one inline table with `n` sibling dotted keys of `m` extra segments each before the inner value
    WideInline(usize, usize),
    /// `n` flat statements of a kind in front of everything else (see `preamble`)
    Pre(usize, usize),
    /// `n` nested arrays, each one the *second* element of its parent (lead: 0 `1`, 1 `[]`, 2 `{}`, 3 `""`)
    LedArray(usize, usize),
    /// `n` array-of-tables headers, each one level below the previous (`[[a]]`, `[[a.a]]`, ...):
    /// every level is an array and a table; the recipe's statement lands in the innermost element
    AotChain(usize),
}

#[derive(Clone, Debug)]
pub struct Recipe {
    pub header: Option<(bool, usize)>,
    pub key: usize,
    pub layers: Vec<Layer>,
}

/// `n` flat statements of a kind in front of the recipe's own statement (0 key/values, 1 comment
/// lines, 2 dotted keys under one prefix, 3 headers, 4 array-of-tables elements, 5 blank lines,
/// 6 inline tables holding a dotted key, 7 arrays of inline tables holding dotted keys)
fn preamble(kind: usize, n: usize) -> String {
    let mut s = String::new();
    for i in 0..n {
        match kind {
            0 => s.push_str(&format!("k{i} = 1\n")),
            1 => s.push_str("# c\n"),
            2 => s.push_str(&format!("p.q.k{i} = 1\n")),
            3 => s.push_str(&format!("[t{i}]\n")),
            4 => s.push_str("[[t]]\nx = 1\n"),
            5 => s.push('\n'),
            6 => s.push_str(&format!("k{i} = {{ a.b = 1 }}\n")),
            _ => s.push_str(&format!("k{i} = [ {{ a.b = 1 }}, {{ a.b.c = 2, d.e = 3 }} ]\n")),
        }
    }
    if kind == 3 || kind == 4 {
        s.push_str("[last]\n");
    }
    s
}

impl Recipe {
    pub fn encode(&self) -> String {
        let mut s = String::new();
        if let Some((aot, n)) = self.header {
            s.push_str(&format!("{}{n};", if aot { 'T' } else { 'H' }));
        }
        s.push_str(&format!("K{}", self.key));
        for l in &self.layers {
            match l {
                Layer::Array(n) => s.push_str(&format!(";A{n}")),
                Layer::Inline(n, m) => s.push_str(&format!(";I{n}x{m}")),
                Layer::Mixed(n) => s.push_str(&format!(";M{n}")),
                Layer::WideArray(k, n) => s.push_str(&format!(";W{k}x{n}")),
                Layer::WideInline(n, m) => s.push_str(&format!(";J{n}x{m}")),
                Layer::Pre(k, n) => s.push_str(&format!(";P{k}x{n}")),
                Layer::AotChain(n) => s.push_str(&format!(";C{n}")),
                Layer::LedArray(k, n) => s.push_str(&format!(";L{k}x{n}")),
            }
        }
        s
    }
    pub fn decode(s: &str) -> Option<Recipe> {
        let mut r = Recipe { header: None, key: 1, layers: vec![] };
        for part in s.split(';') {
            let (c, rest) = part.split_at(1);
            match c {
                "H" => r.header = Some((false, rest.parse().ok()?)),
                "T" => r.header = Some((true, rest.parse().ok()?)),
                "K" => r.key = rest.parse().ok()?,
                "A" => r.layers.push(Layer::Array(rest.parse().ok()?)),
                "M" => r.layers.push(Layer::Mixed(rest.parse().ok()?)),
                "I" => {
                    let (a, b) = rest.split_once('x')?;
                    r.layers.push(Layer::Inline(a.parse().ok()?, b.parse().ok()?));
                }
                "W" => {
                    let (a, b) = rest.split_once('x')?;
                    r.layers.push(Layer::WideArray(a.parse().ok()?, b.parse().ok()?));
                }
                "J" => {
                    let (a, b) = rest.split_once('x')?;
                    r.layers.push(Layer::WideInline(a.parse().ok()?, b.parse().ok()?));
                }
                "P" => {
                    let (a, b) = rest.split_once('x')?;
                    r.layers.push(Layer::Pre(a.parse().ok()?, b.parse().ok()?));
                }
                "C" => r.layers.push(Layer::AotChain(rest.parse().ok()?)),
                "L" => {
                    let (a, b) = rest.split_once('x')?;
                    r.layers.push(Layer::LedArray(a.parse().ok()?, b.parse().ok()?));
                }
                _ => return None,
            }
        }
        Some(r)
    }
    pub fn text_len(&self) -> usize {
        let mut n = 8;
        if let Some((aot, k)) = self.header {
            n += 2 * k + if aot { 5 } else { 3 };
        }
        n += 2 * self.key + 3;
        for l in &self.layers {
            n += match l {
                Layer::Array(k) => 2 * k,
                Layer::Inline(k, m) => k * (2 * m + 3),
                Layer::Mixed(k) => 3 * k + 2,
                Layer::WideArray(k, n) => (if *k >= 7 { 20 } else { 10 }) * n + 4,
                Layer::WideInline(n, m) => n * (2 * m + 10) + 8,
                Layer::Pre(k, n) => (if *k >= 6 { 56 } else { 16 }) * n + 8,
                Layer::AotChain(n) => n * n + 6 * n,
                Layer::LedArray(_, n) => 5 * n,
            };
        }
        n
    }
    pub fn text(&self) -> String {
        let mut s = String::new();
        for l in &self.layers {
            if let Layer::Pre(kind, n) = l {
                s.push_str(&preamble(*kind, *n));
            }
        }
        for l in &self.layers {
            if let Layer::AotChain(n) = l {
                for i in 1..=*n {
                    s.push_str("[[");
                    s.push_str(&vec!["a"; i].join("."));
                    s.push_str("]]\n");
                }
            }
        }
        if let Some((aot, k)) = self.header {
            s.push_str(if aot { "[[" } else { "[" });
            s.push_str(&vec!["a"; k].join("."));
            s.push_str(if aot { "]]\n" } else { "]\n" });
        }
        s.push_str(&vec!["a"; self.key].join("."));
        s.push_str(" = ");
        let mut close = String::new();
        for l in &self.layers {
            match l {
                Layer::Array(k) => {
                    s.push_str(&"[".repeat(*k));
                    close.insert_str(0, &"]".repeat(*k));
                }
                Layer::Inline(k, m) => {
                    let key = vec!["a"; *m].join(".");
                    for _ in 0..*k {
                        s.push('{');
                        s.push_str(&key);
                        s.push('=');
                    }
                    close.insert_str(0, &"}".repeat(*k));
                }
                Layer::Mixed(k) => {
                    let mut c = String::new();
                    for i in 0..*k {
                        if i % 2 == 0 {
                            s.push('[');
                            c.insert(0, ']');
                        } else {
                            s.push_str("{a=");
                            c.insert(0, '}');
                        }
                    }
                    close.insert_str(0, &c);
                }
                Layer::WideArray(kind, n) => {
                    s.push_str("[\n");
                    for _ in 0..*n {
                        s.push_str(match kind {
                            0 => "1, ",
                            1 => "# c\n",
                            2 => "\n",
                            3 => "1, # c\n",
                            4 => "[1], ",
                            5 => "{a=1}, ",
                            6 => "# c\r\n",
                            _ => "{a.b=1, c.d.e=2}, ",
                        });
                    }
                    close.insert_str(0, "\n]");
                }
                Layer::Pre(..) | Layer::AotChain(..) => {}
                Layer::LedArray(kind, n) => {
                    let lead = ["1", "[]", "{}", "\"\""][*kind % 4];
                    for _ in 0..*n {
                        s.push('[');
                        s.push_str(lead);
                        s.push(',');
                    }
                    close.insert_str(0, &"]".repeat(*n));
                }
                Layer::WideInline(n, m) => {
                    s.push('{');
                    for i in 0..*n {
                        s.push_str(&format!("k{i}{} = 0, ", ".a".repeat(*m)));
                    }
                    s.push_str("z = ");
                    close.insert(0, '}');
                }
            }
        }
        s.push('1');
        s.push_str(&close);
        s.push('\n');
        s
    }
    /// container levels that the header path (and a chain of array-of-tables headers) puts above
    /// the key/value pair
    pub fn header_levels(&self) -> usize {
        let h = match self.header {
            Some((true, n)) => n + 1,
            Some((false, n)) => n,
            None => 0,
        };
        let c: usize = self.layers.iter().map(|l| if let Layer::AotChain(n) = l { 2 * n } else { 0 }).sum();
        h + c
    }
    /// only breadth: a short header and key, nothing but wide layers with short sibling keys
    pub fn flat_only(&self) -> bool {
        self.header.map_or(true, |(_, n)| n <= 10)
            && self.key <= 10
            && !self.layers.is_empty()
            && self.layers.len() <= 3
            && self.layers.iter().all(|l| match l {
                Layer::WideArray(..) | Layer::Pre(..) => true,
                Layer::WideInline(_, m) => *m <= 20,
                _ => false,
            })
    }
    /// the recipe is one construct only, nested to `depth`
    pub fn single_construct(&self) -> Option<(&'static str, usize)> {
        match (&self.header, self.key, self.layers.as_slice()) {
            (None, 1, [Layer::Array(n)]) => Some(("array", *n)),
            // an empty array or inline table in front is itself one level deeper
            (None, 1, [Layer::LedArray(k, n)]) => Some(("array-as-second-element", *n + usize::from(*k % 4 == 1 || *k % 4 == 2))),
            (None, 1, [Layer::Inline(n, 1)]) => Some(("inline-table", *n)),
            (None, k, []) => Some(("dotted-key", k)),
            (Some((false, n)), 1, []) => Some(("header-path", *n)),
            (Some((true, n)), 1, []) => Some(("aot-header-path", *n)),
            _ => None,
        }
    }
}

enum Node<'a> {
    Item(&'a toml_edit::Item),
    Value(&'a toml_edit::Value),
}

/// container depth below the root table, computed without recursion
pub fn tree_depth(doc: &toml_edit::DocumentMut) -> usize {
    let mut max = 0;
    let mut stack: Vec<(Node<'_>, usize)> = doc.as_table().iter().map(|(_, i)| (Node::Item(i), 0)).collect();
    while let Some((n, d)) = stack.pop() {
        match n {
            Node::Item(toml_edit::Item::Table(t)) => {
                max = max.max(d + 1);
                for (_, i) in t.iter() {
                    stack.push((Node::Item(i), d + 1));
                }
            }
            Node::Item(toml_edit::Item::ArrayOfTables(a)) => {
                max = max.max(d + 1);
                for t in a.iter() {
                    max = max.max(d + 2);
                    for (_, i) in t.iter() {
                        stack.push((Node::Item(i), d + 2));
                    }
                }
            }
            Node::Item(toml_edit::Item::Value(v)) => stack.push((Node::Value(v), d)),
            Node::Item(toml_edit::Item::None) => {}
            Node::Value(toml_edit::Value::Array(a)) => {
                max = max.max(d + 1);
                for v in a.iter() {
                    stack.push((Node::Value(v), d + 1));
                }
            }
            Node::Value(toml_edit::Value::InlineTable(t)) => {
                max = max.max(d + 1);
                for (_, v) in t.iter() {
                    stack.push((Node::Value(v), d + 1));
                }
            }
            Node::Value(_) => {}
        }
    }
    max
}

/// Child process body: runs the stages on a 2 MiB thread, printing a marker before each.
pub fn child_main(recipe: &str) -> i32 {
    let r = Recipe::decode(recipe).expect("recipe");
    let text = r.text();
    let h = std::thread::Builder::new()
        .stack_size(2 * 1024 * 1024)
        .spawn(move || {
            let out = std::io::stdout();
            let stage = |s: &str| {
                let mut o = out.lock();
                let _ = writeln!(o, "STAGE {s}");
                let _ = o.flush();
            };
            stage("parse");
            #[cfg(toml_rs_toml_verif)]
            toml_edit::__verif::reset();
            let doc = toml_edit::DocumentMut::from_str(&text);
            #[cfg(toml_rs_toml_verif)]
            {
                let s = toml_edit::__verif::snapshot();
                println!("H2 high_water={} key_depth={} underflow={}", s.depth_high_water, s.max_key_depth, s.exit_underflow);
            }
            match doc {
                Err(e) => {
                    let msg = e.message().to_string();
                    println!("REJECTED {}", msg.replace('\n', " | "));
                }
                Ok(doc) => {
                    stage("depth");
                    println!("DEPTH {}", tree_depth(&doc));
                    stage("to_string");
                    let s = doc.to_string();
                    println!("PRINTED {}", s.len());
                    stage("debug");
                    let dbg = format!("{doc:?}");
                    println!("DEBUG {}", dbg.len());
                    drop(dbg);
                    stage("clone");
                    let c = doc.clone();
                    stage("drop-clone");
                    drop(c);
                    stage("reparse-print");
                    let again = toml_edit::DocumentMut::from_str(&s).map(|d| d.to_string());
                    println!("REPARSE {}", again.map(|a| a == s).unwrap_or(false));
                    stage("into-deserializer");
                    let v = toml_edit::de::from_document::<toml::Value>(doc);
                    println!("FROM_DOCUMENT {}", v.is_ok());
                    stage("drop-value");
                    drop(v);
                }
            }
            stage("toml::from_str::<Value>");
            let v = toml::from_str::<toml::Value>(&text);
            println!("TOML_VALUE {}", v.is_ok());
            if let Ok(v) = v {
                stage("toml::Value::to_string");
                let s = toml::to_string(&v).map(|s| s.len());
                println!("TOML_PRINT {s:?}");
                stage("toml::Value::debug+clone");
                let _ = format!("{v:?}").len();
                let c = v.clone();
                stage("toml::Value::eq+drop");
                println!("EQ {}", c == v);
                drop(c);
                drop(v);
            }
            stage("toml_edit::de::from_str::<Value>");
            let v = toml_edit::de::from_str::<toml::Value>(&text);
            println!("EDIT_DE {}", v.is_ok());
            drop(v);
            stage("done");
        })
        .expect("spawn");
    match h.join() {
        Ok(()) => 0,
        Err(_) => {
            println!("PANIC");
            3
        }
    }
}

const DEPTHS: &[usize] = &[1, 2, 40, 78, 79, 80, 81, 300, 5000];

fn single_recipes() -> Vec<Recipe> {
    let mut v = Vec::new();
    for &n in DEPTHS {
        v.push(Recipe { header: None, key: 1, layers: vec![Layer::Array(n)] });
        v.push(Recipe { header: None, key: 1, layers: vec![Layer::Inline(n, 1)] });
        v.push(Recipe { header: None, key: 1, layers: vec![Layer::Mixed(n)] });
        v.push(Recipe { header: None, key: n, layers: vec![] });
        v.push(Recipe { header: Some((false, n)), key: 1, layers: vec![] });
        v.push(Recipe { header: Some((true, n)), key: 1, layers: vec![] });
    }
    // very long paths: whatever is built from them before the limit is consulted has to be
    // taken apart again without recursion as well
    for &n in &[12_000usize, 30_000] {
        v.push(Recipe { header: None, key: n, layers: vec![] });
        v.push(Recipe { header: Some((false, n)), key: 1, layers: vec![] });
        v.push(Recipe { header: Some((true, n)), key: 1, layers: vec![] });
        v.push(Recipe { header: None, key: 1, layers: vec![Layer::Array(n)] });
    }
    // just past 2^16 and 2^17: a count kept in a narrow integer would come out small again
    for &n in &[65_539usize, 65_600, 131_075] {
        v.push(Recipe { header: None, key: n, layers: vec![] });
        v.push(Recipe { header: Some((false, n)), key: 1, layers: vec![] });
        v.push(Recipe { header: Some((true, n)), key: 1, layers: vec![] });
        v.push(Recipe { header: None, key: 1, layers: vec![Layer::Array(n)] });
        v.push(Recipe { header: None, key: 1, layers: vec![Layer::Inline(n, 1)] });
    }
    v
}

fn pair_recipes() -> Vec<Recipe> {
    // every ordered pair of constructs at depths around the limit: additive and multiplicative
    let ds = [2usize, 40, 79, 80, 300];
    let mut v = Vec::new();
    for &a in &ds {
        for &b in &ds {
            // multiplicative: inline tables keyed by dotted keys
            v.push(Recipe { header: None, key: 1, layers: vec![Layer::Inline(a, b)] });
            // additive pairs
            v.push(Recipe { header: None, key: a, layers: vec![Layer::Array(b)] });
            v.push(Recipe { header: None, key: a, layers: vec![Layer::Inline(b, 1)] });
            v.push(Recipe { header: Some((false, a)), key: b, layers: vec![] });
            v.push(Recipe { header: Some((true, a)), key: b, layers: vec![] });
            v.push(Recipe { header: Some((false, a)), key: 1, layers: vec![Layer::Array(b)] });
            v.push(Recipe { header: Some((true, a)), key: 1, layers: vec![Layer::Inline(b, 1)] });
            v.push(Recipe { header: None, key: 1, layers: vec![Layer::Array(a), Layer::Inline(b, 1)] });
            v.push(Recipe { header: None, key: 1, layers: vec![Layer::Inline(a, 1), Layer::Array(b)] });
            v.push(Recipe { header: None, key: 1, layers: vec![Layer::Array(a), Layer::Mixed(b)] });
            // a chain of containers whose innermost table holds one long dotted key with a scalar
            v.push(Recipe { header: None, key: 1, layers: vec![Layer::Inline(a, 1), Layer::Inline(1, b)] });
            v.push(Recipe { header: None, key: 1, layers: vec![Layer::Array(a), Layer::Inline(1, b)] });
            v.push(Recipe { header: None, key: 1, layers: vec![Layer::Mixed(a), Layer::Inline(1, b)] });
            // nested containers that are not the first element of their parent
            for lead in 0..4 {
                v.push(Recipe { header: None, key: 1, layers: vec![Layer::LedArray(lead, b)] });
            }
            v.push(Recipe { header: None, key: a, layers: vec![Layer::LedArray(1, 79), Layer::Inline(2, 1)] });
        }
    }
    // every level of the header path an array of tables, then more nesting inside the element
    for &c in &[2usize, 40, 78, 79, 80, 81] {
        v.push(Recipe { header: None, key: 1, layers: vec![Layer::AotChain(c)] });
        for &b in &[40usize, 78, 79] {
            v.push(Recipe { header: None, key: b, layers: vec![Layer::AotChain(c)] });
            v.push(Recipe { header: None, key: b, layers: vec![Layer::AotChain(c), Layer::Array(78)] });
            v.push(Recipe { header: None, key: b, layers: vec![Layer::AotChain(c), Layer::Inline(78, 1)] });
            v.push(Recipe { header: None, key: b, layers: vec![Layer::AotChain(c), Layer::Inline(79, 1)] });
            v.push(Recipe { header: None, key: b, layers: vec![Layer::AotChain(c), Layer::Mixed(78)] });
        }
    }
    // the deepest additive combinations below each single limit
    v.push(Recipe { header: Some((true, 79)), key: 79, layers: vec![Layer::Array(78)] });
    v.push(Recipe { header: Some((false, 79)), key: 79, layers: vec![Layer::Array(39), Layer::Inline(39, 1)] });
    v.push(Recipe { header: Some((true, 79)), key: 79, layers: vec![Layer::Inline(79, 79)] });
    v.push(Recipe { header: None, key: 79, layers: vec![Layer::Inline(79, 79), Layer::Array(79)] });
    v.retain(|r| r.text_len() <= MAX_TEXT);
    v
}

/// breadth instead of depth: long flat runs inside one array / one inline table, alone, nested in
/// each other, and below some ordinary nesting
fn wide_recipes() -> Vec<Recipe> {
    let mut v = Vec::new();
    for &n in &[100usize, 1000, 1500, 4000] {
        for kind in 0..8 {
            v.push(Recipe { header: None, key: 1, layers: vec![Layer::WideArray(kind, n)] });
        }
        v.push(Recipe { header: Some((true, 2)), key: 2, layers: vec![Layer::WideArray(1, n), Layer::WideArray(3, 50)] });
        v.push(Recipe { header: None, key: 1, layers: vec![Layer::Array(20), Layer::WideArray(1, n)] });
        v.push(Recipe { header: None, key: 1, layers: vec![Layer::Inline(10, 2), Layer::WideArray(6, n)] });
    }
    for &(n, m) in &[(10usize, 1usize), (100, 1), (1000, 1), (5, 20), (30, 3), (200, 5), (79, 1), (80, 1), (81, 1), (40, 2), (2, 39), (2, 40)] {
        v.push(Recipe { header: None, key: 1, layers: vec![Layer::WideInline(n, m)] });
        v.push(Recipe { header: Some((false, 3)), key: 1, layers: vec![Layer::WideInline(n, m), Layer::WideArray(0, 10)] });
        v.push(Recipe { header: None, key: 1, layers: vec![Layer::WideArray(5, 10), Layer::WideInline(n, m)] });
        v.push(Recipe { header: None, key: 1, layers: vec![Layer::Array(30), Layer::WideInline(n, m), Layer::Array(20)] });
    }
    for kind in 0..8 {
        for &n in &[200usize, 2000] {
            v.push(Recipe { header: None, key: 1, layers: vec![Layer::Pre(kind, n)] });
            v.push(Recipe { header: Some((true, 3)), key: 2, layers: vec![Layer::Pre(kind, n), Layer::WideArray(1, 300)] });
        }
    }
    v.retain(|r| r.text_len() <= MAX_TEXT);
    v
}

fn random_recipe(rng: &mut Rng) -> Recipe {
    let pick = |rng: &mut Rng| -> usize {
        match rng.below(6) {
            0 => 1 + rng.below(4),
            1 => 30 + rng.below(30),
            2 => 76 + rng.below(6),
            3 => 79,
            4 => 100 + rng.below(300),
            _ => 1 + rng.below(100),
        }
    };
    loop {
        let header = match rng.below(3) {
            0 => None,
            1 => Some((false, pick(rng))),
            _ => Some((true, pick(rng))),
        };
        let key = if rng.coin() { 1 } else { pick(rng) };
        let nl = rng.below(4);
        let mut layers = Vec::new();
        for _ in 0..nl {
            layers.push(match rng.below(9) {
                0 => Layer::Array(pick(rng)),
                1 => Layer::Inline(pick(rng), 1),
                2 => Layer::Inline(pick(rng), pick(rng)),
                3 => Layer::Mixed(pick(rng)),
                4 => Layer::WideArray(rng.below(8), *rng.pick(&[3usize, 50, 400, 1200, 3000])),
                5 => Layer::WideInline(*rng.pick(&[2usize, 10, 79, 80, 300, 1000]), 1 + rng.below(3)),
                6 => Layer::WideInline(1 + rng.below(40), pick(rng).min(60)),
                7 => Layer::Inline(1, pick(rng)),
                _ => Layer::LedArray(rng.below(4), pick(rng)),
            });
        }
        if rng.chance(1, 6) {
            layers.push(Layer::Pre(rng.below(8), *rng.pick(&[5usize, 100, 1500])));
        }
        let r = Recipe { header, key, layers };
        if r.text_len() <= MAX_TEXT {
            return r;
        }
    }
}

impl C05 {
    pub fn new() -> Self {
        let mut children = Vec::new();
        if let Ok(p) = std::env::var("VCHECK_DEV") {
            children.push(("dev".to_string(), p));
        }
        if let Ok(p) = std::env::var("VCHECK_RELEASE") {
            children.push(("release".to_string(), p));
        }
        // the same with toml_edit's `perf` feature: a performance switch must not touch the limit
        if let Ok(p) = std::env::var("VCHECK_PERF") {
            children.push(("release-perf".to_string(), p));
        }
        C05 { children }
    }

    fn run_recipe(&mut self, ctx: &mut Ctx, r: &Recipe) {
        let enc = r.encode();
        ctx.set_input(&format!("recipe {enc} ({} bytes): {}", r.text_len(), r.text().chars().take(120).collect::<String>()));
        if self.children.is_empty() {
            ctx.inconclusive("no child binaries configured (VCHECK_DEV / VCHECK_RELEASE)".into());
            return;
        }
        ctx.nontrivial(hash_bytes(enc.as_bytes()));
        let single = r.single_construct();
        for (profile, bin) in self.children.clone() {
            ctx.eval();
            ctx.count(&format!("runs/{profile}"));
            // a child normally needs milliseconds; one that is still running after 60 s is given a
            // second, longer chance before it is called stuck
            let mut out = run_child(&bin, &enc, 60);
            if let Ok(None) = out {
                ctx.count("child-timeouts/first-attempt");
                out = run_child(&bin, &enc, 180);
            }
            let out = match out {
                Ok(Some(o)) => o,
                Ok(None) => {
                    ctx.violation(&format!("stage-does-not-finish:{profile}"), format!("recipe {enc}: the {profile} child was still running after 60 s and, started again, after 180 s"));
                    continue;
                }
                Err(e) => {
                    ctx.inconclusive(format!("cannot spawn {bin}: {e}"));
                    continue;
                }
            };
            let stdout = String::from_utf8_lossy(&out.stdout).to_string();
            let last_stage = stdout.lines().filter(|l| l.starts_with("STAGE ")).last().unwrap_or("STAGE none")[6..].to_string();
            let field = |tag: &str| -> Option<String> { stdout.lines().find(|l| l.starts_with(tag)).map(|l| l[tag.len()..].trim().to_string()) };
            let finished = last_stage == "done" && out.status.success();
            if !finished {
                let class = if stdout.contains("PANIC") { "panic" } else { "death" };
                ctx.violation(
                    &format!("stack-{class}:{profile}:{last_stage}"),
                    format!("recipe {enc}: the {profile} child ended with {:?} in stage `{last_stage}` on a 2 MiB stack (H2: {})", out.status, field("H2 ").unwrap_or_default()),
                );
                continue;
            }
            if let Some(h2) = field("H2 ") {
                for kv in h2.split(' ') {
                    if let Some((k, v)) = kv.split_once('=') {
                        if let Ok(v) = v.parse::<u64>() {
                            ctx.max(&format!("H2/{k}"), v);
                            if k == "underflow" && v > 0 {
                                ctx.violation("H2-recursion-counter-underflow", format!("recipe {enc}: exit() at zero {v} times"));
                            }
                        }
                    }
                }
            }
            match field("REJECTED ") {
                Some(msg) => {
                    ctx.count("verdict/rejected");
                    ctx.count(&format!("reject-message/{}", msg.chars().take(60).collect::<String>()));
                    if !msg.contains("recursion limit") {
                        // every recipe is syntactically valid TOML: the only legitimate refusal is the limit
                        ctx.violation("rejected-without-recursion-limit-error", format!("recipe {enc}: refused with `{msg}`, not with a recursion-limit error"));
                    }
                    if let Some((what, n)) = single {
                        if n <= 79 {
                            ctx.violation(&format!("below-limit-rejected:{what}"), format!("recipe {enc}: a single {what} nested {n} deep is refused ({msg})"));
                        }
                    }
                    if r.flat_only() {
                        ctx.violation("below-limit-rejected:breadth", format!("recipe {enc}: a document that is wide but at most a few dozen levels deep is refused ({msg})"));
                    }
                    if field("TOML_VALUE ").as_deref() == Some("true") || field("EDIT_DE ").as_deref() == Some("true") {
                        ctx.violation("front-ends-disagree", format!("recipe {enc}: DocumentMut refuses, a serde front end accepts"));
                    }
                }
                None => {
                    ctx.count("verdict/accepted");
                    let depth: usize = field("DEPTH ").and_then(|d| d.parse().ok()).unwrap_or(usize::MAX);
                    ctx.max(&format!("max-accepted-depth/{profile}"), depth as u64);
                    // the header path contributes its own levels (array-of-tables levels twice); the
                    // dotted key and the value behind it share one budget of LIMIT levels
                    let bound = (r.header_levels() + LIMIT + 1).min(D_BOUND);
                    if depth > bound {
                        ctx.violation("accepted-depth-unbounded", format!("recipe {enc}: accepted with container depth {depth} > {bound} (H2: {})", field("H2 ").unwrap_or_default()));
                    }
                    if field("REPARSE ").as_deref() != Some("true") {
                        ctx.violation("print-not-fixed-point", format!("recipe {enc}: the print of the accepted document does not re-parse to itself"));
                    }
                    if field("TOML_VALUE ").as_deref() != Some("true") || field("EDIT_DE ").as_deref() != Some("true") || field("FROM_DOCUMENT ").as_deref() != Some("true") {
                        ctx.violation("front-ends-disagree", format!("recipe {enc}: DocumentMut accepts, a serde route refuses: {stdout}"));
                    }
                }
            }
        }
        if let Some((what, n)) = single {
            ctx.count(&format!("single-construct/{what}/{}", if n <= 79 { "below-limit" } else { "at-or-beyond-limit" }));
        }
        if r.flat_only() {
            ctx.count("breadth-only-recipes");
        }
    }
}

/// run one child; `Ok(None)` when it had to be killed after `secs` seconds
fn run_child(bin: &str, enc: &str, secs: u64) -> std::io::Result<Option<std::process::Output>> {
    use std::io::Read;
    use std::process::Stdio;
    let mut child = std::process::Command::new(bin).arg("c05-child").arg(enc).stdin(Stdio::null()).stdout(Stdio::piped()).stderr(Stdio::piped()).spawn()?;
    let mut so = child.stdout.take().expect("piped");
    let mut se = child.stderr.take().expect("piped");
    let h1 = std::thread::spawn(move || {
        let mut v = Vec::new();
        let _ = so.read_to_end(&mut v);
        v
    });
    let h2 = std::thread::spawn(move || {
        let mut v = Vec::new();
        let _ = se.read_to_end(&mut v);
        v
    });
    let t0 = std::time::Instant::now();
    let status = loop {
        if let Some(st) = child.try_wait()? {
            break Some(st);
        }
        if t0.elapsed().as_secs() >= secs {
            let _ = child.kill();
            let _ = child.wait();
            break None;
        }
        std::thread::sleep(std::time::Duration::from_millis(if t0.elapsed().as_millis() < 50 { 1 } else { 10 }));
    };
    let stdout = h1.join().unwrap_or_default();
    let stderr = h2.join().unwrap_or_default();
    Ok(status.map(|status| std::process::Output { status, stdout, stderr }))
}

impl Check for C05 {
    fn id(&self) -> &'static str {
        "C05"
    }
    fn workloads(&mut self, tier: Tier, _seed: u64) -> Vec<(String, u64)> {
        vec![("single".into(), single_recipes().len() as u64), ("pairs".into(), pair_recipes().len() as u64), ("wide".into(), wide_recipes().len() as u64), ("random".into(), if tier == Tier::Quick { 400 } else { 40_000 })]
    }
    fn run(&mut self, ctx: &mut Ctx, workload: &str, index: u64, rng: &mut Rng) {
        let r = match workload {
            "single" => single_recipes()[index as usize].clone(),
            "pairs" => pair_recipes()[index as usize].clone(),
            "wide" => wide_recipes()[index as usize].clone(),
            "random" => random_recipe(rng),
            other => {
                ctx.inconclusive(format!("unknown workload {other}"));
                return;
            }
        };
        ctx.sample(workload, || r.encode());
        self.run_recipe(ctx, &r);
    }
}
