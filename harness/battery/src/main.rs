//! C18 battery: the same deterministic items under every feature configuration; prints one digest
//! line per item. The driver compares the lines across configurations.
//!
//!   battery <seed> <n_docs> <n_built> [deep]

#![allow(unused_imports, dead_code, unused_variables)]

use refmodel::gen::{self, GenCfg};
use refmodel::rng::{hash_bytes, Rng};
use refmodel::rval::*;

fn h(s: &str) -> String {
    format!("{:016x}", hash_bytes(s.as_bytes()))
}

// ---------------------------------------------------------------- toml_edit observers

fn dt_to_r(d: &toml_edit::Datetime) -> RDatetime {
    RDatetime {
        date: d.date.map(|x| RDate { year: x.year, month: x.month, day: x.day }),
        time: d.time.map(|t| RTime { hour: t.hour, minute: t.minute, second: t.second, nanos: t.nanosecond }),
        offset: d.offset.map(|o| match o {
            toml_edit::Offset::Z => ROffset::Z,
            toml_edit::Offset::Custom { minutes } => ROffset::Minutes(minutes),
        }),
    }
}

fn value_to_r(v: &toml_edit::Value) -> RVal {
    use toml_edit::Value as V;
    match v {
        V::String(s) => RVal::Str(s.value().clone()),
        V::Integer(i) => RVal::Int(*i.value()),
        V::Float(f) => RVal::Float(f.value().to_bits()),
        V::Boolean(b) => RVal::Bool(*b.value()),
        V::Datetime(d) => RVal::Dt(dt_to_r(d.value())),
        V::Array(a) => RVal::Array(a.iter().map(value_to_r).collect()),
        V::InlineTable(t) => RVal::table(t.iter().map(|(k, v)| (k.to_string(), value_to_r(v))).collect()),
    }
}

fn table_to_r(t: &toml_edit::Table) -> RVal {
    RVal::table(
        t.iter()
            .map(|(k, i)| {
                (
                    k.to_string(),
                    match i {
                        toml_edit::Item::None => RVal::Str("<none>".into()),
                        toml_edit::Item::Value(v) => value_to_r(v),
                        toml_edit::Item::Table(t) => table_to_r(t),
                        toml_edit::Item::ArrayOfTables(a) => RVal::Array(a.iter().map(table_to_r).collect()),
                    },
                )
            })
            .collect(),
    )
}

fn nan_free_show(v: &RVal) -> String {
    v.show()
}

// ---------------------------------------------------------------- building through the API (no parser needed)

fn r_to_dt(d: &RDatetime) -> toml_edit::Datetime {
    toml_edit::Datetime {
        date: d.date.as_ref().map(|x| toml_edit::Date { year: x.year, month: x.month, day: x.day }),
        time: d.time.as_ref().map(|t| toml_edit::Time { hour: t.hour, minute: t.minute, second: t.second, nanosecond: t.nanos }),
        offset: d.offset.as_ref().map(|o| match o {
            ROffset::Z => toml_edit::Offset::Z,
            ROffset::Minutes(m) => toml_edit::Offset::Custom { minutes: *m },
        }),
    }
}

fn build_value(v: &RVal) -> toml_edit::Value {
    match v {
        RVal::Str(s) => toml_edit::Value::from(s.as_str()),
        RVal::Int(i) => toml_edit::Value::from(*i),
        RVal::Float(b) => toml_edit::Value::from(f64::from_bits(*b)),
        RVal::Bool(b) => toml_edit::Value::from(*b),
        RVal::Dt(d) => toml_edit::Value::from(r_to_dt(d)),
        RVal::Array(a) => toml_edit::Value::Array(a.iter().map(build_value).collect()),
        RVal::Table(t) => {
            let mut it = toml_edit::InlineTable::new();
            for (k, x) in &t.entries {
                it.insert(k.as_str(), build_value(x));
            }
            toml_edit::Value::InlineTable(it)
        }
    }
}

fn build_table(t: &RTable, depth: usize) -> toml_edit::Table {
    let mut tb = toml_edit::Table::new();
    for (i, (k, x)) in t.entries.iter().enumerate() {
        let item = match x {
            RVal::Table(sub) if depth < 5 && i % 2 == 0 => toml_edit::Item::Table(build_table(sub, depth + 1)),
            RVal::Array(a) if depth < 5 && !a.is_empty() && a.iter().all(|e| matches!(e, RVal::Table(_))) && i % 3 != 0 => {
                let mut aot = toml_edit::ArrayOfTables::new();
                for e in a {
                    if let RVal::Table(s) = e {
                        aot.push(build_table(s, depth + 1));
                    }
                }
                toml_edit::Item::ArrayOfTables(aot)
            }
            other => toml_edit::Item::Value(build_value(other)),
        };
        tb.insert(k.as_str(), item);
    }
    tb
}

// ---------------------------------------------------------------- serde glue

#[cfg(any(feature = "te-serde", feature = "t"))]
mod glue {
    use super::*;
    use serde::de::{self, MapAccess, SeqAccess, Visitor};
    use serde::ser::{SerializeMap, SerializeSeq};

    pub struct S<'a>(pub &'a RVal);
    impl serde::Serialize for S<'_> {
        fn serialize<Z: serde::Serializer>(&self, s: Z) -> Result<Z::Ok, Z::Error> {
            match self.0 {
                RVal::Str(x) => s.serialize_str(x),
                RVal::Int(i) => s.serialize_i64(*i),
                RVal::Float(b) => s.serialize_f64(f64::from_bits(*b)),
                RVal::Bool(b) => s.serialize_bool(*b),
                RVal::Dt(d) => serde::Serialize::serialize(&super::r_to_dt(d), s),
                RVal::Array(a) => {
                    let mut q = s.serialize_seq(Some(a.len()))?;
                    for x in a {
                        q.serialize_element(&S(x))?;
                    }
                    q.end()
                }
                RVal::Table(t) => {
                    let mut q = s.serialize_map(Some(t.entries.len()))?;
                    for (k, x) in &t.entries {
                        q.serialize_entry(k, &S(x))?;
                    }
                    q.end()
                }
            }
        }
    }

    pub struct D(pub RVal);
    impl<'de> serde::Deserialize<'de> for D {
        fn deserialize<Z: serde::Deserializer<'de>>(d: Z) -> Result<D, Z::Error> {
            struct V;
            impl<'de> Visitor<'de> for V {
                type Value = D;
                fn expecting(&self, f: &mut std::fmt::Formatter<'_>) -> std::fmt::Result {
                    f.write_str("any TOML value")
                }
                fn visit_bool<E>(self, v: bool) -> Result<D, E> {
                    Ok(D(RVal::Bool(v)))
                }
                fn visit_i64<E>(self, v: i64) -> Result<D, E> {
                    Ok(D(RVal::Int(v)))
                }
                fn visit_f64<E>(self, v: f64) -> Result<D, E> {
                    Ok(D(RVal::Float(v.to_bits())))
                }
                fn visit_str<E>(self, v: &str) -> Result<D, E> {
                    Ok(D(RVal::Str(v.to_string())))
                }
                fn visit_string<E>(self, v: String) -> Result<D, E> {
                    Ok(D(RVal::Str(v)))
                }
                fn visit_seq<A: SeqAccess<'de>>(self, mut seq: A) -> Result<D, A::Error> {
                    let mut v = Vec::new();
                    while let Some(x) = seq.next_element::<D>()? {
                        v.push(x.0);
                    }
                    Ok(D(RVal::Array(v)))
                }
                fn visit_map<A: MapAccess<'de>>(self, mut map: A) -> Result<D, A::Error> {
                    let mut v = Vec::new();
                    while let Some(k) = map.next_key::<String>()? {
                        if k == "$__toml_private_datetime" {
                            let s: String = map.next_value()?;
                            let d: toml_edit::Datetime = s.parse().map_err(de::Error::custom)?;
                            return Ok(D(RVal::Dt(super::dt_to_r(&d))));
                        }
                        let x = map.next_value::<D>()?;
                        v.push((k, x.0));
                    }
                    Ok(D(RVal::table(v)))
                }
            }
            d.deserialize_any(V)
        }
    }
}

#[cfg(feature = "t")]
fn toml_value_to_r(v: &toml::Value) -> RVal {
    match v {
        toml::Value::String(s) => RVal::Str(s.clone()),
        toml::Value::Integer(i) => RVal::Int(*i),
        toml::Value::Float(f) => RVal::Float(f.to_bits()),
        toml::Value::Boolean(b) => RVal::Bool(*b),
        toml::Value::Datetime(d) => RVal::Dt(dt_to_r(d)),
        toml::Value::Array(a) => RVal::Array(a.iter().map(toml_value_to_r).collect()),
        toml::Value::Table(t) => RVal::table(t.iter().map(|(k, v)| (k.clone(), toml_value_to_r(v))).collect()),
    }
}

#[cfg(feature = "t")]
fn r_to_toml_value(v: &RVal) -> toml::Value {
    match v {
        RVal::Str(s) => toml::Value::String(s.clone()),
        RVal::Int(i) => toml::Value::Integer(*i),
        RVal::Float(b) => toml::Value::Float(f64::from_bits(*b)),
        RVal::Bool(b) => toml::Value::Boolean(*b),
        RVal::Dt(d) => toml::Value::Datetime(r_to_dt(d)),
        RVal::Array(a) => toml::Value::Array(a.iter().map(r_to_toml_value).collect()),
        RVal::Table(t) => {
            let mut m = toml::Table::new();
            for (k, x) in &t.entries {
                m.insert(k.clone(), r_to_toml_value(x));
            }
            toml::Value::Table(m)
        }
    }
}

#[cfg(feature = "t")]
mod tmap {
    use refmodel::rng::Rng;
    use serde::Deserialize;
    use toml::map::Entry;
    use toml::Value;

    /// a random call sequence on a toml::Table next to a plain insertion-ordered model; returns the
    /// digest material: every call's result, the final content sorted by key, the final iteration
    /// order, and the model's (insertion) order
    pub fn ops(rng: &mut Rng) -> (String, String, String, Vec<String>) {
        let keys = ["d", "b", "a", "f", "g", "c", "e", "h"];
        let mut t = toml::Table::new();
        let mut model: Vec<(String, i64)> = Vec::new();
        let mut out = String::new();
        let n = 4 + rng.below(28);
        let mut next = 0i64;
        for _ in 0..n {
            let k = keys[rng.below(keys.len())].to_string();
            next += 1;
            match rng.below(14) {
                12 => {
                    // several entries at once, not in key order; existing keys keep their place
                    let m = 2 + rng.below(4);
                    let batch: Vec<(String, Value)> = (0..m).map(|j| (keys[rng.below(keys.len())].to_string(), Value::Integer(next * 100 + j as i64))).collect();
                    for (k, v) in &batch {
                        let v = v.as_integer().unwrap();
                        match model.iter_mut().find(|e| e.0 == *k) {
                            Some(e) => e.1 = v,
                            None => model.push((k.clone(), v)),
                        }
                    }
                    out.push_str(&format!("extend({:?});", batch.iter().map(|e| e.0.as_str()).collect::<Vec<_>>()));
                    t.extend(batch);
                }
                13 => {
                    // the same content collected afresh, the entries offered in reverse insertion
                    // order: an insertion-ordered table now iterates the other way round
                    model.reverse();
                    t = model.iter().map(|(k, v)| (k.clone(), Value::Integer(*v))).collect();
                    out.push_str("recollect-reversed;");
                }
                0 | 1 | 2 => {
                    let r = t.insert(k.clone(), Value::Integer(next));
                    out.push_str(&format!("insert({k})={r:?};"));
                    match model.iter_mut().find(|e| e.0 == k) {
                        Some(e) => e.1 = next,
                        None => model.push((k, next)),
                    }
                }
                3 => {
                    let r = t.remove(&k);
                    out.push_str(&format!("remove({k})={r:?};"));
                    model.retain(|e| e.0 != k);
                }
                4 | 5 => match t.entry(k.clone()) {
                    Entry::Occupied(e) => {
                        let r = e.remove();
                        out.push_str(&format!("entry({k}).remove()={r:?};"));
                        model.retain(|e| e.0 != k);
                    }
                    Entry::Vacant(e) => {
                        e.insert(Value::Integer(next));
                        out.push_str(&format!("entry({k}).vacant.insert;"));
                        model.push((k, next));
                    }
                },
                6 => match t.entry(k.clone()) {
                    Entry::Occupied(mut e) => {
                        let r = e.insert(Value::Integer(next));
                        out.push_str(&format!("entry({k}).insert()={r:?};"));
                        model.iter_mut().find(|e| e.0 == k).unwrap().1 = next;
                    }
                    Entry::Vacant(_) => out.push_str(&format!("entry({k}).vacant;")),
                },
                7 => {
                    let r = t.entry(k.clone()).or_insert(Value::Integer(next)).clone();
                    out.push_str(&format!("entry({k}).or_insert={r:?};"));
                    if !model.iter().any(|e| e.0 == k) {
                        model.push((k, next));
                    }
                }
                8 => {
                    let m = 2 + rng.below(3) as i64;
                    t.retain(|_, v| v.as_integer().map_or(true, |x| x % m != 0));
                    model.retain(|e| e.1 % m != 0);
                    out.push_str(&format!("retain(%{m});"));
                }
                9 => {
                    out.push_str(&format!("get({k})={:?},{};", t.get(&k), t.contains_key(&k)));
                }
                10 => {
                    out.push_str(&format!("len={},{};", t.len(), t.is_empty()));
                }
                _ => {
                    if let Some(v) = t.get_mut(&k) {
                        *v = Value::Integer(next);
                        model.iter_mut().find(|e| e.0 == k).unwrap().1 = next;
                    }
                }
            }
        }
        // equality is about content: the same entries inserted in another order compare equal
        let mut pairs: Vec<(String, Value)> = t.iter().map(|(k, v)| (k.clone(), v.clone())).collect();
        pairs.sort_by(|a, b| b.0.cmp(&a.0));
        let mut t2 = toml::Table::new();
        for (k, v) in pairs {
            t2.insert(k, v);
        }
        out.push_str(&format!("eq={},{};", t == t2, Value::Table(t.clone()) == Value::Table(t2.clone())));
        let mut nest_a = toml::Table::new();
        nest_a.insert("x".into(), Value::Array(vec![Value::Table(t.clone())]));
        let mut nest_b = toml::Table::new();
        nest_b.insert("x".into(), Value::Array(vec![Value::Table(t2)]));
        out.push_str(&format!("nested-eq={};", nest_a == nest_b));
        let mut content: Vec<String> = t.iter().map(|(k, v)| format!("{k}={v:?}")).collect();
        let order: Vec<&str> = t.keys().map(|k| k.as_str()).collect();
        let order = order.join(",");
        content.sort();
        let mut want: Vec<String> = model.iter().map(|(k, v)| format!("{k}={:?}", Value::Integer(*v))).collect();
        want.sort();
        if want != content {
            out.push_str("CONTENT-DIFFERS-FROM-MODEL;");
        }
        (out, content.join(","), order, model.into_iter().map(|e| e.0).collect())
    }

    /// two entries offered by a map access that claims `hint` entries
    pub fn foreign_map(hint: usize) -> String {
        use serde::de::{self, DeserializeSeed, Deserializer, IntoDeserializer, MapAccess, Visitor};
        struct D(usize);
        struct A {
            left: Vec<(&'static str, i64)>,
            hint: usize,
        }
        impl<'de> MapAccess<'de> for A {
            type Error = de::value::Error;
            fn next_key_seed<K: DeserializeSeed<'de>>(&mut self, seed: K) -> Result<Option<K::Value>, Self::Error> {
                match self.left.last() {
                    None => Ok(None),
                    Some((k, _)) => seed.deserialize((*k).into_deserializer()).map(Some),
                }
            }
            fn next_value_seed<V: DeserializeSeed<'de>>(&mut self, seed: V) -> Result<V::Value, Self::Error> {
                let (_, v) = self.left.pop().unwrap();
                seed.deserialize(v.into_deserializer())
            }
            fn size_hint(&self) -> Option<usize> {
                Some(self.hint)
            }
        }
        impl<'de> Deserializer<'de> for D {
            type Error = de::value::Error;
            fn deserialize_any<V: Visitor<'de>>(self, v: V) -> Result<V::Value, Self::Error> {
                v.visit_map(A { left: vec![("a", 2), ("b", 1)], hint: self.0 })
            }
            serde::forward_to_deserialize_any! {
                bool i8 i16 i32 i64 i128 u8 u16 u32 u64 u128 f32 f64 char str string bytes byte_buf option unit
                unit_struct newtype_struct seq tuple tuple_struct map struct enum identifier ignored_any
            }
        }
        match std::panic::catch_unwind(|| toml::Table::deserialize(D(hint))) {
            Err(_) => "PANIC".to_string(),
            Ok(Err(e)) => format!("Err({e})"),
            Ok(Ok(t)) => {
                let mut e: Vec<String> = t.iter().map(|(k, v)| format!("{k}={v:?}")).collect();
                e.sort();
                e.join(",")
            }
        }
    }

    #[derive(Deserialize, Debug)]
    #[allow(dead_code)]
    enum Shape {
        Unit,
        Square(i64),
        Circle { r: i64 },
        Pair(i64, String),
    }

    #[derive(Deserialize, Debug)]
    #[allow(dead_code)]
    struct Holder {
        shape: Shape,
        n: Option<i64>,
    }

    #[derive(Deserialize, Debug)]
    #[allow(dead_code)]
    struct Wide {
        a: Option<i64>,
        z: Option<String>,
        m: Option<Vec<Shape>>,
        #[serde(flatten)]
        rest: std::collections::BTreeMap<String, Value>,
    }

    /// a toml::Value decoded into derived types with `try_into`: verdict and decoded value
    pub fn into_types(rng: &mut Rng) -> String {
        let names = ["Square", "Circle", "Unit", "Pair", "Blob"];
        let payload = |rng: &mut Rng| -> Value {
            match rng.below(6) {
                0 => Value::Integer(rng.below(100) as i64),
                1 => {
                    let mut m = toml::Table::new();
                    m.insert("r".into(), Value::Integer(rng.below(100) as i64));
                    Value::Table(m)
                }
                2 => Value::Array(vec![Value::Integer(rng.below(100) as i64), Value::String("s".into())]),
                3 => Value::String("Unit".into()),
                4 => Value::Table(toml::Table::new()),
                _ => {
                    // position keys in order: with the keys out of order the verdict follows the
                    // table's iteration order, which is the documented effect of preserve_order
                    let mut m = toml::Table::new();
                    m.insert("0".into(), Value::Integer(0));
                    m.insert("1".into(), Value::String("one".into()));
                    Value::Table(m)
                }
            }
        };
        let mut en = toml::Table::new();
        let k = rng.below(4);
        let mut order: Vec<&str> = names.to_vec();
        rng.shuffle(&mut order);
        for name in order.into_iter().take(k) {
            en.insert(name.to_string(), payload(rng));
        }
        let v = if rng.chance(1, 5) { Value::String(names[rng.below(names.len())].to_string()) } else { Value::Table(en) };
        let a = match v.clone().try_into::<Shape>() {
            Ok(x) => format!("ok {x:?}"),
            Err(_) => "err".to_string(),
        };
        let mut holder = toml::Table::new();
        if rng.coin() {
            holder.insert("n".into(), Value::Integer(1));
        }
        holder.insert("shape".into(), v.clone());
        let b = match holder.clone().try_into::<Holder>() {
            Ok(x) => format!("ok {x:?}"),
            Err(_) => "err".to_string(),
        };
        let mut wide = toml::Table::new();
        for key in ["zz", "m", "a", "b", "z"] {
            if rng.coin() {
                wide.insert(key.to_string(), if key == "m" { Value::Array(vec![v.clone()]) } else if key == "a" { Value::Integer(3) } else { Value::String(key.to_string()) });
            }
        }
        let c = match Value::Table(wide).try_into::<Wide>() {
            Ok(x) => format!("ok {x:?}"),
            Err(_) => "err".to_string(),
        };
        format!("{a} / {b} / {c}")
    }
}

fn main() {
    let args: Vec<String> = std::env::args().collect();
    let seed: u64 = args.get(1).and_then(|s| s.parse().ok()).unwrap_or(0);
    let n_docs: u64 = args.get(2).and_then(|s| s.parse().ok()).unwrap_or(2000);
    let n_built: u64 = args.get(3).and_then(|s| s.parse().ok()).unwrap_or(1000);
    let deep = args.get(4).map(|s| s == "deep").unwrap_or(false);
    let corpus = refmodel::corpus::load(&refmodel::corpus::corpus_dir()).expect("corpus");

    // ---------- documents: generated, mutated, corpus
    for i in 0..n_docs {
        let mut rng = Rng::new(refmodel::rng::mix(&[seed, 0xD0C, i]));
        let text: String = match i % 4 {
            0 => String::from_utf8_lossy(&corpus[(i / 4) as usize % corpus.len()].bytes).into_owned(),
            1 | 2 => {
                let cfg = GenCfg::random(&mut rng);
                gen::gen_doc(&mut rng, cfg).text
            }
            _ => {
                let cfg = GenCfg::random(&mut rng);
                let base = gen::gen_doc(&mut rng, cfg).text.into_bytes();
                let other = corpus[rng.below(corpus.len())].bytes.clone();
                let m = gen::mutate(&mut rng, &base, &other);
                String::from_utf8_lossy(&m).into_owned()
            }
        };
        #[cfg(feature = "te-parse")]
        {
            match text.parse::<toml_edit::DocumentMut>() {
                Ok(doc) => {
                    println!("te-parse#{i} ok {}", h(&table_to_r(doc.as_table()).sorted().show()));
                    println!("te-parse-order#{i} {}", h(&table_to_r(doc.as_table()).show()));
                    #[cfg(feature = "te-display")]
                    println!("te-print#{i} {}", h(&doc.to_string()));
                }
                Err(e) => {
                    let limit = if e.message().contains("recursion limit") { " limit" } else { "" };
                    println!("te-parse#{i} err {:?}{limit}", e.span());
                    #[cfg(feature = "te-display")]
                    println!("te-error#{i} {}", h(&e.to_string()));
                }
            }
            match toml_edit::ImDocument::parse(text.as_str()) {
                Ok(doc) => println!("te-imparse#{i} ok {}", h(&table_to_r(doc.as_table()).sorted().show())),
                Err(e) => println!("te-imparse#{i} err {:?}", e.span()),
            }
        }
        #[cfg(all(feature = "te-parse", feature = "te-serde"))]
        {
            match toml_edit::de::from_str::<glue::D>(&text) {
                Ok(d) => println!("te-de#{i} ok {}", h(&d.0.sorted().show())),
                Err(e) => println!("te-de#{i} err {:?}", e.span()),
            }
        }
        #[cfg(feature = "t-parse")]
        {
            match toml::from_str::<toml::Value>(&text) {
                Ok(v) => {
                    println!("t-parse#{i} ok {}", h(&toml_value_to_r(&v).sorted().show()));
                    // preserve_order shows here: compared only between configurations with the same map
                    println!("t-parse-order#{i} {}", h(&toml_value_to_r(&v).show()));
                    #[cfg(feature = "t-display")]
                    {
                        println!("t-reprint-sorted#{i} {}", h(&toml_value_to_r(&toml::from_str::<toml::Value>(&toml::to_string(&v).unwrap()).unwrap()).sorted().show()));
                    }
                }
                Err(e) => {
                    // the verdict and the location are compared; the wording of the message is only shown
                    println!("t-parse#{i} err {:?}", e.span());
                    println!("t-parse-message#{i} {}", e.message().replace('\n', " | "));
                }
            }
            // the root's keys asked for together with their spans
            match toml::from_str::<std::collections::BTreeMap<toml::Spanned<String>, toml::Value>>(&text) {
                Ok(m) => println!("t-spanned-keys#{i} ok {}", h(&format!("{:?}", m.keys().map(|k| (k.get_ref().clone(), k.span())).collect::<Vec<_>>()))),
                Err(e) => println!("t-spanned-keys#{i} err {:?}", e.span()),
            }
        }
    }

    // ---------- built structures
    for i in 0..n_built {
        let mut rng = Rng::new(refmodel::rng::mix(&[seed, 0xB17, i]));
        let mut budget = *rng.pick(&[5, 12, 30]);
        let tree = gen::gen_tree(&mut rng, &mut budget, 0);
        let tb = build_table(&tree, 0);
        println!("te-built-tree#{i} {}", h(&table_to_r(&tb).show()));
        #[cfg(feature = "te-display")]
        {
            let doc: toml_edit::DocumentMut = tb.clone().into();
            println!("te-built-print#{i} {}", h(&doc.to_string()));
            let v = build_value(&RVal::Table(tree.clone()));
            println!("te-value-print#{i} {}", h(&v.to_string()));
        }
        #[cfg(all(feature = "te-serde", feature = "te-display"))]
        {
            match toml_edit::ser::to_string(&glue::S(&RVal::Table(tree.clone()))) {
                Ok(t) => println!("te-ser#{i} ok {}", h(&t)),
                Err(e) => println!("te-ser#{i} err {}", h(&e.to_string())),
            }
            match toml_edit::ser::to_string_pretty(&glue::S(&RVal::Table(tree.clone()))) {
                Ok(t) => println!("te-ser-pretty#{i} ok {}", h(&t)),
                Err(e) => println!("te-ser-pretty#{i} err {}", h(&e.to_string())),
            }
        }
        println!("expected-insertion-order#{i} {}", h(&RVal::Table(tree.clone()).show()));
        println!("expected-sorted-order#{i} {}", h(&RVal::Table(tree.clone()).sorted().show()));
        #[cfg(feature = "t")]
        {
            let v = r_to_toml_value(&RVal::Table(tree.clone()));
            println!("t-built-tree#{i} {}", h(&toml_value_to_r(&v).sorted().show()));
            println!("t-built-order#{i} {}", h(&toml_value_to_r(&v).show()));
            #[cfg(feature = "t-display")]
            {
                let text = toml::to_string(&v).unwrap_or_else(|e| format!("ERR {e}"));
                println!("t-ser#{i} {}", h(&text));
                println!("t-value-display#{i} {}", h(&v.to_string()));
                #[cfg(feature = "t-parse")]
                {
                    // order-insensitive comparison of what the text means
                    let back = toml::from_str::<toml::Value>(&text).map(|b| toml_value_to_r(&b).sorted().show()).unwrap_or_else(|e| format!("ERR {e}"));
                    println!("t-ser-meaning#{i} {}", h(&back));
                }
            }
        }
    }

    // ---------- toml::Table under call sequences, and toml::Value decoded into derived types
    #[cfg(feature = "t")]
    {
        for i in 0..n_built {
            let mut rng = Rng::new(refmodel::rng::mix(&[seed, 0x3A9, i]));
            let (results, sorted, order, model_order) = tmap::ops(&mut rng);
            println!("t-map-ops#{i} {}", h(&format!("{results}|{sorted}")));
            println!("t-map-order#{i} {}", h(&order));
            let mut so: Vec<&str> = model_order.iter().map(|s| s.as_str()).collect();
            println!("expected-map-insertion#{i} {}", h(&so.join(",")));
            so.sort();
            println!("expected-map-sorted#{i} {}", h(&so.join(",")));
        }
        for i in 0..n_built {
            let mut rng = Rng::new(refmodel::rng::mix(&[seed, 0x1E7, i]));
            println!("t-into#{i} {}", tmap::into_types(&mut rng));
        }
        // a toml::Table filled by another format's deserializer, whose length hint cannot be trusted
        for hint in [0usize, 2, 3, 1 << 20, usize::MAX / 64, usize::MAX] {
            println!("t-foreign-map#{hint} {}", tmap::foreign_map(hint));
        }
    }

    // ---------- recursion limit / unbounded
    #[cfg(feature = "te-parse")]
    {
        for depth in [10usize, 79, 80, 200] {
            let text = format!("a = {}1{}\n", "[".repeat(depth), "]".repeat(depth));
            let t2 = text.clone();
            let r = std::thread::Builder::new().stack_size(256 << 20).spawn(move || t2.parse::<toml_edit::DocumentMut>().is_ok()).unwrap().join().unwrap();
            println!("te-depth#{depth} {r}");
        }
        let _ = deep;
    }
    println!("done");
}
