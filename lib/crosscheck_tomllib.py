#!/usr/bin/env python3
"""Oracle cross-check (DESIGN.md 3.6): the reference decoder R against Python's tomllib.

  crosscheck_tomllib.py <refdump.jsonl>   -> one JSON summary on stdout

tomllib never judges the code under test; it is a second opinion on R. Its known deviations from
TOML 1.0.0 are whitelisted: no second 60, no year 0, float overflow -> inf, arbitrary-size
integers, permissive reading of U1-b, BOM refused, deep nesting -> RecursionError, fractional
seconds kept to microseconds."""
import json
import struct
import sys
import datetime as dt

try:
    import tomllib
except ImportError:  # pragma: no cover
    print(json.dumps({"error": "no tomllib"}))
    sys.exit(0)


def has_flag(tree, flag):
    if isinstance(tree, list):
        return any(has_flag(x, flag) for x in tree)
    if isinstance(tree, dict):
        if "type" in tree and "value" in tree and isinstance(tree.get("type"), str) and isinstance(tree.get("value"), str) and len(tree) <= 4:
            return bool(tree.get(flag))
        return any(has_flag(x, flag) for x in tree.values())
    return False


def is_leaf(t):
    return isinstance(t, dict) and isinstance(t.get("type"), str) and isinstance(t.get("value"), str) and set(t) <= {"type", "value", "sec60", "year0"}


def fmt_time(t):
    s = f"{t.hour:02}:{t.minute:02}:{t.second:02}"
    if t.microsecond:
        s += "." + f"{t.microsecond:06}".rstrip("0")
    return s


def trunc_micro(v):
    # R keeps up to 9 digits; tomllib keeps 6
    if "." not in v:
        return v
    head, frac = v.split(".", 1)
    digits = ""
    rest = ""
    for i, ch in enumerate(frac):
        if ch.isdigit():
            digits += ch
        else:
            rest = frac[i:]
            break
    digits = digits[:6].rstrip("0")
    return head + ("." + digits if digits else "") + rest


def same(exp, got, path=""):
    """exp: tagged tree from R; got: tomllib value. Returns None or a description."""
    if is_leaf(exp):
        t, v = exp["type"], exp["value"]
        if t == "string":
            return None if isinstance(got, str) and got == v else f"{path}: string {v!r} vs {got!r}"
        if t == "integer":
            return None if isinstance(got, int) and not isinstance(got, bool) and got == int(v) else f"{path}: integer {v} vs {got!r}"
        if t == "bool":
            return None if isinstance(got, bool) and got == (v == "true") else f"{path}: bool {v} vs {got!r}"
        if t == "float":
            if not isinstance(got, float):
                return f"{path}: float vs {got!r}"
            bits = int(v, 16)
            f = struct.unpack(">d", struct.pack(">Q", bits))[0]
            if f != f:
                return None if got != got else f"{path}: nan vs {got!r}"
            gb = struct.unpack(">Q", struct.pack(">d", got))[0]
            return None if gb == bits else f"{path}: float bits {bits:016x} vs {gb:016x}"
        if t == "date-local":
            return None if type(got) is dt.date and got.isoformat() == v else f"{path}: date {v} vs {got!r}"
        if t == "time-local":
            return None if isinstance(got, dt.time) and fmt_time(got) == trunc_micro(v) else f"{path}: time {v} vs {got!r}"
        if t in ("datetime-local", "datetime"):
            if not isinstance(got, dt.datetime):
                return f"{path}: datetime {v} vs {got!r}"
            s = f"{got.year:04}-{got.month:02}-{got.day:02}T{fmt_time(got.time())}"
            want = trunc_micro(v)
            if t == "datetime-local":
                ok = got.tzinfo is None and s == want
            else:
                if got.tzinfo is None:
                    return f"{path}: offset missing {v} vs {got!r}"
                off = int(got.utcoffset().total_seconds() // 60)
                if want.endswith("Z"):
                    ok = off == 0 and s == want[:-1]
                else:
                    sign = 1 if want[-6] == "+" else -1
                    woff = sign * (int(want[-5:-3]) * 60 + int(want[-2:]))
                    ok = off == woff and s == want[:-6]
            return None if ok else f"{path}: datetime {v} vs {got!r}"
        return f"{path}: unknown type {t}"
    if isinstance(exp, list):
        if not isinstance(got, list) or len(got) != len(exp):
            return f"{path}: array of {len(exp)} vs {got!r}"[:200]
        for i, (a, b) in enumerate(zip(exp, got)):
            d = same(a, b, f"{path}[{i}]")
            if d:
                return d
        return None
    if isinstance(exp, dict):
        if not isinstance(got, dict) or set(got) != set(exp):
            return f"{path}: keys {sorted(exp)} vs {sorted(got) if isinstance(got, dict) else got!r}"[:300]
        for k in exp:
            d = same(exp[k], got[k], f"{path}.{k}")
            if d:
                return d
        return None
    return f"{path}: unexpected {exp!r}"


def main(path):
    out = {"compared": 0, "agree_valid": 0, "agree_invalid": 0, "limit_or_u1_not_judged": 0, "whitelisted": {}, "disagreements": 0, "samples": []}

    def wl(k):
        out["whitelisted"][k] = out["whitelisted"].get(k, 0) + 1

    def bad(rec, what):
        out["disagreements"] += 1
        if len(out["samples"]) < 5:
            out["samples"].append({"i": rec["i"], "what": what[:300], "text": rec["text"][:300]})

    sys.setrecursionlimit(3000)
    for line in open(path, encoding="utf-8"):
        rec = json.loads(line)
        text, verdict = rec["text"], rec["verdict"]
        out["compared"] += 1
        try:
            got = tomllib.loads(text)
            err = None
        except tomllib.TOMLDecodeError as e:
            got, err = None, str(e)
        except RecursionError:
            got, err = None, "recursion"
        except ValueError as e:  # datetime range errors surface as ValueError in some versions
            got, err = None, "ValueError: " + str(e)
        if verdict.startswith("limit") or verdict.startswith("u1"):
            out["limit_or_u1_not_judged"] += 1
            continue
        if verdict == "valid":
            if err is not None:
                tree = rec.get("tree")
                if has_flag(tree, "sec60"):
                    wl("tomllib refuses second 60")
                elif has_flag(tree, "year0"):
                    wl("tomllib refuses year 0")
                elif err == "recursion":
                    wl("tomllib recursion limit")
                elif text.startswith("﻿"):
                    wl("tomllib refuses BOM")
                else:
                    bad(rec, f"R: valid; tomllib: {err}")
                continue
            d = same(rec["tree"], got)
            if d and "tree_nl" in rec:
                d = same(rec["tree_nl"], got)
            if d:
                bad(rec, f"both accept, trees differ: {d}")
            else:
                out["agree_valid"] += 1
        else:  # invalid
            if err is None:
                bad(rec, f"R: invalid ({rec['reason']}); tomllib accepts")
            else:
                out["agree_invalid"] += 1
    print(json.dumps(out, ensure_ascii=False))


if __name__ == "__main__":
    main(sys.argv[1])
