#!/bin/bash
# usage: verify_mutant.sh <worktree> <i>   -- confirms a seeded mutation in its scratch worktree:
#   clean tree: demo passes; patched tree: test suite passes, demo fails.
WT=$1; I=$2; M=$WT/_mutation
export CARGO_TARGET_DIR=$WT/target CARGO_NET_OFFLINE=true
cd $WT || exit 9
git checkout -q -- . 
run_demo() {
  if [ -d $M/demo$I ]; then (cd $M/demo$I && cargo run --offline -q >/tmp/demo.out 2>&1); return $?; fi
  return 99
}
run_demo; CLEAN=$?
git apply $M/patch$I.diff || { echo "patch does not apply"; exit 8; }
TESTS=$(cargo test --workspace --offline 2>&1 | awk '/^test result/ {p+=$4; f+=$6} /^error/ {e=1} END {print "passed="p" failed="f" err="e+0}')
run_demo; MUT=$?
git checkout -q -- .
echo "demo-on-clean=$CLEAN demo-on-mutant=$MUT suite: $TESTS"
