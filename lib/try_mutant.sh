#!/bin/bash
# usage: try_mutant.sh <patch.diff> <Cxx> [Cyy ...] -- applies a seeded mutation to /repo, runs the quick checks, reverts
P=$1; shift
git -C /repo diff --quiet || { echo "/repo is dirty"; exit 9; }
git -C /repo apply "$P" || { echo "patch does not apply"; exit 8; }
cd /verif
for c in "$@"; do
  ./check $c --tier quick > /tmp/mut-$c.log 2>&1; rc=$?
  echo "  $c rc=$rc $(grep -c '^VIOLATION' /tmp/mut-$c.log) violation(s): $(grep -A1 '^VIOLATION' /tmp/mut-$c.log | grep signature | head -3 | sed 's/  signature: //' | tr '\n' ';')"
done
git -C /repo checkout -- .
