"""Per-property metadata used by ./check when writing evidence."""

COMMON = [
    "the reference decoder R (harness/refmodel) is a faithful transcription of toml.abnf v1.0.0 and the prose rules; it is re-validated against the toml-test 1.0.0 corpus on every run",
    "runtime monitoring: the verdict covers only the executions produced by this run's workloads",
]

HOOK_COMMITS = ["3a5cfdb", "3d9cea6", "aa3025e"]

NOT_APPLICABLE = {}

PROPS = {
    "C01": {
        "claimed": True,
        "technique": "reference-model monitor (independent ABNF/definition-rule decoder) + differential monitor over five entry points, on generated/mutated/corpus/sweep workloads",
        "level_text": "every generated, mutated, corpus and sweep text is executed through all five document entry points of the real code; an independent reference decoder decides validity and a differential monitor demands agreement between entry points. Held-on-observed-executions assurance; the evidence lists productions, byte-class cells and reject reasons actually exercised",
        "level_note": "trusted: the reference decoder R (re-validated against the toml-test corpus each run); U1 classes and documented limits are outside the claim",
        "rule": "cases: toml-test corpus files, exhaustive slot x byte-class sweep, grammar-rendered documents, 1-3 byte/token mutations of rendered and corpus documents, near-miss number/date lexemes; each judged by R and by all five document entry points. distinct = content hash of the text; non-trivial = R-valid with >= 2 statements or >= 4 distinct ABNF productions, or R-invalid and produced by mutation/sweep (i.e. close to a valid text). U1 and limit texts are counted separately and not judged for validity",
        "assumptions": COMMON + ["texts in class U1 (DESIGN 3.3) and beyond documented limits (3.4) are outside the validity claim; entry-point agreement is still checked on them"],
    },
    "C02": {
        "claimed": True,
        "po": ["--frac", "2"],
        "technique": "reference-model monitor: constructive expected tree from the document generator + independent reference decoder, compared with five observers of the real decoders",
        "level_text": "for every accepted text five observers of the real code (DocumentMut walk, ImDocument walk, toml::from_str into Table and Value, toml_edit::de) are converted to plain trees and compared, scalar by scalar and key order included, with the tree the generator built the text from and with the reference decoder's tree; exhaustive sub-sweeps cover \\uXXXX for every BMP scalar, continuation sequences, closing-quote cases, underscore placements, fractional-second lengths; float halfway literals are judged by exact big-integer rounding",
        "level_note": "trusted: reference decoder R and its big-integer float rounding (cross-checked with the constructive oracle on every rendered document; disagreement is INCONCLUSIVE). Latitude per DESIGN 3.5 only",
        "rule": "cases: corpus, exhaustive escape/continuation/quote/underscore/secfrac sweeps, halfway float literals, rendered documents (expected tree known by construction), mutation survivors. distinct = text hash; non-trivial = accepted text containing at least one scalar",
        "assumptions": COMMON + ["CR LF inside multi-line strings may decode as LF or CR LF (per document consistently); NaN compared by NaN-ness; super-table-after-sub-table may sit at either of two positions"],
    },
    "C03": {
        "claimed": True,
        "technique": "reference-model monitor: normal form N(t) computed from the reference lexer, compared byte-for-byte with parse-then-print of the real code; relational monitors for validity, data, comments and fixed point of the print",
        "level_text": "every valid workload text is parsed and printed by the real code; the print must equal the normal form computed independently from R's token stream (BOM dropped, CR of CR LF dropped outside multi-line strings, final newline added) whenever dotted prefixes are adjacent and table names are stably spelled, and in all cases must be valid, decode to the same data, keep every comment and be a fixed point",
        "level_note": "trusted: R's lexer for N(t), the stable-spelling and adjacency predicates. One known deviation (prefix-key-respelling, D12) is matched by an exact signature: difference confined to re-spelled key-path regions that decode to the same keys",
        "rule": "cases: corpus, rendered documents with unique comments/whitespace in every trivia slot, the same with LF->CRLF on random line ends / BOM / dropped final newline, mutation survivors. distinct = text hash; non-trivial = valid text with >= 2 statements on which exact equality with N(t) was demanded",
        "assumptions": COMMON + ["exact equality is demanded only when keys sharing a dotted prefix are adjacent (the property's own precondition), decided by R"],
    },
    "C04": {
        "claimed": True,
        "technique": "panic/abort/stack/hang monitors over hostile byte workloads in three build profiles, invariant hook H1 at every from_utf8_unchecked site; thorough adds AddressSanitizer, Miri and callgrind instruction-count scaling",
        "level_text": "hostile byte strings (floods, truncations, heavy mutations, invalid UTF-8 of every class, extreme scalars, byte-class sweep) are pushed through every entry point and every follow-up use of the result under a panic monitor, a process-death monitor with in-flight attribution, hook H1 validating the bytes at every unchecked-UTF-8 site in the release build, and a work-screening monitor; builds: release+assertions, plain release, debug",
        "level_note": "trusted: the monitors themselves; a clean run means no panic/abort/invalid-UTF-8 event was observed on these executions, not memory safety in general (ASan/Miri in the thorough tier narrow that gap for the reached paths)",
        "rule": "cases: corpus, slot x byte-class sweep (incl. invalid UTF-8 classes), corpus truncations, floods of one token up to 8 KiB, extreme numbers/dates, 4-30 stacked mutations, light mutations, rendered documents, random bytes, single-value/key/date-time fragments; each input is one evaluation driving ~20 entry points and their follow-ups. distinct = content hash of the input; every hostile input counts as non-trivial",
        "assumptions": COMMON + ["wall-clock is only used for screening, never as a verdict; bounded work is judged by deterministic instruction counts (callgrind) in the thorough tier"],
    },
    "C09": {
        "claimed": True,
        "technique": "reference-model monitor: exhaustive small-scope enumeration of statement sequences executed by the real parsers and judged by an explicit definition-rule state machine",
        "level_text": "all sequences of up to 3 statements (thorough: 4 over the core set) out of 98 over key paths of length <= 3 on {a,b}, in bare/quoted/mixed spellings, plus random longer sequences over three letters, are parsed by DocumentMut and toml::Table; accept/reject and the merged tree are compared with the definition-rule model written from the specification's prose; U1-b sequences are skipped and counted",
        "level_note": "trusted: the definition-rule model of refmodel (three readings; agreement required for a verdict). The enumeration is exhaustive for the stated bounds but is still execution + monitoring, not proof",
        "rule": "cases: every sequence of 1, 2 and 3 statements from the 98-statement set (exhaustive), thorough adds every 4-sequence over 56 core statements; random sequences of 4-8 statements over {a,b,c}. distinct = text hash; non-trivial = sequences with >= 2 statements",
        "assumptions": COMMON + ["U1-b (dotted key into a header-implicit table) is undecided by the specification and skipped"],
    },
    "C10": {
        "claimed": True,
        "technique": "relational round-trip monitor with an independent reference lexer: every offered quoting style of every enumerated string is parsed back alone and inside documents",
        "level_text": "for every string of length <= 4 (thorough <= 6) over a 14-class alphabet and for random long strings with quote runs, every style the writer offers for values and keys is parsed by the real value/key/document parsers and by R, and must decode to exactly the string; refused styles are counted; a default must exist and be one of the offered styles",
        "level_note": "trusted: R's string/key lexer. Exhaustive for the alphabet and length bounds given",
        "rule": "cases: all strings over {quote, apostrophe, backslash, LF, CR, TAB, space, NUL, U+0001, DEL, #, a, e-acute, emoji} up to the length bound (exhaustive) + random long strings with runs of quotes up to 300; each string is one evaluation exercising up to 10 value styles and 7 key styles in 4+4 syntactic positions. distinct = the string; all are non-trivial",
        "assumptions": COMMON,
    },
    "C11": {
        "claimed": True,
        "technique": "relational round-trip monitors over every number writer and parser, with exact 128-bit / big-integer arithmetic as the reference for range and rounding",
        "level_text": "every writer (toml_write for i8..u128/f32/f64, toml_edit::Value::from, toml::Value Display, the four serializers) is run on boundary and random bit patterns; the text must lex for R as the same TOML type, and R and three real parse routes must read back the identical value (bit-for-bit, NaN by NaN-ness); literal spellings around the i64 and f64 range edges in all bases/signs are accepted iff exact arithmetic says in range; serde integer conversions in both directions must be exact or fail",
        "level_note": "trusted: R's integer evaluation (128-bit) and exact decimal->double rounding (big integers, no use of str::parse::<f64>)",
        "rule": "cases: i64 boundaries (all 2^k, 2^k+-1, min/max) exhaustively + random; i128 values around 2^63/2^64/2^127; f64 specials, 10^k and neighbours for every k, uniform bit patterns, uniform decimal exponents, integral floats up to 1e308; f32 bit patterns; literals at the range edges in bases 2/8/10/16 with signs, zeros, underscores; floats around the overflow threshold (exact midpoint between MAX and 2^1024 and its neighbours) with +,- and no sign; TOML integers into 12 narrower serde targets. distinct = value/literal hash; all non-trivial",
        "assumptions": COMMON + ["f32: parse-back is judged by whether the read value lies in the rounding interval of the f32 (midpoints are exact doubles)"],
    },
    "C12": {
        "claimed": True,
        "technique": "three-way relational monitor (standalone FromStr, document/value parser, independent date-time grammar) over exhaustive field lattices and mutants; print/parse round-trip monitor",
        "level_text": "every string of the exhaustive field lattices (years x months 00-13 x days 00-32, hours 00-25 x minute/second edges x 0-13 fraction digits, offsets +-00-25:{00,59,60,99}, delimiters T/t/space, Z/z) and several hundred thousand substitution/insertion/deletion/truncation mutants of valid strings is given to Datetime::from_str, Value::from_str, a document and R's grammar; all verdicts and fields must agree. Every in-range Datetime (parsed or struct literal) is printed, read back by both parsers and by R, and printed again",
        "level_note": "trusted: refmodel::parse_datetime (strict ABNF + range rules, leap years, second 60 allowed)",
        "rule": "cases: lattice strings (exhaustive), random crosses of lattice fields, rendered valid date-times in every spelling, 1-2 step mutants over the alphabet 0-9 - : . + T t Z z space; printed values from the lattices, from parsing, and from struct literals with in-range fields. distinct = string / value hash; all non-trivial",
        "assumptions": COMMON + ["strings with a leading or trailing blank are compared only between Datetime::from_str and the grammar (inside a document the blank is not part of the token)"],
    },
    "C05": {
        "claimed": True,
        "technique": "process-level stack monitor: every nesting recipe is executed by a child process on a 2 MiB thread in a debug and a release build, stage by stage; hook H2 reports the parser's own recursion counter next to the measured tree depth",
        "level_text": "nesting recipes (arrays, inline tables, dotted keys at top level and inside inline tables, header and array-of-tables paths; singly, additively and multiplicatively, at depths 1..5000) are parsed, measured, printed, debug-printed, cloned, dropped, re-parsed and deserialized by child processes on a 2 MiB stack in debug and release builds; the parent observes exit status and last stage. Accepted documents must have container depth <= 320; single constructs nested <= 79 must be accepted",
        "level_note": "trusted: the child-process monitor and the iterative depth measurement; D = 4 x LIMIT is the concrete 'small constant'",
        "rule": "cases: 54 single-construct recipes (6 constructs x depths 1,2,40,78,79,80,81,300,5000), ~250 pair recipes (multiplicative inline x dotted, additive pairs at depths 2..300), random compositions of up to 4 constructs; each recipe runs in 2 build profiles x ~16 stages. distinct = recipe string; all non-trivial",
        "assumptions": COMMON + ["inputs are kept below 64 KiB"],
    },
    "C14": {
        "claimed": True,
        "technique": "reference-model monitor: every span reported by ImDocument and delivered through serde (Spanned values and keys) is compared with the token spans of the independent reference lexer; containment, re-parse and into_mut monitors",
        "level_text": "for every valid workload text each Key/Value/Table/ArrayOfTables span of the ImDocument must be in bounds, on character boundaries and equal to the span R's lexer assigns (scalar/array/inline table: the token; table: header start to the section's last value; array of tables: first to last element); children lie in their parents; the spanned slice re-parses to the same key/value; a Spanned-wrapping recursive target decoded through toml::from_str must deliver exactly the item spans for values and keys and the same value as without Spanned; after into_mut no span survives",
        "level_note": "trusted: R's token spans; table-name keys are accepted at any of their occurrences (one Key per table, see D12)",
        "rule": "cases: corpus, rendered documents with multi-byte characters, BOM, CRLF, comments/whitespace around every token, nested containers, dotted keys, headers and arrays of tables; mutation survivors. distinct = text hash; non-trivial = documents on which at least 3 spans were compared",
        "assumptions": COMMON,
    },
    "C15": {
        "claimed": True,
        "technique": "invariant monitor over every error value produced by hostile inputs (message, span, rendering) with an independent line/column computation; planted type mismatches with known key paths and spans",
        "level_text": "every rejection produced by six parse routes on mutated, truncated, swept and near-miss inputs (with multi-byte characters placed before and at the error position, and errors at end of input with and without a final newline) must carry a non-empty message, a span inside the text on character boundaries, render without panicking, and print the line and column that an independent character-counting computation derives from the span start",
        "level_note": "trusted: the independent line/column rule of DESIGN C15 (characters, 1-based; at end of input the last character advanced by one column)",
        "rule": "cases: corpus (invalid half), slot x byte-class sweep, truncations of corpus and rendered documents at arbitrary bytes, 1-3 mutations, near-miss lexemes, synthetic multi-byte error documents. Each rejected input is one evaluation judging up to 6 error values. distinct = text hash; non-trivial = rejected inputs",
        "assumptions": COMMON,
    },
    "C06": {
        "claimed": True,
        "technique": "reference-model round-trip monitor: random value trees are realised through randomly chosen construction-API routes, printed, and the print is decoded by the independent reference decoder and by the real parser; purity monitor on repeated prints",
        "level_text": "random trees with adversarial keys, strings, integers, floats and date-times are assembled through Table/InlineTable/Array/ArrayOfTables/Value/Key constructors, From impls, entry/IndexMut/extend routes (toml_edit) and insert/From (toml::Table/Value); the print must be valid for R, decode (R and real parser) to the built tree with element order exact and key order exact up to the values-before-tables partition TOML forces, and print identically twice and from a clone",
        "level_note": "trusted: R; the expected order is computed by the harness from the container kinds it chose",
        "rule": "cases: random trees (1-60 nodes; tables, arrays, arrays of tables, inline tables nested up to 6) built through random API routes; toml::Table/Value built from the same trees; single values and keys. distinct = tree hash; all non-trivial. Not generated (outside the quantifier): raw decor setters, set_dotted/implicit/position, Table items inside values, Item::None, empty ArrayOfTables",
        "assumptions": COMMON,
    },
    "C16": {
        "claimed": True,
        "po": ["--only", "toml::Map"],
        "technique": "history monitor with an executable reference model: random call histories on each container are replayed against a plain ordered map / vector and every return value and a full observation are compared after every call",
        "level_text": "histories of 1-60 calls with keys from a 4-letter alphabet (frequent collisions) on Table, InlineTable, both behind dyn TableLike, Array, ArrayOfTables and toml::Map (sorted build and, in a second phase, the preserve_order build) are executed against the real containers and against a Vec-backed reference; after every call the return value and len/is_empty/iter/into_iter/get/contains_key/get_key_value for every key and the decoded printed text are compared; placeholders left by mutable indexing must stay invisible",
        "level_note": "trusted: the reference ordered map (about 150 lines). Tolerances: Some(Item::None) reads as absent; the position of a placeholder that is filled later is not compared",
        "rule": "cases: random call histories per container type (insert, insert_formatted, remove, remove_entry, get_mut, entry or_insert/or_insert_with/insert/remove, entry_format, get_or_insert, retain, sort_values(_by), clear, mutable indexing read/assign/nested assign, extend, iter_mut, key; push/insert/replace/remove/retain/sort/extend for arrays). distinct = history hash; all non-trivial",
        "assumptions": COMMON,
    },
    "C20": {
        "claimed": True,
        "technique": "trace monitor: a recording visitor logs (method, node address) for every callback and the log is compared, as a sequence, with an independent pre-order walk through public accessors; rewriting visitors are compared with a model transform of the decoded tree",
        "level_text": "for every parsed (corpus, rendered) and API-built document the default Visit and VisitMut walks are recorded by visitors that override all 14 methods and delegate; the recorded sequence of (method, node address, key) must equal the sequence an independent walk through iter()/as_*/get_key_value produces - exactly once per node, in document order; a VisitMut that rewrites every scalar of one type must be called once per such scalar and yield exactly the model transform of the tree, also after print and re-parse",
        "level_note": "trusted: the independent walk (public accessors only). Document order = the order iter() yields, which is what the printer uses",
        "rule": "cases: corpus documents, rendered documents (nested arrays / inline tables / arrays of tables / dotted and implicit tables), API-built documents; one of five scalar types rewritten per case. distinct = printed text hash; non-trivial = documents with at least 8 callbacks",
        "assumptions": COMMON,
    },
}
