"""Per-property metadata used by ./check when writing evidence."""

COMMON = [
    "the reference decoder R (harness/refmodel) is a faithful transcription of toml.abnf v1.0.0 and the prose rules; it is re-validated against the toml-test 1.0.0 corpus on every run",
    "runtime monitoring: the verdict covers only the executions produced by this run's workloads",
]

HOOK_COMMITS = []

NOT_APPLICABLE = {}

PROPS = {
    "C01": {
        "claimed": True,
        "technique": "reference-model monitor (independent ABNF/definition-rule decoder) + differential monitor over five entry points, on generated/mutated/corpus/sweep workloads",
        "level_text": "every generated, mutated, corpus and sweep text is executed through all five document entry points of the real code; an independent reference decoder decides validity and a differential monitor demands agreement between entry points. Held-on-observed-executions assurance; the evidence lists productions, byte-class cells and reject reasons actually exercised",
        "level_note": "trusted: the reference decoder R (re-validated against the toml-test corpus each run); U1 classes and documented limits are outside the claim",
        "rule": "cases: toml-test corpus files, exhaustive slot x byte-class sweep, grammar-rendered documents, 1-3 byte/token mutations of rendered and corpus documents, near-miss number/date lexemes; each judged by R and by all five document entry points. distinct = content hash of the text; non-trivial = R-valid with >= 2 statements or >= 4 distinct ABNF productions, or R-invalid and produced by mutation/sweep (i.e. close to a valid text). U1 and limit texts are counted separately and not judged for validity",
        "assumptions": COMMON + ["texts in class U1 (DESIGN 3.3) and beyond documented limits (3.4) are outside the validity claim; entry-point agreement is still checked on them"],
    },
}
