"""C05: the worker spawns child processes of a dev and a release build of the same binary."""
import os


def run(run, binary, drv):
    dev = drv.build("dev")
    rel = drv.build("release")
    if not dev or not rel:
        run.inconclusive.append("dev/release child build failed")
        return
    os.environ["VCHECK_DEV"] = dev
    os.environ["VCHECK_RELEASE"] = rel
    drv.standard_phase(run, binary, phase="recipes")
