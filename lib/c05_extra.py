"""C05: the worker spawns child processes of a dev and a release build of the same binary."""
import os


def run(run, binary, drv):
    dev = drv.build("dev")
    rel = drv.build("release")
    if not dev or not rel:
        run.inconclusive.append("dev/release child build failed")
        return
    os.environ["VCHECK_DEV"] = dev
    os.environ["VCHECK_RELEASE"] = rel
    # a third child: release with toml_edit's `perf` feature (a performance switch must not touch the limit)
    perf = drv.build("release", features=["perf"], target_dir=os.path.join(drv.HARNESS, "target-perf"))
    if perf:
        os.environ["VCHECK_PERF"] = perf
    else:
        run.inconclusive.append("the perf build of the child failed")
    drv.standard_phase(run, binary, phase="recipes")
