#!/bin/bash
# usage: lib/regress_mutants.sh [pattern]  -- applies every seeded mutation in turn to /repo, runs the quick check that is
# recorded as detecting it, reverts; one line per mutation. Needs a clean /repo; leaves it clean.
cd /verif
git -C /repo diff --quiet || { echo "/repo is dirty"; exit 9; }
for d in /verif/seeded/${1:-*}/; do
  m=$(basename $d)
  # the check named first in meta.json's detected_by (a few mutations are outside their own property's workload)
  c=$(python3 -c "import json,sys; print(json.load(open(sys.argv[1]))['detected_by'][0].split(':')[0])" $d/meta.json)
  git -C /repo apply $d/patch.diff || { echo "$m patch does not apply"; continue; }
  timeout 3000 ./check $c --tier quick > /verif/evidence/work/regress-$m.log 2>&1; rc=$?
  git -C /repo checkout -- .
  echo "$m rc=$rc $(grep -A1 '^VIOLATION' /verif/evidence/work/regress-$m.log | grep signature | head -2 | sed 's/  signature: //' | tr '\n' ';')"
done
