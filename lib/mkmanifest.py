#!/usr/bin/env python3
"""Regenerates /verif/MANIFEST.json from lib/props.py (claimed checks) and properties.jsonl."""
import json, os, subprocess, sys
HERE = os.path.dirname(os.path.abspath(__file__))
VERIF = os.path.dirname(HERE)
sys.path.insert(0, HERE)
from props import PROPS, HOOK_COMMITS, NOT_APPLICABLE

ids = [json.loads(l)["id"] for l in open(os.path.join(VERIF, "properties.jsonl"))]
checks = []
na = []
for pid in ids:
    m = PROPS.get(pid)
    if m and m.get("claimed"):
        checks.append({
            "property_id": pid,
            "quick_cmd": f"./check {pid} --tier quick",
            "thorough_cmd": f"./check {pid} --tier thorough",
            "evidence_file": f"evidence/{pid}.json",
            "replay_cmd_template": f"./check {pid} --replay {{path}}",
            "engine": "vcheck",
            "level_claimed": {"category": "exploration", "text": m["level_text"], "design_ref": m.get("design_ref", f"DESIGN.md section 4, {pid}")},
            "level_note": m["level_note"],
            "technique": m["technique"],
        })
    else:
        na.append({"property_id": pid, "reason": NOT_APPLICABLE.get(pid, "check not built yet (build in progress; see DESIGN.md section 8)")})
manifest = {
    "version": 1,
    "setup_cmd": "./check setup",
    "hooks": {
        "guard": "toml_rs_toml_verif",
        "enable": "RUSTFLAGS=\"--cfg toml_rs_toml_verif\" (set by ./check for every harness build; /repo's Cargo.toml files are untouched)",
        "baseline_off_cmd": "cd /repo && cargo test --workspace --no-fail-fast --offline",
        "source_commits": HOOK_COMMITS,
        "add_only": True,
    },
    "engines": [
        {"name": "vcheck", "path": "harness/vcheck", "serves_properties": [c["property_id"] for c in checks], "kind_free_text": "Rust monitor binary built against /repo's working tree by path dependencies: reference-model, differential and relational monitors, panic/abort/stack monitors, hook counters; driven by ./check (python3) which shards the workloads over 16 processes, attributes crashes, matches known findings and writes evidence"},
        {"name": "refmodel", "path": "harness/refmodel", "serves_properties": [c["property_id"] for c in checks], "kind_free_text": "independent reference decoder R (toml.abnf v1.0.0 transcription, definition-rule model, exact big-integer float rounding), workload generators and mutators; shares no code with toml-rs/toml"},
    ],
    "checks": checks,
    "not_applicable": na,
    "notes": "Runtime monitoring and sanitizers only. Exit codes: 0 held on everything explored, 1 VIOLATION, 2 INCONCLUSIVE (never a verdict). Known findings: KNOWN_FINDINGS.txt.",
}
json.dump(manifest, open(os.path.join(VERIF, "MANIFEST.json"), "w"), indent=1)
print(f"claimed {len(checks)}, not claimed {len(na)}")
