#!/usr/bin/env python3
"""prints the markdown table of /verif/seeded for DESIGN.md section 9"""
import glob, json, os
print("| mutation | changed | needs, to manifest | detected by (check: signature) |")
print("|---|---|---|---|")
def order(p):
    n = os.path.basename(os.path.dirname(p))
    return (n.split("-m")[0], int(n.split("-m")[1]))


for d in sorted(glob.glob("/verif/seeded/*/meta.json"), key=order):
    m = json.load(open(d))
    name = os.path.basename(os.path.dirname(d))
    files = "; ".join(f.split("|")[0].strip().replace("crates/", "") for f in m["files_changed"])
    det = "; ".join(f"`{x}`" for x in m["detected_by"])
    print(f"| {name} | `{files}` | {m['needs_to_manifest']} | {det} |")
