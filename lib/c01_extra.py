"""C01 extra phase: coverage-guided inputs over the reference-decoder oracle (thorough)."""


def run(run, binary, drv):
    drv.standard_phase(run, binary)
    if run.tier == "thorough":
        import sanphase

        sanphase.fuzz_phase(run, drv, binary, 900, "C01")
