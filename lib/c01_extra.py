"""C01 extra phases (thorough): oracle cross-check against tomllib; coverage-guided inputs."""
import json
import os
import subprocess
import sys
from concurrent.futures import ThreadPoolExecutor


def crosscheck(run, binary, drv, chunks=16, per=20000):
    """DESIGN.md 3.6: the reference decoder R and Python's tomllib on generated, mutated and
    near-miss texts. tomllib judges R, never the code under test: a disagreement outside tomllib's
    known deviations is an oracle alarm (INCONCLUSIVE), not a violation."""
    outdir = os.path.join(drv.WORK, "C01-crosscheck")
    os.makedirs(outdir, exist_ok=True)

    def one(k):
        f = os.path.join(outdir, f"ref-{k}.jsonl")
        a = subprocess.run([binary, "refdump", str(run.seed), str(k * per), str(per), f], cwd=drv.VERIF, env=drv.env_offline())
        if a.returncode != 0:
            return {"error": f"refdump exit {a.returncode}"}
        b = subprocess.run([sys.executable, os.path.join(drv.VERIF, "lib", "crosscheck_tomllib.py"), f], stdout=subprocess.PIPE, stderr=subprocess.PIPE, text=True)
        os.unlink(f)
        try:
            return json.loads(b.stdout)
        except ValueError:
            return {"error": f"comparator failed: {b.stderr[-300:]}"}

    with ThreadPoolExecutor(max_workers=16) as ex:
        res = list(ex.map(one, range(chunks)))
    tot = {"compared": 0, "agree_valid": 0, "agree_invalid": 0, "limit_or_u1_not_judged": 0, "disagreements": 0, "whitelisted": {}}
    for r in res:
        if "error" in r:
            run.inconclusive.append(f"[crosscheck] {r['error']}")
            continue
        for k in ("compared", "agree_valid", "agree_invalid", "limit_or_u1_not_judged", "disagreements"):
            tot[k] += r[k]
        for k, v in r["whitelisted"].items():
            tot["whitelisted"][k] = tot["whitelisted"].get(k, 0) + v
        for s in r["samples"][:2]:
            run.inconclusive.append(f"[crosscheck] reference decoder and tomllib disagree on text #{s['i']}: {s['what']} :: {s['text']!r}")
    run.extra_cov["oracle_crosscheck_tomllib"] = tot
    run.phases.append("oracle-crosscheck")


def run(run, binary, drv):
    drv.standard_phase(run, binary)
    if run.tier == "thorough":
        import sanphase

        crosscheck(run, binary, drv)
        sanphase.fuzz_phase(run, drv, binary, 900, "C01")
