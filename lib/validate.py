#!/usr/bin/env python3
import json, glob, sys
import jsonschema
ms = json.load(open('/root/.vp/MANIFEST.schema.json'))
es = json.load(open('/root/.vp/EVIDENCE.schema.json'))
jsonschema.validate(json.load(open('/verif/MANIFEST.json')), ms)
n = 0
for f in glob.glob('/verif/evidence/C*.json'):
    jsonschema.validate(json.load(open(f)), es)
    n += 1
print('manifest ok; evidence files ok:', n)
