"""C19: generate Rust programs embedding documents in toml!{..} and as text; compile, run, compare."""
import os
import re
import shutil
import subprocess
import time
from concurrent.futures import ThreadPoolExecutor


def number_like_bare_key(text):
    """does a key of this document have a bare segment that Rust lexes as a number? (finding D30)"""
    for ln in text.splitlines():
        key = ln.strip()
        if key.startswith("["):
            key = key.strip("[] ")
        else:
            key = key.split(" =")[0]
        key = re.sub(r'"(\\.|[^"\\])*"', "Q", key)
        if re.search(r"(^|[.\-\s])\d", key):
            return True
    return False


def run(run, binary, drv):
    n_prog, per = (64, 250) if run.tier == "quick" else (768, 250)
    out = os.path.join(drv.HARNESS, "target-macro", "prog")
    if os.path.isdir(os.path.join(out, "src")):
        shutil.rmtree(os.path.join(out, "src"))
    os.makedirs(out, exist_ok=True)
    p = subprocess.run([binary, "macrogen", str(run.seed), str(n_prog), str(per), out], cwd=drv.VERIF, stdout=subprocess.PIPE, stderr=subprocess.STDOUT, text=True)
    if p.returncode != 0:
        run.inconclusive.append(f"macrogen failed: {p.stdout[-500:]}")
        return
    shutil.copy(os.path.join(drv.HARNESS, "Cargo.lock"), os.path.join(out, "Cargo.lock"))
    t0 = time.time()
    b = subprocess.run(["cargo", "build", "--offline", "--bins", "--target-dir", os.path.join(drv.HARNESS, "target-macro", "target")], cwd=out, env=drv.env_offline(), stdout=subprocess.PIPE, stderr=subprocess.STDOUT, text=True)
    # the same programs with toml's insertion-ordered map (a quarter of them in the quick tier)
    n_po = n_prog if run.tier != "quick" else max(1, n_prog // 4)
    bpo = subprocess.run(["cargo", "build", "--offline", "--features", "po", "--target-dir", os.path.join(drv.HARNESS, "target-macro", "target-po")] + sum([["--bin", f"p{i}"] for i in range(n_po)], []), cwd=out, env=drv.env_offline(), stdout=subprocess.PIPE, stderr=subprocess.STDOUT, text=True)
    drv.log(f"[C19] compiled {n_prog} programs x {per} documents (+{n_po} with preserve_order) in {time.time()-t0:.0f}s")
    if b.returncode == 0 and bpo.returncode != 0:
        run.inconclusive.append(f"the preserve_order build of the generated programs failed: {bpo.stdout[-600:]}")
    if b.returncode != 0:
        # attribute the compile error to a document: error locations point into src/bin/pN.rs
        locs = re.findall(r"--> src/bin/(p\d+)\.rs:(\d+):", b.stdout)
        seen = set()
        for prog, line in locs[:20]:
            src = open(os.path.join(out, "src", "bin", prog + ".rs")).read().split("\n")
            doc = None
            for i in range(int(line) - 1, -1, -1):
                m = re.match(r"// DOC (\d+)", src[i])
                if m:
                    doc = int(m.group(1))
                    break
            if doc is None or doc in seen:
                continue
            seen.add(doc)
            text = subprocess.run([binary, "macrodoc", str(run.seed), str(doc)], stdout=subprocess.PIPE, text=True).stdout
            run.violations.append({"sig": "macro-does-not-compile", "detail": f"document {doc} no longer compiles inside toml!{{..}}: {b.stdout[b.stdout.find('error'):][:600]}", "workload": "macro", "index": doc, "input": text, "phase": "compile"})
        if not seen:
            run.inconclusive.append(f"generated programs do not build: {b.stdout[-800:]}")
        return
    bins = [os.path.join(drv.HARNESS, "target-macro", "target", "debug", f"p{i}") for i in range(n_prog)]
    if bpo.returncode == 0:
        bins += [os.path.join(drv.HARNESS, "target-macro", "target-po", "debug", f"p{i}") for i in range(n_po)]

    def go(path):
        r = subprocess.run([path], stdout=subprocess.PIPE, stderr=subprocess.PIPE, text=True, timeout=600)
        return r.returncode, r.stdout, r.stderr

    with ThreadPoolExecutor(max_workers=16) as ex:
        outs = list(ex.map(go, bins))
    docs = 0
    mism = 0
    shapes = {}
    for rc, so, se in outs:
        if rc != 0:
            run.violations.append({"sig": "macro-program-died", "detail": f"exit {rc}: {se[-600:]}", "workload": "macro", "index": 0, "input": None, "phase": "run"})
            continue
        for ln in so.splitlines():
            if ln.startswith("DONE"):
                docs += int(re.search(r"docs=(\d+)", ln).group(1))
            elif ln.startswith("MISMATCH") or ln.startswith("PARSE-ERROR") or ln.startswith("LIBEQ-MISMATCH"):
                mism += 1
                idx = int(ln.split()[1])
                text = subprocess.run([binary, "macrodoc", str(run.seed), str(idx)], stdout=subprocess.PIPE, text=True).stdout
                if mism <= 8:
                    sig = "macro-differs-from-parse" if ln.startswith("MISMATCH") else ("macro-table-not-equal-to-parsed-table" if ln.startswith("LIBEQ") else "macro-accepts-what-the-parser-refuses")
                    if number_like_bare_key(text):
                        sig += ":number-like-bare-key"
                    run.violations.append({"sig": sig, "detail": ln[:900], "workload": "macro", "index": idx, "input": text, "phase": "run"})
    # token shapes used, measured on the generated sources
    src_all = ""
    for i in range(n_prog):
        src_all += open(os.path.join(out, "src", "bin", f"p{i}.rs")).read()
    shapes = {
        "std-headers": len(re.findall(r"^        \[[^\[]", src_all, re.M)),
        "aot-headers": len(re.findall(r"^        \[\[", src_all, re.M)),
        "dotted-keys": len(re.findall(r"^        [^ =\[]+\.[^ =]+ =", src_all, re.M)),
        "dash-keys": len(re.findall(r"^        [A-Za-z_]+-[A-Za-z_0-9-]+", src_all, re.M)),
        "quoted-keys": len(re.findall(r'^        "', src_all, re.M)),
        "negative-numbers": len(re.findall(r"= -[0-9]", src_all)),
        "plus-numbers": len(re.findall(r"= \+[0-9]", src_all)),
        "hex-oct-bin": len(re.findall(r"= 0[xob]", src_all)),
        "inf-nan": len(re.findall(r"= [+-]?(inf|nan)", src_all)),
        "offset-date-times": len(re.findall(r"\d\d:\d\d:\d\d(\.\d+)?([Zz]|-\d\d:\d\d)", src_all)),
        "local-date-times": len(re.findall(r"\d{4}-\d\d-\d\d[Tt ]\d\d:\d\d:\d\d", src_all)),
        "inline-tables": src_all.count("{ ") // 2,
        "arrays-with-trailing-comma": src_all.count(",]"),
    }
    run.evaluations += docs
    run.distinct += docs
    run.extra_cov["programs"] = n_prog
    run.extra_cov["documents"] = docs
    run.extra_cov["mismatches"] = mism
    run.extra_cov["token_shapes"] = {k: v // 2 for k, v in shapes.items()}
    sample = subprocess.run([binary, "macrodoc", str(run.seed), "1"], stdout=subprocess.PIPE, text=True).stdout
    run.samples["macro-document"] = [sample]
    run.phases.append("macro-programs")
