#!/usr/bin/env python3
"""keep_mutant.py <Cxx> <i> <needs> <caught-by...>: store a confirmed seeded mutation under /verif/seeded/<Cxx>-m<i>/"""
import json, os, shutil, subprocess, sys
prop, i, needs = sys.argv[1], sys.argv[2], sys.argv[3]
caught = sys.argv[4:]
src = f"/tmp/wt/{prop}/_mutation"
j = int(i) + int(os.environ.get("MUT_OFFSET", "0"))
dst = f"/verif/seeded/{prop}-m{j}"
os.makedirs(dst, exist_ok=True)
shutil.copy(f"{src}/patch{i}.diff", f"{dst}/patch.diff")
shutil.copy(f"{src}/demo{i}.rs", f"{dst}/demo.rs")
if os.path.exists(f"{src}/demo{i}/Cargo.toml"):
    shutil.copy(f"{src}/demo{i}/Cargo.toml", f"{dst}/demo.Cargo.toml")
if os.path.exists(f"{src}/meta{i}.md"):
    shutil.copy(f"{src}/meta{i}.md", f"{dst}/agent_notes.md")
stat = subprocess.run(["git", "apply", "--stat", f"{dst}/patch.diff"], cwd="/repo", stdout=subprocess.PIPE, text=True).stdout.strip().split("\n")
meta = {
    "property": prop,
    "origin": "written by a fresh sub-agent that saw only the property text and a scratch worktree of /repo",
    "files_changed": [l.strip() for l in stat[:-1]],
    "needs_to_manifest": needs,
    "confirmed": "in the scratch worktree: the unedited workspace test suite passes with the patch (2186 passed, 0 failed); the demonstration (demo.rs) exits 0 on the clean tree and non-zero with the patch",
    "ran": [f"lib/verify_mutant.sh /tmp/wt/{prop} {i}", f"lib/try_mutant.sh seeded/{prop}-m{j}/patch.diff " + " ".join(c.split(":")[0] for c in caught)],
    "detected_by": caught,
}
json.dump(meta, open(f"{dst}/meta.json", "w"), indent=1)
print(dst)
