#!/bin/bash
# usage: lib/sweep.sh <tier> <seed> [Cxx ...] -- runs the checks one after another, one summary line each
tier=$1; seed=$2; shift 2
props=${@:-C01 C02 C03 C04 C05 C06 C07 C08 C09 C10 C11 C12 C13 C14 C15 C16 C17 C18 C19 C20}
mkdir -p /verif/evidence/work
for c in $props; do
  t0=$(date +%s)
  /verif/check $c --tier $tier --seed $seed > /verif/evidence/work/sweep-$tier-$seed-$c.log 2>&1; rc=$?
  echo "$c tier=$tier seed=$seed rc=$rc wall=$(( $(date +%s) - t0 ))s viol=$(grep -c '^VIOLATION' /verif/evidence/work/sweep-$tier-$seed-$c.log) known=$(grep -c '^KNOWN-FINDING' /verif/evidence/work/sweep-$tier-$seed-$c.log) inconcl=$(grep -c '^INCONCLUSIVE' /verif/evidence/work/sweep-$tier-$seed-$c.log)"
done
