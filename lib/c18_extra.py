"""C18: build the battery once per feature configuration, run it, compare digests item by item."""
import os
import subprocess
import time
from concurrent.futures import ThreadPoolExecutor

TE = "toml_edit"
T = "toml"

# name -> (features, family, reference, line prefixes compared with the reference)
ALL_TE = ["te-parse#", "te-parse-order#", "te-imparse#", "te-print#", "te-error#", "te-built-tree#", "te-built-print#", "te-value-print#", "te-depth#"]
PARSE_TE = ["te-parse#", "te-parse-order#", "te-imparse#", "te-built-tree#", "te-depth#"]
DISPLAY_TE = ["te-built-tree#", "te-built-print#", "te-value-print#"]
SERDE_TE = ALL_TE + ["te-de#", "te-ser#", "te-ser-pretty#"]
API_T = ["t-map-ops#", "t-into#", "t-foreign-map#"]
ALL_T = ["t-parse#", "t-spanned-keys#", "t-parse-order#", "t-reprint-sorted#", "t-built-tree#", "t-built-order#", "t-ser#", "t-value-display#", "t-ser-meaning#", "t-map-order#"] + API_T
PO_T = ["t-parse#", "t-spanned-keys#", "t-reprint-sorted#", "t-built-tree#", "t-ser-meaning#"] + API_T

CONFIGS = {
    "te-default": (["te-parse", "te-display"], None, []),
    "te-perf": (["te-parse", "te-display", "te-perf"], "te-default", ALL_TE),
    "te-parse-only": (["te-parse"], "te-default", PARSE_TE),
    "te-display-only": (["te-display"], "te-default", DISPLAY_TE),
    "te-serde": (["te-parse", "te-display", "te-serde"], "te-default", ALL_TE),
    "te-serde-perf": (["te-parse", "te-display", "te-serde", "te-perf"], "te-serde", SERDE_TE),
    "te-parse-serde": (["te-parse", "te-serde"], "te-serde", PARSE_TE + ["te-de#"]),
    "te-display-serde": (["te-display", "te-serde"], "te-serde", DISPLAY_TE + ["te-ser#", "te-ser-pretty#"]),
    "te-parse-perf": (["te-parse", "te-perf"], "te-default", PARSE_TE),
    "te-display-perf": (["te-display", "te-perf"], "te-default", DISPLAY_TE),
    "te-unbounded": (["te-parse", "te-display", "te-unbounded"], "te-default", ALL_TE),
    "t-default": (["t-parse", "t-display"], None, []),
    "t-po": (["t-parse", "t-display", "t-po"], "t-default", PO_T),
    "t-parse-only": (["t-parse"], "t-default", ["t-parse#", "t-spanned-keys#", "t-parse-order#", "t-built-tree#", "t-built-order#", "t-map-order#"] + API_T),
    "t-display-only": (["t-display"], "t-default", ["t-built-tree#", "t-built-order#", "t-ser#", "t-value-display#", "t-map-order#"] + API_T),
    "t-po-parse-only": (["t-parse", "t-po"], "t-po", ["t-parse#", "t-spanned-keys#", "t-parse-order#", "t-built-tree#", "t-built-order#", "t-map-order#"] + API_T),
    "t-po-display-only": (["t-display", "t-po"], "t-po", ["t-built-tree#", "t-built-order#", "t-ser#", "t-value-display#", "t-map-order#"] + API_T),
    "t-perf": (["t-parse", "t-display", "te-perf"], "t-default", ALL_T),
    "t-po-perf": (["t-parse", "t-display", "t-po", "te-perf"], "t-po", ALL_T),
}

QUICK = ["te-default", "te-perf", "te-parse-only", "te-display-only", "te-serde", "te-unbounded", "t-default", "t-po", "t-parse-only", "t-display-only"]


def build_cfg(drv, name, feats):
    td = os.path.join(drv.HARNESS, "target-bat", name)
    cmd = ["cargo", "build", "--offline", "--release", "-p", "battery", "--no-default-features", "--features", ",".join(feats), "--target-dir", td, "-j", "4"]
    p = subprocess.run(cmd, cwd=drv.HARNESS, env=drv.env_offline({"RUSTFLAGS": drv.GUARD}), stdout=subprocess.PIPE, stderr=subprocess.STDOUT, text=True)
    return name, p.returncode, p.stdout[-3000:], os.path.join(td, "release", "battery")


def run_battery(drv, binary, seed, n_docs, n_built):
    p = subprocess.run([binary, str(seed), str(n_docs), str(n_built)], cwd=drv.VERIF, env=drv.env_offline(), stdout=subprocess.PIPE, stderr=subprocess.PIPE, text=True, timeout=1800)
    lines = {}
    for ln in p.stdout.splitlines():
        if " " in ln:
            k, v = ln.split(" ", 1)
            lines[k] = v
    return p.returncode, lines, p.stderr[-1500:]


def run(run, binary, drv):
    names = QUICK if run.tier == "quick" else list(CONFIGS)
    n_docs, n_built = (12000, 6000) if run.tier == "quick" else (200000, 100000)
    t0 = time.time()
    with ThreadPoolExecutor(max_workers=4) as ex:
        builds = list(ex.map(lambda n: build_cfg(drv, n, CONFIGS[n][0]), names))
    drv.log(f"[C18] built {len(builds)} configurations in {time.time()-t0:.0f}s")
    bins = {}
    for name, rc, out, path in builds:
        if rc != 0:
            run.violations.append({"sig": f"configuration-does-not-build:{name}", "detail": f"features {CONFIGS[name][0]}: {out[-1200:]}", "workload": "build", "index": 0, "input": None, "phase": "build"})
        else:
            bins[name] = path
    with ThreadPoolExecutor(max_workers=8) as ex:
        outs = dict(zip(bins, ex.map(lambda n: run_battery(drv, bins[n], run.seed, n_docs, n_built), list(bins))))
    per_cfg = {}
    distinct = set()
    for name, (rc, lines, err) in outs.items():
        per_cfg[name] = {"items": len(lines), "exit": rc}
        if rc != 0 or "done" not in " ".join(lines.keys()) and not any(k == "done" for k in lines):
            pass
        if rc != 0:
            run.violations.append({"sig": f"battery-died:{name}", "detail": f"exit {rc}: {err}", "workload": name, "index": 0, "input": None, "phase": "run"})
    compared = 0
    mismatches = 0
    for name in bins:
        feats, ref, prefixes = CONFIGS[name]
        if ref is None or ref not in outs or name not in outs:
            continue
        a = outs[ref][1]
        b = outs[name][1]
        for k, v in b.items():
            if not any(k.startswith(p) for p in prefixes):
                continue
            if k not in a:
                continue
            compared += 1
            distinct.add(k)
            if a[k] != v:
                # documented exception: unbounded accepts what the default refuses for depth
                if name == "te-unbounded" and (k.startswith("te-depth#") or ("limit" in a[k] and v.startswith("ok"))):
                    run.counters["unbounded/accepted-beyond-limit"] = run.counters.get("unbounded/accepted-beyond-limit", 0) + 1
                    continue
                if name == "te-unbounded" and "limit" in a[k]:
                    continue
                mismatches += 1
                if mismatches <= 6:
                    run.violations.append({"sig": f"digest-differs:{name}:{k.split('#')[0]}", "detail": f"item {k}: {ref} gives `{a[k]}`, {name} gives `{v}`", "workload": name, "index": 0, "input": None, "phase": "compare"})
    # the documented ordering exception, checked positively
    for name, want in (("t-default", "expected-sorted-order#"), ("t-po", "expected-insertion-order#")):
        if name in outs:
            lines = outs[name][1]
            for k, v in lines.items():
                if k.startswith("t-built-order#"):
                    i = k.split("#")[1]
                    compared += 1
                    if lines.get(want + i) != v:
                        run.violations.append({"sig": f"map-order-differs:{name}", "detail": f"built value {i}: iteration order digest {v}, expected ({want[:-1]}) {lines.get(want + i)}", "workload": name, "index": int(i), "input": None, "phase": "compare"})
                        break
    # the same exception for a table that went through a call sequence (removals, entry API, retain)
    for name in outs:
        if not name.startswith("t-"):
            continue
        want = "expected-map-insertion#" if "t-po" in CONFIGS[name][0] else "expected-map-sorted#"
        lines = outs[name][1]
        bad = 0
        for k, v in lines.items():
            if k.startswith("t-map-order#"):
                i = k.split("#")[1]
                compared += 1
                if lines.get(want + i) != v:
                    bad += 1
                    if bad <= 2:
                        run.violations.append({"sig": f"map-order-after-calls-differs:{'insertion' if 'insertion' in want else 'sorted'}", "detail": f"{name}: call sequence {i}: iteration order digest {v}, expected ({want[:-1]}) {lines.get(want + i)}", "workload": name, "index": int(i), "input": None, "phase": "compare"})
    if "te-unbounded" in outs:
        d = outs["te-unbounded"][1]
        if d.get("te-depth#200") != "true":
            run.violations.append({"sig": "unbounded-still-limited", "detail": f"with the unbounded feature a depth-200 document gives {d.get('te-depth#200')}", "workload": "te-unbounded", "index": 200, "input": None, "phase": "compare"})
    run.evaluations += compared
    run.distinct += len(distinct)
    run.extra_cov["configurations"] = per_cfg
    run.extra_cov["items_compared"] = compared
    run.extra_cov["digest_mismatches"] = mismatches
    run.samples["configurations"] = [f"{n}: {CONFIGS[n][0]}" for n in names][:3]
    run.samples["items"] = [f"{k} {v}" for k, v in list(outs.get("te-default", (0, {}, ""))[1].items())[:3]]
    run.phases.append("battery")
    if run.tier == "thorough":
        miri(run, drv)


def miri(run, drv):
    """the perf feature pulls in kstring's unsafe code: interpret a small battery under Miri"""
    td = os.path.join(drv.HARNESS, "target-miri-bat")
    cmd = ["cargo", "+nightly", "miri", "run", "--offline", "-p", "battery", "--no-default-features", "--features", "te-parse,te-display,te-perf", "--target-dir", td, "--", "0", "24", "12"]
    env = drv.env_offline({"MIRIFLAGS": "-Zmiri-disable-isolation", "RUSTFLAGS": drv.GUARD})
    try:
        p = subprocess.run(cmd, cwd=drv.HARNESS, env=env, stdout=subprocess.PIPE, stderr=subprocess.PIPE, text=True, timeout=3000)
    except subprocess.TimeoutExpired:
        run.inconclusive.append("[miri] battery under Miri timed out")
        return
    if "Undefined Behavior" in p.stderr or "error: unsupported operation" in p.stderr:
        run.violations.append({"sig": "miri-report:perf-battery", "detail": p.stderr[-1500:], "workload": "miri", "index": 0, "input": None, "phase": "miri"})
    elif p.returncode != 0:
        run.inconclusive.append(f"[miri] exit {p.returncode}: {p.stderr[-400:]}")
    else:
        n = sum(1 for l in p.stdout.splitlines() if "#" in l)
        run.extra_cov["miri_perf_items"] = n
        run.evaluations += n
        run.phases.append("miri-perf")
