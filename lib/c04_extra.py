"""C04 extra phases: release/dev builds, callgrind scaling, ASan and Miri (thorough)."""
import os
import re
import subprocess
import time
from concurrent.futures import ThreadPoolExecutor


WALL = {}


def callgrind_ir(binary, family, n, drv):
    cmd = ["valgrind", "--tool=callgrind", "--callgrind-out-file=/dev/null", binary, "scale", family, str(n)]
    t0 = time.time()
    try:
        p = subprocess.run(cmd, cwd=drv.VERIF, stdout=subprocess.PIPE, stderr=subprocess.PIPE, text=True, timeout=900, env=drv.env_offline())
    except subprocess.TimeoutExpired:
        return None, "timeout", ""
    WALL[(family, n)] = time.time() - t0
    m = re.search(r"Collected\s*:\s*(\d+)", p.stderr)
    if p.returncode != 0 or not m:
        return None, f"rc={p.returncode}", p.stdout + p.stderr[-500:]
    return int(m.group(1)), "ok", p.stdout


def scaling_phase(run, rel_binary, drv, n):
    fams = subprocess.run([rel_binary, "scale-families"], stdout=subprocess.PIPE, text=True).stdout.split()
    jobs = [("empty", 0)] + [(f, k) for f in fams for k in (n, 4 * n)]
    with ThreadPoolExecutor(max_workers=16) as ex:
        res = list(ex.map(lambda j: callgrind_ir(rel_binary, j[0], j[1], drv), jobs))
    table = {}
    base = None
    for (f, k), (ir, status, out) in zip(jobs, res):
        if ir is None:
            small = WALL.get((f, n))
            if status == "timeout" and k == 4 * n and small is not None and small < 20:
                # the input a quarter of the size was measured in under 20 s; this one did not finish
                # in 900 s: more than 45x for a 4x input on the same machine, far beyond quadratic
                run.violations.append({"sig": f"superquadratic-work:{f}", "detail": f"the family at n={k} did not finish under callgrind within 900 s; at n={n} it took {small:.1f} s", "workload": f"scale:{f}", "index": n, "input": None, "phase": "scaling"})
            else:
                run.inconclusive.append(f"[scaling] callgrind {f} n={k}: {status} {out[-200:]}")
            continue
        if "SCALE-VIOLATION" in out:
            run.violations.append({"sig": f"scale-panic:{f}", "detail": out[:600], "workload": f"scale:{f}", "index": k, "input": None, "phase": "scaling"})
        if f == "empty":
            base = ir
        table.setdefault(f, {})[k] = ir
    ratios = {}
    if base is None:
        run.inconclusive.append("[scaling] no baseline")
        return
    for f in fams:
        if f in table and n in table[f] and 4 * n in table[f]:
            a = max(1, table[f][n] - base)
            b = max(1, table[f][4 * n] - base)
            r = b / a
            ratios[f] = {"Ir_n": a, "Ir_4n": b, "ratio": round(r, 2), "growth": "linear" if r < 6 else ("quadratic" if r < 24 else "worse-than-quadratic")}
            run.evaluations += 2
            if r >= 24:
                run.violations.append({"sig": f"superquadratic-work:{f}", "detail": f"instructions grow {r:.1f}x when the input grows 4x (n={n}): {a} -> {b}", "workload": f"scale:{f}", "index": n, "input": None, "phase": "scaling"})
    run.extra_cov["scaling_callgrind"] = {"n": n, "baseline_Ir_empty_input": base, "families": ratios}
    run.phases.append("scaling")


def run(run, binary, drv):
    drv.standard_phase(run, binary, phase="checked")
    # a shard that died or hung already decides the run; the other build profiles would only wait for
    # the same case again
    stopped = any(v["sig"].startswith(("hang:", "process-death:")) for v in run.violations)
    rel = drv.build("release")
    if rel and stopped:
        scaling_phase(run, rel, drv, 150 if run.tier == "quick" else 500)
        return
    if rel:
        drv.standard_phase(run, rel, phase="release-H1", extra_args=["--frac", "2"])
        scaling_phase(run, rel, drv, 150 if run.tier == "quick" else 500)
    else:
        run.inconclusive.append("release build failed")
    dev = drv.build("dev")
    if dev:
        drv.standard_phase(run, dev, phase="dev", extra_args=["--frac", "8" if run.tier == "quick" else "4"])
    else:
        run.inconclusive.append("dev build failed")
    if run.tier == "thorough":
        import sanphase

        sanphase.asan_phase(run, drv, extra_args=["--frac", "4"])
        sanphase.miri_phase(run, drv, limit=3, nshards=8)
        sanphase.fuzz_phase(run, drv, binary, 900, "C04")
    # H1: every unchecked site must have been reached in the release phase
    h1 = {k: v for k, v in run.counters.items() if k.startswith("H1-site/")}
    run.extra_cov["H1_sites_reached"] = len(h1)
    if len(h1) < 11:
        run.inconclusive.append(f"hook H1 saw only {len(h1)} call-site families (expected 11): {sorted(h1)}")





