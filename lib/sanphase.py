"""Sanitizer / interpreter / coverage-guided phases shared by the thorough tiers.

  asan_phase  the sharded workloads in a release build instrumented with AddressSanitizer
  miri_phase  a few cases per workload and shard interpreted by Miri (both assertion modes)
  fuzz_phase  libFuzzer (with ASan) over the property's own oracle, 16 forked workers

Every phase keeps the three-valued verdict: a sanitizer / interpreter report or a reproducible
artifact is a violation; a timeout of the tool itself, or an artifact that does not reproduce, is
inconclusive."""
import glob
import os
import shutil
import subprocess
import time

TARGET = "x86_64-unknown-linux-gnu"


def asan_phase(run, drv, extra_args=None):
    td = os.path.join(drv.HARNESS, "target-asan")
    b = drv.build("release", target_dir=td, toolchain="nightly", extra_rustflags="-Zsanitizer=address -Cforce-frame-pointers=yes", target=TARGET)
    if not b:
        run.inconclusive.append("[asan] instrumented build failed")
        return
    # the harness keeps interned names and per-thread state alive on purpose: leak checking off
    env = {"ASAN_OPTIONS": "detect_leaks=0:abort_on_error=1:halt_on_error=1:detect_stack_use_after_return=1", "ASAN_SYMBOLIZER_PATH": "/usr/bin/llvm-symbolizer-14"}
    drv.standard_phase(run, b, phase="asan", extra_args=extra_args or ["--frac", "4"], env_extra=env)


def miri_phase(run, drv, limit=3, nshards=8, modes=("dev", "release"), timeout=5400):
    """`limit` cases of every workload in each of `nshards` shards, per assertion mode"""
    for mode in modes:
        td = os.path.join(drv.HARNESS, "target-miri")
        outdir = os.path.join(drv.WORK, f"{run.pid}-miri-{mode}")
        launcher = ["cargo", "+nightly", "miri", "run", "--offline", "-q", "-p", "vcheck", "--target-dir", td]
        if mode == "release":
            launcher.append("--release")
        launcher.append("--")
        env = {"MIRIFLAGS": "-Zmiri-disable-isolation", "RUSTFLAGS": drv.GUARD}
        # build once so that the shards do not queue behind the build lock with their clocks running
        t0 = time.time()
        warm = subprocess.run(launcher + ["merge-hashes"], cwd=drv.HARNESS, env=drv.env_offline(env), stdout=subprocess.PIPE, stderr=subprocess.PIPE, text=True)
        drv.log(f"[miri] {mode} build in {time.time()-t0:.0f}s")
        results, crashes = drv.run_shards(None, run.pid, run.tier, run.seed, outdir, extra_args=["--limit", str(limit)], nshards=nshards, timeout=timeout, env_extra=env, launcher=launcher, cwd=drv.HARNESS)
        merged = drv.merge(results)
        run.absorb(merged, outdir, run.binary, f"miri-{mode}")
        run.extra_cov.setdefault("miri", {})[mode] = {"cases": merged["evaluations"], "shards": nshards, "per_workload_limit": limit}
        for (i, rc, inflight, hung) in crashes:
            err = drv.stderr_tail(outdir, i, 6000)
            if "Undefined Behavior" in err or "error: unsupported operation" in err or "memory leaked" in err or "data race" in err.lower():
                head = [l for l in err.splitlines() if l.startswith("error")][:2]
                wl, _, idx = inflight.partition(" ")
                run.violations.append({"sig": f"miri-report:{mode}:{' '.join(head)[:80]}", "detail": f"Miri ({mode}) while running `{inflight}`: {err[-1800:]}", "workload": wl, "index": int(idx.split()[0]) if idx.split() and idx.split()[0].isdigit() else 0, "input": None, "phase": f"miri-{mode}"})
            elif hung:
                run.inconclusive.append(f"[miri-{mode}] shard {i} did not finish within {timeout}s (at `{inflight}`)")
            else:
                run.inconclusive.append(f"[miri-{mode}] shard {i} ended with status {rc} at `{inflight}`: {err[-300:]}")


def fuzz_phase(run, drv, binary, seconds, prop):
    """coverage-guided inputs over the oracle of `prop` (C01 or C04)"""
    fdir = os.path.join(drv.HARNESS, "fuzz")
    corpus = os.path.join(fdir, "corpus", f"doc-{prop}")
    art = os.path.join(fdir, "artifacts", f"doc-{prop}")
    shutil.rmtree(art, ignore_errors=True)
    shutil.rmtree(os.path.join(fdir, "artifacts", "doc"), ignore_errors=True)
    os.makedirs(art, exist_ok=True)
    os.makedirs(corpus, exist_ok=True)
    p = subprocess.run([binary, "dump-corpus", corpus, str(run.seed), "1500"], cwd=drv.VERIF, env=drv.env_offline(), stdout=subprocess.PIPE, text=True)
    env = drv.env_offline({"RUSTFLAGS": drv.GUARD, "VFUZZ_PROP": prop, "ASAN_OPTIONS": "detect_leaks=0"})
    t0 = time.time()
    b = subprocess.run(["cargo", "+nightly", "fuzz", "build", "doc"], cwd=drv.HARNESS, env=env, stdout=subprocess.PIPE, stderr=subprocess.STDOUT, text=True)
    if b.returncode != 0:
        run.inconclusive.append(f"[fuzz] target does not build: {b.stdout[-600:]}")
        return
    drv.log(f"[fuzz] target built in {time.time()-t0:.0f}s; corpus seeds: {p.stdout.strip()}")
    cmd = ["cargo", "+nightly", "fuzz", "run", "doc", corpus, "--", "-fork=16", "-timeout=10", "-rss_limit_mb=4096", "-max_len=4096", f"-max_total_time={seconds}", f"-seed={run.seed + 1}", f"-artifact_prefix={art}/", "-ignore_crashes=1", "-ignore_timeouts=1", "-ignore_ooms=1"]
    try:
        r = subprocess.run(cmd, cwd=drv.HARNESS, env=env, stdout=subprocess.PIPE, stderr=subprocess.STDOUT, text=True, errors="replace", timeout=seconds + 900)
        out = r.stdout
    except subprocess.TimeoutExpired as e:
        out = (e.stdout or b"").decode(errors="replace") if isinstance(e.stdout, bytes) else (e.stdout or "")
        run.inconclusive.append("[fuzz] libFuzzer did not stop in time")
    execs, cov, ft, corp = 0, 0, 0, 0
    for ln in out.splitlines():
        if ln.startswith("#") and " cov: " in ln:
            try:
                execs = int(ln[1:].split(":")[0])
                parts = ln.split()
                cov = int(parts[parts.index("cov:") + 1])
                ft = int(parts[parts.index("ft:") + 1])
                corp = int(parts[parts.index("corp:") + 1])
            except (ValueError, IndexError):
                pass
    run.extra_cov["fuzz"] = {"oracle": prop, "executions": execs, "edges_covered": cov, "features": ft, "corpus_units": corp, "seconds": seconds, "workers": 16, "sanitizer": "address"}
    run.evaluations += execs
    run.distinct += corp
    run.phases.append("fuzz")
    if execs == 0:
        run.inconclusive.append(f"[fuzz] no executions recorded: {out[-400:]}")
    fbin = os.path.join(fdir, "target", TARGET, "release", "doc")
    seen = set()
    # cargo-fuzz passes its own -artifact_prefix first; libFuzzer honours the last one given, but
    # look in both places
    default_art = os.path.join(fdir, "artifacts", "doc")
    for path in sorted(glob.glob(os.path.join(art, "*")) + glob.glob(os.path.join(default_art, "*"))):
        kind = os.path.basename(path).split("-")[0]
        # judge the kept input with the plain harness first (names the oracle that fired)
        q = subprocess.run([binary, "file", prop, path], cwd=drv.VERIF, env=drv.env_offline(), stdout=subprocess.PIPE, stderr=subprocess.PIPE, text=True, errors="replace")
        sigs = [l.split()[1][4:] for l in q.stdout.splitlines() if l.startswith("REPLAY-VIOLATION sig=")]
        keep = os.path.join(drv.REPLAY, f"{prop}-fuzz-{os.path.basename(path)[:24]}")
        if sigs or q.returncode < 0 or q.returncode >= 128:
            os.makedirs(drv.REPLAY, exist_ok=True)
            shutil.copy(path, keep)
            sig = sigs[0] if sigs else f"process-death:fuzz-input"
            if sig in seen:
                continue
            seen.add(sig)
            detail = next((l for l in q.stdout.splitlines() if l.startswith("REPLAY-VIOLATION")), f"the harness dies with status {q.returncode} on this input")
            run.violations.append({"sig": sig, "detail": f"coverage-guided input {os.path.basename(path)}: {detail[:600]}", "workload": "fuzz", "index": 0, "input": open(path, "rb").read()[:400].decode(errors="replace"), "phase": "fuzz", "file": os.path.relpath(keep, drv.VERIF)})
            continue
        # not reproduced by the plain build: does the instrumented target itself still object?
        try:
            z = subprocess.run([fbin, path], cwd=drv.HARNESS, env=env, stdout=subprocess.PIPE, stderr=subprocess.STDOUT, text=True, errors="replace", timeout=120)
            if "ERROR: AddressSanitizer" in z.stdout:
                os.makedirs(drv.REPLAY, exist_ok=True)
                shutil.copy(path, keep)
                summ = next((l for l in z.stdout.splitlines() if l.startswith("SUMMARY")), "")
                run.violations.append({"sig": f"asan-report:fuzz:{summ.split(' in ')[0][:60]}", "detail": f"AddressSanitizer on {os.path.basename(path)}: {summ} {z.stdout[-900:]}", "workload": "fuzz", "index": 0, "input": None, "phase": "fuzz", "file": os.path.relpath(keep, drv.VERIF)})
            elif z.returncode != 0 and kind == "crash":
                run.inconclusive.append(f"[fuzz] artifact {os.path.basename(path)} makes the fuzz target exit {z.returncode} but the harness accepts it: {z.stdout[-300:]}")
            else:
                run.counters[f"fuzz/artifact-not-reproduced/{kind}"] = run.counters.get(f"fuzz/artifact-not-reproduced/{kind}", 0) + 1
        except subprocess.TimeoutExpired:
            os.makedirs(drv.REPLAY, exist_ok=True)
            shutil.copy(path, keep)
            run.violations.append({"sig": "hang:fuzz-input", "detail": f"input {os.path.basename(path)} does not finish within 120 s", "workload": "fuzz", "index": 0, "input": None, "phase": "fuzz", "file": os.path.relpath(keep, drv.VERIF)})
